#!/usr/bin/env python3
"""Regenerates /verif/MANIFEST.json from the table below (keeps every entry consistent).  usage: gen_manifest.py"""
import json
import os
import subprocess

VERIF = os.path.dirname(os.path.dirname(os.path.abspath(__file__)))

# id -> (technique, level text, trusted base note, design ref, engines)
CHECKS = {
    "C01": ("property-based testing (rapidcheck) against an exact integer product oracle",
            "generated operand pairs from adversarial pattern families, constructed inside the documented 52-bit budget with a bias to its boundary, for every N=2..65536, both CPU dispatch configurations and all three entry paths; each compared coefficient-wise with the exact product (bound E+1/2, exact when E<1/2)",
            "trusted: schoolbook __int128 / Goldilocks-NTT product oracle (cross-checked against each other on every N<=512 case), long-double norms, compiler"),
    "C02": ("property-based testing (rapidcheck) against an exact sum-of-products oracle",
            "generated matrix shapes (1..6 x 1..6, sampled up to 64x33), input/output limb counts 0..8, strides, both entry points, both CPU configurations, every N; each output column compared with the exact sum of row products; scratch of exactly *_tmp_bytes on guard pages",
            "trusted: exact product oracle, page protection"),
    "C03": ("property-based testing (rapidcheck): round trip, linearity, evaluation-map and convolution relations modulo each prime",
            "generated 64-bit lane families (extremal, just below multiples of each prime, random) for every n=1..65536; order-agnostic relations checked with u128 modular arithmetic; module-level dft/idft identity on all of int64 with all size/stride shapes",
            "trusted: u128 modular arithmetic + independent textbook NTT/schoolbook convolution; the four primes are taken from the library header (configuration)"),
    "C04": ("property-based testing (rapidcheck) on extremal operands against a u128 modular oracle",
            "worst-case operand families (all-maximal, alternating, single-maximal, per-split-point patterns) at ell up to 10000 and every n; a 64-bit wrap changes the residue, so congruence with the exact value modulo each prime decides it; reference and AVX2 compared",
            "trusted: u128 modular oracle; not a certificate of the envelope for all inputs (DESIGN §9)"),
    "C05": ("property-based testing (rapidcheck) + exhaustive small-k enumeration against an exact carry-chain oracle",
            "every k in 1..62 in every run, all size pairs 0..7, strides, in-place, range triples, maximal-carry-chain families; exhaustive enumeration for k<=3 and <=3 limbs; oracle = __int128 carry chain cross-checked by a multiword (GMP) congruence",
            "trusted: __int128 carry chain + GMP validity predicate"),
    "C06": ("property-based testing (rapidcheck) against a long-double reference transform and direct Horner evaluation",
            "structured and random inputs for every m=1..65536, every implementation (ref, AVX2/FMA, assembly leaves, *_simple), both CPU configurations; 2-norm error bound of the statement plus oracle allowance; Horner spot checks tie the documented output order to the mathematical definition",
            "trusted: long double (64-bit mantissa) reference DFT with per-index twiddles, libm cosl/sinl"),
    "C07": ("differential property-based testing (rapidcheck): accelerated vs reference kernels, API results across the four CPU-feature masks",
            "every exported kernel pair at its dispatch threshold and at large sizes, misaligned pointers, extremal operands: bit-identical for integer/data-movement kernels, congruent for lazy q120, each variant within a few ulps-scaled units of the exact value for floating kernels; module-level integer results identical under masks 0..3",
            "trusted: guarded CPU-mask hook only removes features; long-double exact values for floating kernels"),
    "C08": ("property-based testing (rapidcheck) against a limb-wise reference model over the whole output buffer",
            "all 16 element-wise entry points x all orderings of (res,a,b) sizes 0..5 x strides N..N+3 and N+4096 x extra limbs past res_size x both module types x both CPU configurations; padding and trailing limbs must keep their prefill, sources their snapshot",
            "trusted: 40-line limb model, page protection, canaries"),
    "C09": ("property-based testing (rapidcheck) + exhaustive small-N enumeration against a reference model",
            "exhaustive enumeration of all residues p mod 2N for N<=4096 (quick) plus 2-adically constructed, special and huge p for all N up to 65536, znx+rnx kernels, in-place, wrappers, composition laws; the maps are data-independent signed permutations, so an injective probe per (N,p) determines behaviour on all inputs",
            "trusted: u128 index-arithmetic model"),
    "C10": ("property-based testing (rapidcheck) against a u128 modular / CRT oracle",
            "all product kernels (ref+avx2) with ell in 0..10000 on canonical, non-canonical and extremal operands; conversions on all of int64 incl. MIN/MAX and at +-(Q-1)/2; block extract/save round trips",
            "trusted: u128 modular arithmetic and an independent CRT"),
    "C11": ("property-based testing (rapidcheck) under ASan/UBSan and guard pages: exact-extent buffers, prefill differential, allocation tracker",
            "every public entry point x zero/small sizes x strides x per-buffer placement (guard page after/before the extent, heap block of exactly the declared size at offsets 0..56) x two prefills, on the sanitizer build and on the gcc -O2 build with guard pages (which also sees the assembly); new_*/delete_* balance via link-time allocator interposition",
            "trusted: ASan/UBSan runtimes, kernel page protection, --wrap allocator tracker"),
    "C12": ("generated thread programs executed in fresh ThreadSanitizer child processes; concurrent == sequential differential",
            "random thread programs (2..16 threads, shared MODULE / PRECOMP / prepared operands, fresh and warmed-up processes); TSan's happens-before detection reports unsynchronised conflicting accesses largely independent of the sampled interleaving; outputs compared bitwise with a sequential re-execution",
            "trusted: ThreadSanitizer; the harness does not own the scheduler (DESIGN §9)"),
    "C13": ("metamorphic property-based testing (rapidcheck): aliased call vs the same call on private copies",
            "all listed aliasing patterns x independent sizes 0..5 x every N x all p classes x both module types; bitwise equality with the out-of-place call plus the limb model / exact round trip",
            "trusted: the out-of-place behaviour is itself decided by C08/C09/C05/C03"),
    "C14": ("property-based testing (rapidcheck) at and around the domain boundaries against exact long-double/integer references",
            "every conversion, reference and accelerated variants, all m incl. below vector thresholds, all divisors 2^j, every log2overhead 0..48, magnitudes at and just inside each bound, ties and near-ties",
            "trusted: exactly representable long-double reference values"),
    "C15": ("stateful property-based testing (generated call histories): repeat == original, *_simple == fresh table",
            "histories of 50..400 calls mixing cached *_simple functions with changing parameters and module entry points; re-issued calls with different buffer placement and prefill must be bit-identical; every *_simple call equals a freshly built table",
            "trusted: determinism of the harness (pure function of the descriptor)"),
    "C16": ("model-based property-based testing (rapidcheck random programs) + coverage-guided fuzzing (libFuzzer, structure-aware) against an exact interpreter",
            "random well-typed straight-line programs over the public API with generated shapes, strides, aliasing and interpreter-chosen magnitudes; every integer output compared with exact integer polynomial arithmetic; the same generator is driven by libFuzzer bytes in the thorough tier",
            "trusted: exact interpreter (int128 polynomials, oracles of C01/C05/C09), conservative FFT64 budget 2^40"),
    "C17": ("property-based testing (rapidcheck): direct indexing, round trips and long-double complex arithmetic",
            "all block indices for m<=256, generated beyond; rows 0..64, strides, window shapes incl. empty and beyond-the-product; every kernel variant; tolerance (2*terms+4)*2^-53*S",
            "trusted: long-double complex reference"),
    "C18": ("property-based testing (rapidcheck) with byte snapshots of every source operand and of the MODULE/PRECOMP heap blocks",
            "all public entry points and table kernels x shapes x both module types x both CPU configurations, output aliased to one operand while the other source is watched; heap blocks of an object found by link-time allocator interposition",
            "trusted: --wrap allocator tracker"),
}


def main():
    hooks_commits = subprocess.run(["git", "-C", "/repo", "log", "--format=%h %s"], stdout=subprocess.PIPE, text=True).stdout.splitlines()
    hook_ids = [l.split()[0] for l in hooks_commits if l.split(" ", 1)[1].startswith("verif hook")]
    registered = json.load(open(os.path.join(VERIF, "scripts", "registered.json")))
    checks = []
    for pid in sorted(registered["claimed"]):
        tech, text, note = CHECKS[pid]
        checks.append(dict(
            property_id=pid,
            quick_cmd="./check %s --tier quick" % pid,
            thorough_cmd="./check %s --tier thorough" % pid,
            evidence_file="evidence/%s.json" % pid,
            replay_cmd_template="./check %s --replay {path}" % pid,
            engine="rapidcheck-harness" + ("+libfuzzer" if pid != "C12" else "") + ("+tsan-child" if pid == "C12" else ""),
            level_claimed=dict(category="exploration", text=text, design_ref="DESIGN.md §3 %s" % pid),
            level_note=note,
            technique=tech + ("" if pid in ("C12", "C16") else "; the same descriptors and oracle are also driven by coverage-guided fuzzing (libFuzzer over the instrumented library: corpus replay in the quick tier, campaigns in the thorough tier)"
                              + ("; a second libFuzzer target feeds byte-level limb data to the same oracle" if pid == "C05" else ""))))
    man = dict(
        version=1,
        setup_cmd="python3 engine/setup.py",
        hooks=dict(guard="SPQLIOS_VERIF",
                   enable="engine/buildlib.py compiles $VERIF_REPO/spqlios (default /repo) with -DNDEBUG -DSPQLIOS_VERIF into build/lib-<flavour>/libspqlios.a (content-hash stamped) on every check invocation",
                   baseline_off_cmd="scripts/baseline_off.sh", source_commits=hook_ids, add_only=True),
        engines=[
            dict(name="rapidcheck-harness", path="engine/harness.cpp", serves_properties=sorted(registered["claimed"]),
                 kind_free_text="rapidcheck generators over compact integer case descriptors (bulk data expanded deterministically), shrinking, exhaustive enumeration mode for finite strata, fork-based shrinking of crashing cases, replay files that bypass the library"),
            dict(name="libfuzzer", path="fuzz/descriptor.cpp", serves_properties=sorted(p for p in registered["claimed"] if p != "C12"),
                 kind_free_text="libFuzzer + ASan + UBSan subset over the fuzzer-no-link instrumented library. fuzz/descriptor.cpp: FuzzedDataProvider decodes bytes into an in-domain case descriptor of the property's own subs (same run function and oracle as under rapidcheck), coverage feedback from the library selects which descriptors are kept and mutated; fuzz/api_program.cpp (C16): bytes -> typed API program executed against the exact interpreter; fuzz/normalize.cpp (C05): byte-level limb data with value profile. Committed coverage-minimised corpora under fuzz/corpus/ are replayed in the quick tier"),
            dict(name="tsan-child", path="props/c12_child.cpp", serves_properties=["C12"],
                 kind_free_text="fresh ThreadSanitizer process per generated thread program"),
        ],
        checks=checks,
        not_applicable=[dict(property_id=p, reason=r) for p, r in sorted(registered.get("not_claimed", {}).items())],
        notes="All checks: ./check <ID> --tier quick|thorough (env VERIF_SEED). Exit 0 held / 1 + VIOLATION line / 2 infrastructure. See DESIGN.md.")
    json.dump(man, open(os.path.join(VERIF, "MANIFEST.json"), "w"), indent=1)
    print("MANIFEST.json: %d checks, %d not claimed" % (len(checks), len(man["not_applicable"])))


if __name__ == "__main__":
    main()
