#!/bin/bash
# usage: scripts/sweep.sh "1 2 3" [quick|thorough]  -- every check with every VERIF_SEED value; prints the last line of each run
cd "$(dirname "$0")/.."
for s in ${1:-1}; do for c in C01 C02 C03 C04 C05 C06 C07 C08 C09 C10 C11 C12 C13 C14 C15 C16 C17 C18; do
  echo "seed=$s $(VERIF_SEED=$s ./check $c --tier ${2:-quick} 2>&1 | tail -1)"
done; done
