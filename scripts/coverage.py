#!/usr/bin/env python3
"""Which library code do the checks execute?  (blind-spot finder, not a registered check)

Builds a gcov-instrumented copy of the library in a scratch build directory (outside /verif and /repo), runs the quick tier of
the named properties (default: all) with every job forced onto that flavour, then summarises per source file the functions and
lines that no check executed.  usage: coverage.py [--props C01,C02] [--tier quick] [--out coverage.md] [--keep]"""
import argparse
import glob
import gzip
import json
import os
import shutil
import subprocess
import sys
import tempfile

VERIF = os.path.dirname(os.path.dirname(os.path.abspath(__file__)))


def main():
    ap = argparse.ArgumentParser()
    ap.add_argument("--props")
    ap.add_argument("--tier", default="quick")
    ap.add_argument("--out", default=os.path.join(VERIF, "mutants", "COVERAGE.md"))
    ap.add_argument("--keep", action="store_true")
    ap.add_argument("--scale", default="1")
    a = ap.parse_args()
    sys.path.insert(0, os.path.join(VERIF, "props"))
    import plans
    props = a.props.split(",") if a.props else sorted(plans.PLANS)
    scratch = tempfile.mkdtemp(prefix="verif-cov-", dir="/tmp")
    env = dict(os.environ, VERIF_BUILD=os.path.join(scratch, "build"), VERIF_EVIDENCE=os.path.join(scratch, "evidence"),
               VERIF_COVERAGE="1", VERIF_FORCE_FLAVOUR="rel")
    try:
        for p in props:
            r = subprocess.run([os.path.join(VERIF, "check"), p, "--tier", a.tier, "--scale", a.scale], env=env, stdout=subprocess.PIPE,
                               stderr=subprocess.STDOUT, text=True)
            print(p, r.stdout.strip().splitlines()[-1] if r.stdout.strip() else r.returncode, flush=True)
        libdir = os.path.join(scratch, "build", "lib-rel")
        gcdas = glob.glob(os.path.join(libdir, "*.gcno"))  # objects without a .gcda (never linked / entered) are reported with zero counts
        out = os.path.join(scratch, "gcov")
        os.makedirs(out)
        subprocess.run(["gcov", "-j", "-b"] + gcdas, cwd=out, stdout=subprocess.PIPE, stderr=subprocess.STDOUT)
        files = {}
        for gz in glob.glob(os.path.join(out, "*.gcov.json.gz")):
            d = json.load(gzip.open(gz))
            for f in d["files"]:
                name = f["file"]
                if "/spqlios/" not in name:
                    continue
                name = name.split("/spqlios/", 1)[1]
                e = files.setdefault(name, dict(funcs={}, lines={}))
                for fn in f["functions"]:
                    e["funcs"][fn["name"]] = max(e["funcs"].get(fn["name"], 0), fn["execution_count"])
                for ln in f["lines"]:
                    e["lines"][ln["line_number"]] = max(e["lines"].get(ln["line_number"], 0), ln["count"])
                    br = [b for b in ln.get("branches", []) if not b.get("throw")]
                    if len(br) >= 2 and ln["count"] > 0:
                        cur = e.setdefault("branches", {}).setdefault(ln["line_number"], [0] * len(br))
                        if len(cur) == len(br):
                            for i, b in enumerate(br):
                                cur[i] = max(cur[i], b["count"])
        rows = []
        tot_l = tot_c = 0
        for name in sorted(files):
            e = files[name]
            nl = len(e["lines"])
            cl = sum(1 for c in e["lines"].values() if c > 0)
            tot_l += nl
            tot_c += cl
            dead = sorted(fn for fn, c in e["funcs"].items() if c == 0)
            unl = sorted(l for l, c in e["lines"].items() if c == 0)
            rows.append((name, nl, cl, dead, unl))
        with open(a.out, "w") as fh:
            fh.write("# Library code executed by the %s tiers (%s)\n\n" % (a.tier, ", ".join(props)))
            fh.write("gcov over a `-O1 --coverage` build of the library; lines: %d of %d executed (%.1f%%).\n\n" % (tot_c, tot_l, 100.0 * tot_c / max(1, tot_l)))
            fh.write("| file | lines executed | functions never entered | unexecuted lines |\n|---|---|---|---|\n")
            for name, nl, cl, dead, unl in rows:
                def ranges(xs):
                    out_, i = [], 0
                    while i < len(xs):
                        j = i
                        while j + 1 < len(xs) and xs[j + 1] == xs[j] + 1:
                            j += 1
                        out_.append(str(xs[i]) if i == j else "%d-%d" % (xs[i], xs[j]))
                        i = j + 1
                    return " ".join(out_)
                fh.write("| %s | %d/%d | %s | %s |\n" % (name, cl, nl, ", ".join(dead) or "-", ranges(unl)[:400] or "-"))
            fh.write("\n## Executed conditionals with an outcome that never occurred\n\n(source line: outcome counts; compiler-generated branches included)\n\n")
            for name in sorted(files):
                oneway = sorted((ln, c) for ln, c in files[name].get("branches", {}).items() if any(x == 0 for x in c) and any(x > 0 for x in c))
                if oneway:
                    fh.write("* %s: %s\n" % (name, ", ".join("%d" % ln for ln, c in oneway)))
        print("wrote", a.out, "lines %d/%d" % (tot_c, tot_l))
    finally:
        if a.keep:
            print("kept", scratch)
        else:
            shutil.rmtree(scratch, ignore_errors=True)


if __name__ == "__main__":
    main()
