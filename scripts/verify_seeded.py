#!/usr/bin/env python3
"""verify_seeded.py SRC_DIR NAME PROP [CHECK ...]
SRC_DIR contains patch.diff, demo.cpp|demo.c, run_demo.sh (from a red-team sub-agent).  Confirms independently, in a fresh scratch
worktree of /repo (outside /repo and /verif, removed afterwards):
  (1) the patch applies and builds, (2) the repository's test suite passes with it, (3) the demo fails with it,
  (4) the demo passes without it.
Then runs the given checks (default: PROP) against a scratch copy with the patch (quick tier) and stores everything in
/verif/seeded/NAME/ (patch.diff, demo, meta.json)."""
import json
import os
import shutil
import subprocess
import sys
import tempfile
import time

VERIF = os.path.dirname(os.path.dirname(os.path.abspath(__file__)))


def sh(cmd, cwd=None, timeout=3600):
    r = subprocess.run(cmd, shell=True, cwd=cwd, stdout=subprocess.PIPE, stderr=subprocess.STDOUT, text=True, timeout=timeout)
    return r.returncode, r.stdout


def main():
    src, name, prop = sys.argv[1:4]
    checks = sys.argv[4:] or [prop]
    wt = tempfile.mkdtemp(prefix="vs-", dir="/tmp")
    os.rmdir(wt)
    ran = []
    meta = dict(name=name, property=prop, source=src)
    try:
        rc, out = sh("git -C /repo worktree add --detach %s HEAD" % wt)
        assert rc == 0, out
        rc, out = sh("git apply %s" % os.path.join(src, "patch.diff"), cwd=wt)
        ran.append("git apply patch.diff -> rc=%d" % rc)
        if rc != 0:
            print("PATCH DOES NOT APPLY:\n" + out)
            return 1
        build = ("cmake -S . -B _build -G Ninja -DCMAKE_BUILD_TYPE=RelWithDebInfo -DCMAKE_C_FLAGS=-Wno-error -DCMAKE_CXX_FLAGS=-Wno-error >/dev/null "
                 "&& cmake --build _build -j16 2>&1 | tail -2")
        rc, out = sh(build, cwd=wt)
        ran.append("cmake build with patch -> rc=%d" % rc)
        if rc != 0:
            print("BUILD FAILS:\n" + out[-2000:])
            return 1
        rc, out = sh("ctest --test-dir _build --timeout 900 2>&1 | tail -4", cwd=wt)
        tests_ok = "100% tests passed" in out
        ran.append("ctest with patch -> %s" % ("pass" if tests_ok else "FAIL"))
        meta["tests_pass_with_patch"] = tests_ok
        rc_with, out_with = sh("bash %s %s" % (os.path.join(src, "run_demo.sh"), wt), cwd=src)
        ran.append("demo with patch -> rc=%d" % rc_with)
        meta["demo_with_patch_rc"] = rc_with
        meta["demo_with_patch_tail"] = out_with[-600:]
        sh("git checkout -- spqlios", cwd=wt)
        rc, out = sh("cmake --build _build -j16 2>&1 | tail -2", cwd=wt)
        rc_wo, out_wo = sh("bash %s %s" % (os.path.join(src, "run_demo.sh"), wt), cwd=src)
        ran.append("demo without patch -> rc=%d" % rc_wo)
        meta["demo_without_patch_rc"] = rc_wo
        ok = tests_ok and rc_with != 0 and rc_wo == 0
        meta["confirmed"] = ok
        print("\n".join(ran))
        if not ok:
            print("NOT CONFIRMED")
            print(out_with[-800:])
            print(out_wo[-800:])
    finally:
        sh("git -C /repo worktree remove --force %s" % wt)
        shutil.rmtree(wt, ignore_errors=True)
    # run the checks against a scratch copy carrying the patch
    sys.path.insert(0, os.path.join(VERIF, "mutants"))
    import run_mutants
    res = run_mutants.run_one(name, os.path.join(src, "patch.diff"), checks, "quick")
    for c, v in res.items():
        print("check %s: %s" % (c, v))
    meta["checks_quick"] = res
    meta["caught_by"] = [c for c, v in res.items() if v.startswith("KILLED")]
    meta["ran"] = ran + ["./check %s --tier quick against a scratch copy with the patch: %s" % (c, v[:200]) for c, v in res.items()]
    if meta.get("confirmed"):
        dst = os.path.join(VERIF, "seeded", name)
        os.makedirs(dst, exist_ok=True)
        for f in os.listdir(src):
            if os.path.isfile(os.path.join(src, f)) and os.path.getsize(os.path.join(src, f)) < 200000:
                shutil.copy(os.path.join(src, f), os.path.join(dst, f))
        notes = os.path.join(src, "notes.md")
        meta["needs_to_manifest"] = open(notes).read()[:1500] if os.path.exists(notes) else ""
        json.dump(meta, open(os.path.join(dst, "meta.json"), "w"), indent=1)
        print("stored in", dst)
    return 0


if __name__ == "__main__":
    sys.exit(main())
