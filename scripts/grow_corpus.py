#!/usr/bin/env python3
"""Grows and minimises the committed seed corpus of a property's libFuzzer target(s).
usage: grow_corpus.py CXX [--runs N] [--workers W] [--target NAME]
Runs W campaigns of N executions (worker 0 from an empty corpus, the others from the committed one), then `-merge=1`s everything
into a fresh directory that replaces fuzz/corpus/<name>: one input per coverage feature.  A crash artefact aborts (run ./check)."""
import argparse
import importlib.machinery
import importlib.util
import os
import shutil
import subprocess
import sys
import tempfile
from concurrent.futures import ThreadPoolExecutor

VERIF = os.path.dirname(os.path.dirname(os.path.abspath(__file__)))
loader = importlib.machinery.SourceFileLoader("vcheck", os.path.join(VERIF, "check"))
spec = importlib.util.spec_from_loader("vcheck", loader)
vc = importlib.util.module_from_spec(spec)
loader.exec_module(vc)


def main():
    ap = argparse.ArgumentParser()
    ap.add_argument("prop")
    ap.add_argument("--runs", type=int, default=100000)
    ap.add_argument("--workers", type=int, default=16)
    ap.add_argument("--target")
    a = ap.parse_args()
    plan = vc.plans.PLANS[a.prop]
    for fz in vc.fuzz_targets(plan):
        name = vc.fuzz_name(plan, fz)
        if a.target and a.target != name:
            continue
        exe = vc.build_fuzz_target(plan, fz)
        seeds = os.path.join(VERIF, fz["corpus"])
        os.makedirs(seeds, exist_ok=True)
        tmp = tempfile.mkdtemp(prefix="grow-", dir=os.path.join(vc.BUILD, "tmp") if os.path.isdir(os.path.join(vc.BUILD, "tmp")) else None)
        env = vc.fuzz_env(os.path.join(tmp, "stats.json"), os.path.join(tmp, "report.txt"), fz)

        def one(i):
            wd = os.path.join(tmp, "w%02d" % i)
            os.makedirs(os.path.join(wd, "c"))
            os.makedirs(os.path.join(wd, "art"))
            if i != 0:
                for f in os.listdir(seeds):
                    shutil.copy(os.path.join(seeds, f), os.path.join(wd, "c", f))
            cmd = [exe, "-runs=%d" % a.runs, "-seed=%d" % (4242 + i), "-max_len=%d" % fz.get("max_len", 16384), "-timeout=120", "-rss_limit_mb=6000",
                   "-artifact_prefix=" + os.path.join(wd, "art") + "/", os.path.join(wd, "c")] + list(fz.get("flags", ()))
            r = subprocess.run(cmd, stdout=subprocess.PIPE, stderr=subprocess.STDOUT, text=True, errors="replace", env=env)
            arts = [f for f in os.listdir(os.path.join(wd, "art")) if f.startswith(("crash-", "leak-"))]
            return wd, arts, r.stdout[-2000:]

        with ThreadPoolExecutor(max_workers=a.workers) as ex:
            outs = list(ex.map(one, range(a.workers)))
        for wd, arts, log in outs:
            if arts:
                print("crash artefact in %s:\n%s" % (wd, log))
                sys.exit(1)
        merged = os.path.join(tmp, "merged")
        os.makedirs(merged)
        cmd = [exe, "-merge=1", "-max_len=%d" % fz.get("max_len", 16384), merged, seeds] + [os.path.join(wd, "c") for wd, _, _ in outs]
        r = subprocess.run(cmd, stdout=subprocess.PIPE, stderr=subprocess.STDOUT, text=True, errors="replace", env=env)
        if r.returncode != 0:
            print(r.stdout[-3000:])
            sys.exit(1)
        n = len(os.listdir(merged))
        shutil.rmtree(seeds)
        shutil.copytree(merged, seeds)
        shutil.rmtree(tmp, ignore_errors=True)
        print("%s: corpus %s now holds %d inputs" % (a.prop, fz["corpus"], n))


if __name__ == "__main__":
    main()
