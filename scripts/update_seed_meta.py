#!/usr/bin/env python3
"""Re-runs the named seeded changes (seeded/<id>) against the current quick tier of their property and records the result in
meta.json: the result of the first version of the check is kept under first_version_result, `strengthened` is set when a change
that survived first is killed now.  usage: update_seed_meta.py ID [ID ...]"""
import json
import os
import sys

sys.path.insert(0, os.path.join(os.path.dirname(os.path.abspath(__file__)), "..", "mutants"))
import run_mutants as rm

for sid in sys.argv[1:]:
    d = os.path.join(rm.VERIF, "seeded", sid)
    mp = os.path.join(d, "meta.json")
    m = json.load(open(mp))
    prop = m["property"]
    res = rm.run_one("seeded-" + sid, os.path.join(d, "patch.diff"), [prop], "quick")
    old = m.get("checks_quick", {})
    if any(str(v).startswith("SURVIVED") for v in old.values()) and "first_version_result" not in m:
        m["first_version_result"] = old
    m["checks_quick"] = res
    m["caught_by"] = [p for p, v in res.items() if v.startswith("KILLED")]
    if "first_version_result" in m and m["caught_by"]:
        m["strengthened"] = True
    json.dump(m, open(mp, "w"), indent=1)
    print(sid, res, flush=True)
