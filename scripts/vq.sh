#!/bin/bash
# usage: vq.sh LOG PREFIX "C11 1" "C11 2" ...  : verifies /tmp/<PREFIX>-Cxx/seeded/N sequentially (waits while another verification runs)
LOG=$1; PFX=$2; shift; shift
while pgrep -f "scripts/verify_seeded.py" >/dev/null; do sleep 15; done
for x in "$@"; do set -- $x; echo "=== $1 seed $2" >> $LOG; python3 /verif/scripts/verify_seeded.py /tmp/$PFX-$1/seeded/$2 $1-${PFX}s$2 $1 2>&1 | tail -12 >> $LOG; done
