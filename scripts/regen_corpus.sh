#!/bin/sh
# Regenerates fuzz/corpus/api_program after a change of the chooser draw sequence in engine/pipeline.hpp.
set -e
cd "$(dirname "$0")/.."
python3 engine/buildlib.py rel >/dev/null 2>&1 || true
L=build/lib-rel
clang++ -std=gnu++17 -O1 -g -DNDEBUG -DSPQLIOS_VERIF -Iengine -I"${VERIF_REPO:-/repo}" fuzz/mkcorpus.cpp $L/libspqlios.a -lgmp -lm -lpthread -o build/tmp/mkcorpus
rm -rf fuzz/corpus/api_program && mkdir -p fuzz/corpus/api_program
build/tmp/mkcorpus fuzz/corpus/api_program ${1:-48}
ls fuzz/corpus/api_program | wc -l
