#!/bin/bash
# Rebuilds /repo/_build with cmake WITHOUT the SPQLIOS_VERIF guard and runs the repository's 239-test suite
# (the command of /root/.vp/BASELINE.json).  Exit 0 iff ctest passes.
set -e -o pipefail
R=${VERIF_REPO:-/repo}
B=$R/_build
cmake -S "$R" -B "$B" -G Ninja -DCMAKE_BUILD_TYPE=RelWithDebInfo -DCMAKE_C_FLAGS=-Wno-error -DCMAKE_CXX_FLAGS=-Wno-error > /dev/null
cmake --build "$B" -j16 2>&1 | tail -3
ctest --test-dir "$B" -j8 --timeout 900 2>&1 | tail -5
