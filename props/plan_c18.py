from planlib import geo, WRAP_FLAGS, WRAP_SRCS, desc_fuzz

CALLS = ["vec_znx_normalize_base2k", "vec_znx_dft", "vec_znx_idft", "vec_znx_idft_tmp_a(source of dft)", "svp_prepare", "svp_apply_dft",
         "vmp_prepare_contiguous", "vmp_apply_dft", "vmp_apply_dft_to_dft", "znx_small_single_product", "vec_znx_big_normalize/range"]
TABLES = ["reim_fft", "reim_ifft", "cplx_fft", "cplx_ifft", "reim_to_znx64", "reim_from_znx64", "q120_ntt_bb_avx2", "q120_intt_bb_avx2",
          "q120_vec_mat1col_product_bbb", "q120_vec_mat1col_product_bbc"]


def _jobs(tier):
    mult = 1 if tier == "quick" else 200
    jobs = []
    for k in range(1, 15):
        jobs.append(dict(sub="vec", count=geo(k, 3000, 7, 30) * mult, fix=dict(k=k)))
        jobs.append(dict(sub="module", count=geo(k, 2500, 7, 30) * mult, fix=dict(k=k)))
        jobs.append(dict(sub="module", count=geo(k, 600, 6, 8) * mult, fix=dict(k=k), flavour="asan"))
    # homogeneous streaks: several hundred consecutive calls of ONE entry point on small data in one process (what an application
    # does all day) -- usage counters and "self-tuning" state only move when nothing else intervenes
    for call in range(0, 11):
        jobs.append(dict(sub="module", count=450 * mult, fix=dict(call=call, k=(4, 7), mtype=0, cfg=0, bits=(1, 10))))
    # long transforms (>= 2^15 coefficients in one dft / idft call: any size-dependent strategy of the transforms)
    jobs.append(dict(sub="module", count=160 * mult, fix=dict(call=(1, 3), k=(13, 14), s1=(2, 5), s2=(2, 5)), split=2))
    jobs.append(dict(sub="tables", count=4000 * mult, fix=dict(logm=(0, 7)), split=2))
    jobs.append(dict(sub="tables", count=400 * mult, fix=dict(logm=(8, 12))))
    jobs.append(dict(sub="tables", count=60 * mult, fix=dict(logm=(13, 16), fn=(0, 3), nbuf=(1, 2)), split=2))
    jobs.append(dict(sub="tables", count=40 * mult, fix=dict(logm=(13, 16))))
    return jobs


PLAN_ID = "C18"
PLAN = dict(
    src="props/c18.cpp", flavour="rel", extra_srcs=WRAP_SRCS, extra_link=WRAP_FLAGS,
    rule="cases = public entry points and table-based kernels (element-wise vec/big API with the output aliased to one operand, normalize + "
         "big/range normalize, dft, idft, svp prepare/apply, vmp prepare/apply/apply_dft_to_dft, small product, reim/cplx fft tables, "
         "conversions, q120 ntt tables and products ref+avx2) x shapes of C02/C05/C08 x both module types x both cfgs; oracle = byte snapshot "
         "of every source operand incl. stride padding, of prepared SVP_PPOL / VMP_PMAT / DFT inputs, of q120 operands, and of every heap "
         "block allocated while the MODULE / PRECOMP was constructed (allocation tracker), identical before/after; exemptions: "
         "vec_znx_idft_tmp_a's a_dft and an operand that is the output buffer. Non-trivial: >=2 source operands or a prepared/table operand.",
    assumptions=["heap blocks of an object = blocks allocated (malloc/aligned_alloc/...) during its constructor call"],
    quick=_jobs("quick"), thorough=_jobs("thorough"),
    fuzz=desc_fuzz("C18", fix=dict(k=(1, 10), logm=(0, 10))),
    required_classes=dict(all=["call:" + c for c in CALLS] + ["table:" + t for t in TABLES] +
                          ["module:NTT120", "cfg:generic", "aliased_output_other_source_checked", "sources:2", "placement:packed-up", "placement:packed-down",
                           "table:built-in-buffers", "table:built-in-buffers,m>=16384"]),
)
