from planlib import geo, desc_fuzz


def _jobs(tier):
    mult = 1 if tier == "quick" else 20
    jobs = []
    # m = 2^k: every k in 0..12 with a full budget, a few cases up to k=16
    for k in range(0, 17):
        base = 1 if k <= 12 else 0
        jobs.append(dict(sub="from_znx64", count=(geo(k, 36000, 6, 120) if base else 40) * mult, fix=dict(k=k)))
        jobs.append(dict(sub="to_znx64", count=(geo(k, 90000, 6, 180) if base else 60) * mult, fix=dict(k=k)))
        jobs.append(dict(sub="cplx_from32", count=(geo(k, 36000, 6, 120) if base else 40) * mult, fix=dict(k=k)))
        jobs.append(dict(sub="cplx_to_tnx32", count=(geo(k, 72000, 6, 180) if base else 60) * mult, fix=dict(k=k)))
    # reim_to_tnx: every log2overhead 0..48 is its own stratum (all m inside), plus a per-k sweep
    for ovh in range(0, 49):
        jobs.append(dict(sub="reim_to_tnx", count=12000 * mult, fix=dict(ovh=ovh, k=(0, 8))))
        jobs.append(dict(sub="reim_to_tnx", count=450 * mult, fix=dict(ovh=ovh, k=(9, 12))))
    for k in range(13, 17):
        jobs.append(dict(sub="reim_to_tnx", count=50 * mult, fix=dict(k=k)))
    # regression probe for D7 (wide variant at x/d = +-pred(1/2)); the general sub generates the value as well
    jobs.append(dict(sub="to_znx64_wide_predhalf", count=300 * mult))
    # sequences of reim_to_znx64_simple calls (two dimensions, two divisors, both bound classes) on a fresh thread
    jobs.append(dict(sub="to_znx64_simple_seq", count=6000 * mult, fix=dict(kA=(0, 7), kB=(0, 7))))
    jobs.append(dict(sub="to_znx64_simple_seq", count=600 * mult, fix=dict(kA=(3, 12), kB=(3, 12))))
    return jobs


_FN = ["from_znx64", "to_znx64", "cplx_from_znx32", "cplx_from_tnx32", "cplx_to_tnx32", "reim_to_tnx"]

PLAN_ID = "C14"
PLAN = dict(
    src="props/c14.cpp", flavour="rel",
    rule="case = one vector of 2m values through one entry point: reim_from_znx64, reim_to_znx64, cplx_from_znx32, cplx_from_tnx32, "
         "cplx_to_tnx32, reim_to_tnx; each through the precomp API (created under the full and the generic CPU configuration), the "
         "*_simple API where it exists, and the _ref / _avx kernels directly (avx only at m>=8 where the dispatcher selects them); "
         "m=2^k for every k in 0..12 (+13..16), divisor 2^j (j in -4..40 and j=log2 m), log2bound in {50,49,..} / {50,63,52,51,64,..}, "
         "log2overhead every value 0..48 (reim_to_tnx) / 0..52 (cplx_to_tnx32). Values are built per element from families: at and "
         "just inside the bound (2^b-1, nextafter(2^b,0), 2^b-1/2, +-2^ovh exactly), exact ties (k+1/2), ties +- 1 ulp / 2^-21 / 2^-30.., "
         "specials (+-0, pred/succ(1/2), 2^-60..), random per binade, integers, upper three quarters of the domain, INT32_MIN/MAX. "
         "Oracle: exact (power-of-two rescaling, floor and fractional part in double; torus distance through an error-free long "
         "double TwoSum compared with k+-2^(ovh-50)); ties accept either neighbour. Non-trivial: the vector contains |x/d| >= 1/4 of "
         "the statement's bound (2^48 / 2^50 / 2^29 for int32 / 2^16 / 2^(ovh-2)) or a value within 2^-20 of a half-integer of the "
         "rounding grid. Distinct = distinct descriptor hash.",
    assumptions=["divisor is a power of two 2^j, j in -4..40; inputs finite, |x/d| inside the stated bound and inside the documented "
                 "2^log2bound / divisor*2^log2overhead precondition of the object that is called",
                 "avx kernels are called directly only for m>=8 (the only sizes at which the library dispatches to them)",
                 "declared but unimplemented conversions (reim_from_znx32, reim_from_tnx32, reim_to_tnx32, reim_to_tnx_simple, "
                 "cplx_to_znx32) are outside the domain",
                 "x87 long double (64-bit significand) for the error-free TwoSum; round-to-nearest mode"],
    quick=_jobs("quick"), thorough=_jobs("thorough"),
    fuzz=desc_fuzz("C14", fix=dict(k=(0, 10))),
    required_classes=dict(all=["fn:" + f for f in _FN]
                          + [f + ":m<8" for f in _FN]
                          + ["cfg:full", "cfg:generic", "divisor==m", "divisor<1", "int32:min/max", "to_znx64:probe:pred(1/2)", "to_znx64:tie->towards-zero", "to_znx64:tie->away-from-zero", "to_znx64:simple sequence changes dimension and bound class together"]
                          + ["from_znx64:" + v for v in ("api", "simple", "ref", "bnd50_fma", "sel:ref", "sel:bnd50_fma")]
                          + ["to_znx64:" + v for v in ("api", "simple", "ref", "avx2_bnd50_fma", "avx2_bnd63_fma", "sel:ref",
                                                       "sel:bnd50", "sel:bnd63", "log2bound<=50", "log2bound>50")]
                          + [f + ":" + v for f in ("cplx_from_znx32", "cplx_from_tnx32", "cplx_to_tnx32")
                             for v in ("api", "simple", "ref", "avx2_fma", "sel:ref", "sel:avx2_fma")]
                          + ["cplx_to_tnx32:ovh<=18", "cplx_to_tnx32:ovh>18"]
                          + ["reim_to_tnx:" + v for v in ("api", "ref", "avx", "basic_ref", "sel:ref", "sel:avx", "|x/d|==2^ovh")]
                          + ["ovh:%d" % o for o in range(0, 49)]
                          + ["k:%d" % k for k in range(0, 17)]
                          + ["fam:" + f for f in ("edge", "tie", "neartie", "special", "binade", "int", "upperquarter", "mixed")]),
)
