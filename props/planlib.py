def geo(k, base, kmin=6, floor=6):
    """case count for stratum log2 N = k: `base` up to 2^kmin, halving per extra bit, never below floor"""
    return max(floor, base >> max(0, k - kmin))
