def geo(k, base, kmin=6, floor=6):
    """case count for stratum log2 N = k: `base` up to 2^kmin, halving per extra bit, never below floor"""
    return max(floor, base >> max(0, k - kmin))

# link flags + extra source for the allocation tracker (engine/alloc_track.cpp)
WRAP_FLAGS = ["-Wl,--wrap=malloc,--wrap=calloc,--wrap=realloc,--wrap=aligned_alloc,--wrap=posix_memalign,--wrap=free"]
WRAP_SRCS = ["engine/alloc_track.cpp"]


def desc_fuzz(prop, fix=None, skip_subs=(), runs=150000, workers=16, flags=()):
    """libFuzzer campaign over the property's own descriptors (fuzz/descriptor.cpp linked with props/cXX.cpp): quick replays the
    committed coverage-minimised corpus, thorough runs `workers` campaigns of `runs` executions (worker 0 from an empty corpus)"""
    return dict(target="fuzz/descriptor.cpp", with_prop=True, corpus="fuzz/corpus/desc_%s" % prop.lower(), fix=dict(fix or {}),
                skip_subs=list(skip_subs), max_len=512, flags=list(flags),
                quick=dict(mode="replay"), thorough=dict(mode="campaign", workers=workers, runs=runs))
