def geo(k, base, kmin=6, floor=6):
    """case count for stratum log2 N = k: `base` up to 2^kmin, halving per extra bit, never below floor"""
    return max(floor, base >> max(0, k - kmin))

# link flags + extra source for the allocation tracker (engine/alloc_track.cpp)
WRAP_FLAGS = ["-Wl,--wrap=malloc,--wrap=calloc,--wrap=realloc,--wrap=aligned_alloc,--wrap=posix_memalign,--wrap=free"]
WRAP_SRCS = ["engine/alloc_track.cpp"]
