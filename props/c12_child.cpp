// C12 child: executes ONE generated thread program in a fresh process (static caches empty) under ThreadSanitizer.
// argv: k T calls mode seed      (mode 0 = fresh: no library call before the threads start; 1 = warm: one sequential call per
// dimension of every *_simple function first, then those functions join the pool — their documented protocol)
// exit 0 = no race report and concurrent == sequential; 66 = TSan report (halt_on_error); 3 = output mismatch / table modified.
#include <pthread.h>
#include <xmmintrin.h>

#include <atomic>
#include <unistd.h>

#include <cmath>
#include <cstdio>
#include <cstdlib>
#include <cstring>
#include <map>
#include <string>
#include <vector>

#include "harness.hpp"
#include "spq.hpp"

using vh::Rng;

enum Kind {
  K_ADD = 0, K_ROTATE, K_AUTOMORPHISM, K_NORMALIZE, K_DFT, K_DFT_IDFT, K_SVP_APPLY, K_VMP_APPLY, K_SMALL, K_BIG_NORMALIZE, K_NTT120_DFT_IDFT,
  K_REIM_FFT, K_REIM_IFFT, K_REIM_MUL, K_REIM_ADDMUL, K_FROM64, K_TO64, K_CPLX_FFT, K_Q120_NTT, K_Q120_BBB, K_REIM4_FROM_CPLX,
  K_MODULE_CHURN, K_NTT120_MODULE_CHURN, K_PRECOMP_CHURN,
  NTABLE,
  K_S_REIM_FFT = NTABLE, K_S_REIM_MUL, K_S_TO64, K_S_CPLX_FFT, K_S_R4_MUL, K_S_FROM_ZNX32, K_S_REIM_IFFT, K_S_CPLX_MUL, K_S_TO_TNX32, K_S_FROM64,
  NKIND
};
static const char* KN[NKIND] = {"vec_znx_add", "vec_znx_rotate", "vec_znx_automorphism", "vec_znx_normalize_base2k", "vec_znx_dft", "vec_znx_dft+idft", "svp_apply_dft",
                                "vmp_apply_dft", "znx_small_single_product", "vec_znx_big_normalize_base2k", "ntt120:vec_znx_dft+idft", "reim_fft", "reim_ifft",
                                "reim_fftvec_mul", "reim_fftvec_addmul", "reim_from_znx64", "reim_to_znx64", "cplx_fft", "q120_ntt_bb_avx2", "q120_vec_mat1col_products(baa,bbb,bbc)",
                                "reim4_from_cplx", "new/use/delete:private_FFT64_module", "new/use/delete:private_NTT120_module", "new/use/free:private_fft_precomp", "reim_fft_simple", "reim_fftvec_mul_simple", "reim_to_znx64_simple", "cplx_fft_simple", "reim4_fftvec_mul_simple",
                                "cplx_from_znx32_simple", "reim_ifft_simple", "cplx_fftvec_mul_simple", "cplx_to_tnx32_simple", "reim_from_znx64_simple"};

struct Shared {
  uint64_t n, m;
  MODULE* fft64;
  MODULE* ntt120;
  SVP_PPOL* ppol;
  VMP_PMAT* pmat;
  uint64_t nrows = 2, ncols = 3;
  REIM_FFT_PRECOMP* rfft;
  REIM_IFFT_PRECOMP* rifft;
  REIM_FFTVEC_MUL_PRECOMP* rmul;
  REIM_FFTVEC_ADDMUL_PRECOMP* raddmul;
  REIM_FROM_ZNX64_PRECOMP* from64;
  REIM_TO_ZNX64_PRECOMP* to64;
  CPLX_FFT_PRECOMP* cfft;
  q120_ntt_precomp* qntt;
  q120_mat1col_product_bbb_precomp* qbbb;
  q120_mat1col_product_baa_precomp* qbaa;
  double* shared_dft;  // one DFT vector of 2*T limbs: thread t owns limbs 2t, 2t+1
  q120_mat1col_product_bbc_precomp* qbbc;
  REIM4_FROM_CPLX_PRECOMP* r4fc;
};
static Shared S;

struct Call {
  int kind;
  uint64_t dseed;
  std::vector<uint8_t> out;
};

// every buffer handed to the library sits at a varying offset 0, 8, .. 56 from a 64-byte boundary: callers only owe the library 8-byte
// alignment, and code paths selected by the alignment of a scratch or data pointer must be as thread-safe as the others
static thread_local std::map<void*, void*> g_bases;
static thread_local unsigned g_allocs = 0;
static void* xalloc(size_t n) {
  const size_t off = 8 * ((g_allocs++ * 5 + 3) % 8);
  char* b = (char*)aligned_alloc(64, (n + 63) / 64 * 64 + 128);
  g_bases[b + off] = b;
  return b + off;
}
static void xfree(void* p) {
  auto it = g_bases.find(p);
  if (it == g_bases.end()) { std::free(p); return; }
  void* b = it->second;
  g_bases.erase(it);
  std::free(b);
}
#define free(p) xfree(p)

static thread_local int g_tid = 0;
static std::vector<uint8_t> run_call(int kind, uint64_t dseed) {
  Rng r(dseed);
  const uint64_t n = S.n, m = S.m;
  std::vector<uint8_t> out;
  auto grab = [&](const void* p, size_t len) { out.insert(out.end(), (const uint8_t*)p, (const uint8_t*)p + len); };
  auto ints = [&](size_t cnt, unsigned bits) { int64_t* p = (int64_t*)xalloc(cnt * 8); for (size_t i = 0; i < cnt; ++i) p[i] = r.sbits(bits); return p; };
  auto dbls = [&](size_t cnt) { double* p = (double*)xalloc(cnt * 8); for (size_t i = 0; i < cnt; ++i) p[i] = std::ldexp(r.sunit(), (int)r.below(16)); return p; };
  const unsigned sb = (unsigned)((40 - (int)log2((double)n)) / 2);
  switch (kind) {
    case K_ADD: { int64_t *a = ints(2 * n, 60), *b = ints(3 * n, 60), *res = (int64_t*)xalloc(3 * n * 8); vec_znx_add(S.fft64, res, 3, n, a, 2, n, b, 3, n); grab(res, 3 * n * 8); free(a); free(b); free(res); break; }
    case K_ROTATE: {
      int64_t *a = ints(2 * n, 60), *res = (int64_t*)xalloc(2 * n * 8);
      const int64_t p = (int64_t)(r.next() >> 3);
      if (r.next() & 1) { memcpy(res, a, 2 * n * 8); vec_znx_rotate(S.fft64, p, res, 2, n, res, 2, n); }  // in place (the library's own private-scratch path)
      else vec_znx_rotate(S.fft64, p, res, 2, n, a, 2, n);
      grab(res, 2 * n * 8); free(a); free(res); break; }
    case K_AUTOMORPHISM: { int64_t* a = ints(2 * n, 60); vec_znx_automorphism(S.fft64, (int64_t)(r.next() >> 3) | 1, a, 2, n, a, 2, n); grab(a, 2 * n * 8); free(a); break; }
    case K_NORMALIZE: case K_BIG_NORMALIZE: {
      int64_t *a = ints(3 * n, 62), *res = (int64_t*)xalloc(3 * n * 8);
      uint8_t* t = (uint8_t*)xalloc(vec_znx_normalize_base2k_tmp_bytes(S.fft64));
      if (kind == K_NORMALIZE) vec_znx_normalize_base2k(S.fft64, 1 + r.below(60), res, 3, n, a, 3, n, t);
      else vec_znx_big_normalize_base2k(S.fft64, 1 + r.below(60), res, 2, n, (VEC_ZNX_BIG*)a, 3, t);
      grab(res, (kind == K_NORMALIZE ? 3 : 2) * n * 8); free(a); free(res); free(t); break;
    }
    case K_DFT: { int64_t* a = ints(2 * n, 40); double* d = (double*)xalloc(2 * n * 8); vec_znx_dft(S.fft64, (VEC_ZNX_DFT*)d, 2, a, 2, n); grab(d, 2 * n * 8); free(a); free(d); break; }
    case K_DFT_IDFT: {
      int64_t* a = ints(2 * n, sb); double* d = (double*)xalloc(2 * n * 8); int64_t* g = (int64_t*)xalloc(2 * n * 8);
      vec_znx_dft(S.fft64, (VEC_ZNX_DFT*)d, 2, a, 2, n);
      vec_znx_idft(S.fft64, (VEC_ZNX_BIG*)g, 2, (VEC_ZNX_DFT*)d, 2, nullptr);
      grab(g, 2 * n * 8); free(a); free(d); free(g); break;
    }
    case K_SVP_APPLY: {
      int64_t* a = ints(2 * n, sb);
      if ((dseed >> 5) & 1) {
        // column-wise parallelisation of one product: this thread's two output limbs are a slice of ONE shared DFT vector, directly
        // adjacent to the slices the other threads write -- disjoint data, no gap
        double* d = S.shared_dft + (size_t)g_tid * 2 * n;
        svp_apply_dft(S.fft64, (VEC_ZNX_DFT*)d, 2, S.ppol, a, 2, n);
        grab(d, 2 * n * 8);
      } else {
        double* d = (double*)xalloc(2 * n * 8);
        svp_apply_dft(S.fft64, (VEC_ZNX_DFT*)d, 2, S.ppol, a, 2, n);
        grab(d, 2 * n * 8); free(d);
      }
      free(a); break;
    }
    case K_VMP_APPLY: {
      int64_t* a = ints(2 * n, sb); double* d = (double*)xalloc(3 * n * 8);
      uint8_t* t = (uint8_t*)xalloc(vmp_apply_dft_tmp_bytes(S.fft64, 3, 2, S.nrows, S.ncols));
      vmp_apply_dft(S.fft64, (VEC_ZNX_DFT*)d, 3, a, 2, n, S.pmat, S.nrows, S.ncols, t);
      grab(d, 3 * n * 8); free(a); free(d); free(t); break;
    }
    case K_SMALL: {
      int64_t *a = ints(n, sb), *b = ints(n, sb), *res = (int64_t*)xalloc(n * 8);
      uint8_t* t = (uint8_t*)xalloc(znx_small_single_product_tmp_bytes(S.fft64));
      znx_small_single_product(S.fft64, res, a, b, t);
      grab(res, n * 8); free(a); free(b); free(res); free(t); break;
    }
    case K_NTT120_DFT_IDFT: {
      int64_t* a = ints(2 * n, 63); uint8_t* d = (uint8_t*)xalloc(2 * n * 32); uint8_t* g = (uint8_t*)xalloc(2 * n * 16);
      uint8_t* t = (uint8_t*)xalloc(vec_znx_idft_tmp_bytes(S.ntt120));
      vec_znx_dft(S.ntt120, (VEC_ZNX_DFT*)d, 2, a, 2, n);
      vec_znx_idft(S.ntt120, (VEC_ZNX_BIG*)g, 2, (VEC_ZNX_DFT*)d, 2, t);
      grab(g, 2 * n * 16); free(a); free(d); free(g); free(t); break;
    }
    case K_REIM_FFT: case K_REIM_IFFT: case K_CPLX_FFT: {
      double* x = dbls(2 * m);
      if (kind == K_REIM_FFT) reim_fft(S.rfft, x); else if (kind == K_REIM_IFFT) reim_ifft(S.rifft, x); else cplx_fft(S.cfft, x);
      grab(x, 2 * m * 8); free(x); break;
    }
    case K_S_REIM_FFT: case K_S_CPLX_FFT: case K_S_REIM_IFFT: {
      // the cached front ends with TWO dimensions in flight at once (m and 2m, both warmed up beforehand in the warm mode: "one dry-run
      // call per desired dimension"): a cache slot shared between dimensions is then used concurrently
      const uint64_t mm = ((dseed >> 9) & 1) && m < 32768 ? 2 * m : m;
      double* x = dbls(2 * mm);
      if (kind == K_S_REIM_FFT) reim_fft_simple(mm, x); else if (kind == K_S_REIM_IFFT) reim_ifft_simple(mm, x); else cplx_fft_simple(mm, x);
      grab(x, 2 * mm * 8); free(x); break;
    }
    case K_REIM_MUL: case K_REIM_ADDMUL: case K_S_REIM_MUL: case K_S_R4_MUL: case K_S_CPLX_MUL: {
      const uint64_t mq = (kind == K_S_R4_MUL && m < 4) ? 4 : m;  // reim4 layout needs m >= 4
      double *a = dbls(2 * mq), *b = dbls(2 * mq), *res = dbls(2 * mq);
      if (kind == K_REIM_MUL) reim_fftvec_mul(S.rmul, res, a, b); else if (kind == K_REIM_ADDMUL) reim_fftvec_addmul(S.raddmul, res, a, b);
      else if (kind == K_S_REIM_MUL) reim_fftvec_mul_simple(m, res, a, b); else if (kind == K_S_R4_MUL) reim4_fftvec_mul_simple(mq, res, a, b);
      else cplx_fftvec_mul_simple(m, res, a, b);
      grab(res, 2 * mq * 8); free(a); free(b); free(res); break;
    }
    case K_FROM64: { int64_t* x = ints(2 * m, 50); double* o = (double*)xalloc(2 * m * 8); reim_from_znx64(S.from64, o, x); grab(o, 2 * m * 8); free(x); free(o); break; }
    case K_TO64: case K_S_TO64: {
      double* x = dbls(2 * m); int64_t* o = (int64_t*)xalloc(2 * m * 8);
      // the *_simple cache is keyed on (m, divisor, log2bound): threads use DIFFERENT parameters on the same dimension
      const double dv = std::ldexp(1.0, (int)(dseed % 5));
      const uint32_t lb = (dseed >> 8) & 1 ? 50 : 63;
      if (kind == K_TO64) reim_to_znx64(S.to64, o, x); else reim_to_znx64_simple(m, dv, lb, o, x);
      grab(o, 2 * m * 8); free(x); free(o); break;
    }
    case K_Q120_NTT: { uint64_t* x = (uint64_t*)xalloc(n * 32); for (size_t i = 0; i < 4 * n; ++i) x[i] = r.next(); q120_ntt_bb_avx2(S.qntt, (q120b*)x); grab(x, n * 32); free(x); break; }
    case K_Q120_BBB: {
      // the three q120 inner products (a x a, b x b, b x c; reference and AVX2 kernels) on SHARED precomputed objects, with vector
      // lengths of very different size classes in flight at the same time
      static const uint64_t ells[8] = {1, 2, 5, 16, 100, 300, 1000, 4000};
      const uint64_t ell = ells[(dseed >> 3) & 7];
      const int which = (int)((dseed >> 6) % 6);  // 0/1 baa ref/avx2, 2/3 bbb, 4/5 bbc
      uint64_t *x = (uint64_t*)xalloc(ell * 32), *y = (uint64_t*)xalloc(ell * 32), *o = (uint64_t*)xalloc(32);
      for (size_t i = 0; i < 4 * ell; ++i) { x[i] = r.next(); y[i] = r.next(); }
      if (which < 2) for (size_t i = 0; i < 4 * ell; ++i) { x[i] &= 0xFFFFFFFFull; y[i] &= 0xFFFFFFFFull; }
      switch (which) {
        case 0: q120_vec_mat1col_product_baa_ref(S.qbaa, ell, (q120b*)o, (q120a*)x, (q120a*)y); break;
        case 1: q120_vec_mat1col_product_baa_avx2(S.qbaa, ell, (q120b*)o, (q120a*)x, (q120a*)y); break;
        case 2: q120_vec_mat1col_product_bbb_ref(S.qbbb, ell, (q120b*)o, (q120b*)x, (q120b*)y); break;
        case 3: q120_vec_mat1col_product_bbb_avx2(S.qbbb, ell, (q120b*)o, (q120b*)x, (q120b*)y); break;
        case 4: q120_vec_mat1col_product_bbc_ref(S.qbbc, ell, (q120b*)o, (q120b*)x, (q120c*)y); break;
        default: q120_vec_mat1col_product_bbc_avx2(S.qbbc, ell, (q120b*)o, (q120b*)x, (q120c*)y);
      }
      grab(o, 32); free(x); free(y); free(o); break;
    }
    case K_REIM4_FROM_CPLX: { uint64_t mm = m < 4 ? 4 : m; double* x = dbls(2 * mm); double* o = (double*)xalloc(2 * mm * 8); reim4_from_cplx(S.r4fc, o, x); grab(o, 2 * mm * 8); free(x); free(o); break; }
    // object churn: a thread creates, uses and deletes its OWN module / table of the same dimension while other threads use the shared
    // ones -- constructors and destructors are API functions too, and must not touch state that other objects depend on
    case K_MODULE_CHURN: {
      MODULE* pm = new_module_info(n, FFT64);
      int64_t *a = ints(n, sb), *b = ints(n, sb), *res = (int64_t*)xalloc(n * 8);
      uint8_t* t = (uint8_t*)xalloc(znx_small_single_product_tmp_bytes(pm));
      znx_small_single_product(pm, res, a, b, t);
      delete_module_info(pm);
      grab(res, n * 8); free(a); free(b); free(res); free(t); break;
    }
    case K_NTT120_MODULE_CHURN: {
      MODULE* pm = new_module_info(n, NTT120);
      int64_t* a = ints(n, 63); uint8_t* d = (uint8_t*)xalloc(n * 32); uint8_t* g = (uint8_t*)xalloc(n * 16);
      vec_znx_dft(pm, (VEC_ZNX_DFT*)d, 1, a, 1, n);
      vec_znx_idft_tmp_a(pm, (VEC_ZNX_BIG*)g, 1, (VEC_ZNX_DFT*)d, 1);
      delete_module_info(pm);
      grab(g, n * 16); free(a); free(d); free(g); break;
    }
    case K_PRECOMP_CHURN: {
      REIM_FFT_PRECOMP* t = new_reim_fft_precomp(m, 0);
      double* x = dbls(2 * m);
      reim_fft(t, x);
      free(t);
      grab(x, 2 * m * 8); free(x); break;
    }
    case K_S_TO_TNX32: {
      const double dv = std::ldexp(1.0, (int)(dseed % 7) - 2);
      const uint32_t ovh = (dseed >> 8) % 19;
      double* x = (double*)xalloc(2 * m * 8);
      for (size_t i = 0; i < 2 * m; ++i) x[i] = r.sunit() * dv * std::ldexp(1.0, (int)ovh) * 0.99;
      int32_t* o = (int32_t*)xalloc(2 * m * 4);
      cplx_to_tnx32_simple(m, dv, ovh, o, x);
      grab(o, 2 * m * 4); free(x); free(o); break;
    }
    case K_S_FROM64: { int64_t* x = ints(2 * m, 50); double* o = (double*)xalloc(2 * m * 8); reim_from_znx64_simple(m, (uint32_t)(dseed % 51), o, x); grab(o, 2 * m * 8); free(x); free(o); break; }
    case K_S_FROM_ZNX32: { int32_t* x = (int32_t*)xalloc(2 * m * 4); for (size_t i = 0; i < 2 * m; ++i) x[i] = (int32_t)r.next(); double* o = (double*)xalloc(2 * m * 8); cplx_from_znx32_simple(m, o, x); grab(o, 2 * m * 8); free(x); free(o); break; }
  }
  return out;
}

struct ThreadArg {
  std::vector<Call>* calls;
  pthread_barrier_t* bar;
  int tid;
};
static std::atomic<int> g_csr_changed{-1};  // index of the first call kind that left the thread's FP control state changed
static void* thread_main(void* p) {
  ThreadArg* a = (ThreadArg*)p;
  g_tid = a->tid;
  pthread_barrier_wait(a->bar);
  for (auto& c : *a->calls) {
    // per-thread hidden state: the floating-point control bits (rounding mode, FTZ, DAZ, exception masks) are inherited by threads
    // spawned later and change what every later floating-point call of this thread returns
    const unsigned csr0 = _mm_getcsr() & 0xFFC0u;
    c.out = run_call(c.kind, c.dseed);
    if ((_mm_getcsr() & 0xFFC0u) != csr0) {
      int exp = -1;
      g_csr_changed.compare_exchange_strong(exp, c.kind);
      _mm_setcsr((_mm_getcsr() & ~0xFFC0u) | csr0);
    }
  }
  return nullptr;
}

static uint64_t hash_obj(const void* p, size_t n) { return vh::fnv1a(p, n); }

int main(int argc, char** argv) {
  if (argc < 6) return 2;
  alarm(180);  // a thread program takes well under a second; a child still running after 3 minutes is hung (reported by the parent)
  const uint64_t k = strtoull(argv[1], 0, 10);
  const int T = atoi(argv[2]), ncalls = atoi(argv[3]), mode = atoi(argv[4]);
  const uint64_t seed = strtoull(argv[5], 0, 10);
  Rng r(seed);
  S.n = 1ull << k;
  S.m = S.n / 2 ? S.n / 2 : 1;
  // the thread program is generated BEFORE any library call so that "fresh" really means first use inside the threads
  std::vector<std::vector<Call>> prog(T);
  const int pool = mode ? NKIND : NTABLE;
  int hot = (int)r.below(pool);
  if (getenv("VERIF_C12_HOT")) hot = atoi(getenv("VERIF_C12_HOT")) % pool;  // debugging aid: force the kind every thread starts with
  const bool all_hot = argc > 6 && atoi(argv[6]) >= 0;  // descriptor field "hot": every thread starts with that entry point, two calls in three use it
  if (all_hot) hot = atoi(argv[6]) % pool;
  for (int t = 0; t < T; ++t)
    for (int c = 0; c < ncalls; ++c) {
      int kind = (c == 0 && (t < 2 || all_hot)) || r.below(3) < (all_hot ? 2u : 1u) ? hot : (int)r.below(pool);
      prog[t].push_back({kind, r.next(), {}});
    }
  // shared objects (creation is sequential and happens-before thread start: that is the documented usage)
  S.fft64 = new_module_info(S.n, FFT64);
  S.ntt120 = new_module_info(S.n, NTT120);
  {
    std::vector<int64_t> pol(S.n), mat(S.nrows * S.ncols * S.n);
    Rng d(seed ^ 0x5151);
    const unsigned sb = (unsigned)((40 - (int)k) / 2);
    for (auto& x : pol) x = d.sbits(sb);
    for (auto& x : mat) x = d.sbits(sb);
    S.ppol = new_svp_ppol(S.fft64);
    svp_prepare(S.fft64, S.ppol, pol.data());
    S.pmat = new_vmp_pmat(S.fft64, S.nrows, S.ncols);
    std::vector<uint8_t> tmp(vmp_prepare_contiguous_tmp_bytes(S.fft64, S.nrows, S.ncols) + 64);
    vmp_prepare_contiguous(S.fft64, S.pmat, mat.data(), S.nrows, S.ncols, tmp.data());
  }
  S.rfft = new_reim_fft_precomp(S.m, 0);
  S.rifft = new_reim_ifft_precomp(S.m, 0);
  S.rmul = new_reim_fftvec_mul_precomp(S.m);
  S.raddmul = new_reim_fftvec_addmul_precomp(S.m);
  S.from64 = new_reim_from_znx64_precomp(S.m, 50);
  S.to64 = new_reim_to_znx64_precomp(S.m, 2.0, 63);
  S.cfft = new_cplx_fft_precomp(S.m, 0);
  S.qntt = q120_new_ntt_bb_precomp(S.n);
  S.qbbb = q120_new_vec_mat1col_product_bbb_precomp();
  S.qbaa = q120_new_vec_mat1col_product_baa_precomp();
  S.shared_dft = (double*)aligned_alloc(64, ((size_t)T * 2 * S.n * 8 + 63) / 64 * 64 + 64);
  S.qbbc = q120_new_vec_mat1col_product_bbc_precomp();
  S.r4fc = new_reim4_from_cplx_precomp(S.m < 4 ? 4 : S.m);
  if (mode) {  // documented warm-up: one call per dimension of every *_simple function
    for (int kd = NTABLE; kd < NKIND; ++kd) { run_call(kd, 12345 + kd); run_call(kd, (12345 + kd) ^ 512); }  // both dimensions of the fft front ends
  }
  const uint64_t hp = hash_obj(S.ppol, bytes_of_svp_ppol(S.fft64)), hm = hash_obj(S.pmat, bytes_of_vmp_pmat(S.fft64, S.nrows, S.ncols));
  const uint64_t htab = hash_obj(S.rfft->powomegas, 2 * S.m * 8) ^ hash_obj(S.rifft->powomegas, 2 * S.m * 8);
  pthread_barrier_t bar;
  pthread_barrier_init(&bar, nullptr, T);
  std::vector<pthread_t> th(T);
  std::vector<ThreadArg> args(T);
  for (int t = 0; t < T; ++t) {
    args[t] = {&prog[t], &bar, t};
    pthread_create(&th[t], nullptr, thread_main, &args[t]);
  }
  for (int t = 0; t < T; ++t) pthread_join(th[t], nullptr);
  if (g_csr_changed.load() >= 0) {
    printf("MISMATCH call %s left the calling thread's floating-point control state (MXCSR rounding / FTZ / DAZ / mask bits) changed\n", KN[g_csr_changed.load()]);
    return 3;
  }
  // sequential re-execution: each call must return bit-for-bit what it returned under concurrency
  std::map<int, int> users;
  for (int t = 0; t < T; ++t) {
    std::map<int, bool> seen;
    g_tid = t;  // the sequential re-execution uses the same slice of the shared vector as thread t did
    for (auto& c : prog[t]) {
      std::vector<uint8_t> seq = run_call(c.kind, c.dseed);
      if (seq != c.out) {
        printf("MISMATCH thread %d call %s: concurrent result differs from the sequential result\n", t, KN[c.kind]);
        return 3;
      }
      if (!seen[c.kind]) { seen[c.kind] = true; users[c.kind]++; }
    }
  }
  if (hash_obj(S.ppol, bytes_of_svp_ppol(S.fft64)) != hp || hash_obj(S.pmat, bytes_of_vmp_pmat(S.fft64, S.nrows, S.ncols)) != hm ||
      (hash_obj(S.rfft->powomegas, 2 * S.m * 8) ^ hash_obj(S.rifft->powomegas, 2 * S.m * 8)) != htab) {
    printf("MISMATCH a shared prepared object / table was modified by the concurrent calls\n");
    return 3;
  }
  printf("SHARED");
  for (auto& kv : users)
    if (kv.second >= 2) printf(" %s", KN[kv.first]);
  printf("\n");
  return 0;
}
