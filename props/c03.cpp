// C03 — the q120 NTT is an exact, invertible negacyclic transform on all 64-bit data.
// Order-agnostic oracle (engine/oracle_modq.hpp): round trips, linearity, evaluation at the implementation's own
// validated roots r_j = ntt(X)[j] (Horner + an independent textbook NTT), convolution theorem with the pointwise
// product formed by the oracle, and the module-level dft -> idft identity on int64 coefficients.
// Non-trivial: n >= 2 and at least two non-zero input lanes.
#include <algorithm>
#include <map>

#include "arena.hpp"
#include "harness.hpp"
#include "spq.hpp"
#include "oracle_modq.hpp"

using namespace vh;
const char* vh_property_id = "C03";

typedef unsigned __int128 u128;
typedef __int128 i128;
#define LLU(x) ((unsigned long long)(x))

static bool oracle_ok(Ctx& c) {
  if (mq::selftest().empty()) return true;
  c.failf("ORACLE SELF-CHECK FAILED: %s", mq::selftest().c_str());
  return false;
}

// per-n library objects + validated evaluation points (memoised: pure functions of n and of the library)
struct NttCtx {
  uint64_t n = 0;
  q120_ntt_precomp* f = nullptr;
  q120_ntt_precomp* b = nullptr;
  mq::Roots roots;
};
static NttCtx& ntt_ctx(uint64_t n) {
  static std::map<uint64_t, NttCtx> cache;
  auto it = cache.find(n);
  if (it != cache.end()) { spq::maybe_bystander(); return it->second; }
  NttCtx& x = cache[n];
  x.n = n;
  x.f = q120_new_ntt_bb_precomp(n);
  x.b = q120_new_intt_bb_precomp(n);
  Arena ar;
  Buf X = ar.alloc(n * 32, OVER);
  uint64_t* d = X.as<uint64_t>();
  memset(d, 0, n * 32);
  if (n >= 2)
    for (int k = 0; k < 4; ++k) d[4 + k] = 1;  // the polynomial X
  else
    for (int k = 0; k < 4; ++k) d[k] = 1;
  q120_ntt_bb_avx2(x.f, (q120b*)d);
  x.roots.build(n, d);
  spq::maybe_bystander();  // other tables / modules of other dimensions come and go while this one stays alive
  return x;
}

enum Mode { M_FWD_INV = 0, M_INV_FWD, M_LIN_NTT, M_LIN_INTT, M_EVAL, M_CONV, M_INV_EVAL, M_N };
static const char* mode_name(int m) {
  static const char* n[] = {"roundtrip:intt(ntt(x))", "roundtrip:ntt(intt(x))", "linearity:ntt", "linearity:intt", "evaluation-map", "convolution", "inverse-evaluation"};
  return n[m];
}

static uint64_t nonzero_words(const uint64_t* d, uint64_t w) {
  uint64_t c = 0;
  for (uint64_t i = 0; i < w; ++i) c += d[i] != 0;
  return c;
}
// a representative of v (< q) chosen by the generator: canonical or v + c*q (still 64 bits)
static uint64_t rep(uint64_t v, int k, bool noncanon, Rng& r) {
  if (!noncanon) return v;
  const uint64_t q = mq::QS[k], cm = (UINT64_MAX - v) / q;
  return v + q * ((r.next() & 1) ? cm - r.below(3) : r.below(cm + 1));
}

static void run_kernel(Ctx& c, uint64_t k, int mode, int fam, int fam2, uint64_t seed) {
  if (!oracle_ok(c)) return;
  const uint64_t n = 1ull << k, W = 4 * n, B = n * 32;
  NttCtx& nc = ntt_ctx(n);
  Rng r(seed);
  Arena ar;
  c.cls("k:" + std::to_string(k));
  c.cls(std::string("mode:") + mode_name(mode));
  c.cls(std::string("fam:") + mq::lane_fam_name(fam));
  c.cls("kernel:q120_ntt_bb_avx2");
  c.cls("kernel:q120_intt_bb_avx2");
  c.notef("n=%llu %s lanes=%s second-operand=%s", LLU(n), mode_name(mode), mq::lane_fam_name(fam), mq::lane_fam_name(fam2));
  if (!nc.roots.err.empty()) return c.failf("n=%llu: q120_ntt_bb_avx2 of the polynomial X is not a list of the n primitive 2n-th roots: %s", LLU(n), nc.roots.err.c_str());
  const bool noncanon = (seed >> 7) & 1;
  std::vector<uint64_t> x(W);
  mq::fill_lanes(x.data(), n, fam, r);
  c.nontrivial = n >= 2 && nonzero_words(x.data(), W) >= 2;
  auto NTT = [&](uint64_t* d) { q120_ntt_bb_avx2(nc.f, (q120b*)d); };
  auto INTT = [&](uint64_t* d) { q120_intt_bb_avx2(nc.b, (q120b*)d); };
  auto q_of = [](uint64_t i) { return mq::QS[i & 3]; };
  switch (mode) {
    case M_FWD_INV:
    case M_INV_FWD: {
      Buf D = ar.alloc(B, (seed & 1) ? OVER : UNDER);
      uint64_t* d = D.as<uint64_t>();
      memcpy(d, x.data(), B);
      if (mode == M_FWD_INV) { NTT(d); INTT(d); } else { INTT(d); NTT(d); }
      for (uint64_t i = 0; i < W; ++i)
        if (d[i] % q_of(i) != x[i] % q_of(i))
          return c.failf("n=%llu %s lanes=%s: coefficient %llu lane %llu: input %llu = %llu mod q, came back as %llu = %llu mod q", LLU(n), mode_name(mode),
                         mq::lane_fam_name(fam), LLU(i / 4), LLU(i & 3), LLU(x[i]), LLU(x[i] % q_of(i)), LLU(d[i]), LLU(d[i] % q_of(i)));
      break;
    }
    case M_LIN_NTT:
    case M_LIN_INTT: {
      Buf DX = ar.alloc(B, OVER), DY = ar.alloc(B, UNDER), DZ = ar.alloc(B, OVER), DW = ar.alloc(B, UNDER);
      uint64_t *dx = DX.as<uint64_t>(), *dy = DY.as<uint64_t>(), *dz = DZ.as<uint64_t>(), *dw = DW.as<uint64_t>();
      memcpy(dx, x.data(), B);
      mq::fill_lanes(dy, n, fam2, r);
      std::vector<uint64_t> y(dy, dy + W);
      uint64_t s[4];
      for (int j = 0; j < 4; ++j) s[j] = (r.next() & 1) ? r.below(mq::QS[j]) : mq::QS[j] - 1 - r.below(2);
      for (uint64_t i = 0; i < W; ++i) {
        const uint64_t q = q_of(i);
        dz[i] = rep((x[i] % q + y[i] % q) % q, (int)(i & 3), noncanon, r);                // x + y formed mod q by the oracle
        dw[i] = rep((x[i] % q) * s[i & 3] % q, (int)(i & 3), noncanon && (i & 4), r);     // s * x
      }
      if (mode == M_LIN_NTT) { NTT(dx); NTT(dy); NTT(dz); NTT(dw); } else { INTT(dx); INTT(dy); INTT(dz); INTT(dw); }
      const char* T = mode == M_LIN_NTT ? "ntt" : "intt";
      for (uint64_t i = 0; i < W; ++i) {
        const uint64_t q = q_of(i);
        if ((dx[i] % q + dy[i] % q) % q != dz[i] % q)
          return c.failf("n=%llu %s(x)+%s(y) != %s(x+y) at position %llu lane %llu: %llu + %llu vs %llu (mod q%llu); x=%s y=%s", LLU(n), T, T, T, LLU(i / 4), LLU(i & 3),
                         LLU(dx[i] % q), LLU(dy[i] % q), LLU(dz[i] % q), LLU((i & 3) + 1), mq::lane_fam_name(fam), mq::lane_fam_name(fam2));
        if ((dx[i] % q) * s[i & 3] % q != dw[i] % q)
          return c.failf("n=%llu s*%s(x) != %s(s*x) at position %llu lane %llu (s=%llu, x=%s)", LLU(n), T, T, LLU(i / 4), LLU(i & 3), LLU(s[i & 3]), mq::lane_fam_name(fam));
      }
      c.cls(std::string("fam2:") + mq::lane_fam_name(fam2));
      break;
    }
    case M_EVAL: {
      Buf D = ar.alloc(B, (seed & 1) ? OVER : UNDER);
      uint64_t* d = D.as<uint64_t>();
      memcpy(d, x.data(), B);
      NTT(d);
      std::vector<uint64_t> E(W);
      nc.roots.evaluate(x.data(), E.data());
      for (uint64_t i = 0; i < W; ++i)
        if (d[i] % q_of(i) != E[i])
          return c.failf("n=%llu lanes=%s: ntt(a)[%llu] lane %llu = %llu = %llu mod q, but a(r_j) = %llu with r_j = ntt(X)[j] = %llu", LLU(n), mq::lane_fam_name(fam),
                         LLU(i / 4), LLU(i & 3), LLU(d[i]), LLU(d[i] % q_of(i)), LLU(E[i]), LLU(nc.roots.r[i & 3][i / 4]));
      // Horner in u128-free modular arithmetic: all j for n <= 1024, 64 generated j otherwise
      const uint64_t nj = n <= 1024 ? n : 64;
      for (uint64_t t = 0; t < nj; ++t) {
        const uint64_t j = n <= 1024 ? t : r.below(n);
        for (int l = 0; l < 4; ++l) {
          const uint64_t h = mq::horner(n, x.data() + l, 4, nc.roots.r[l][j], mq::QS[l]);
          if (d[4 * j + l] % mq::QS[l] != h)
            return c.failf("n=%llu lanes=%s: ntt(a)[%llu] lane %d = %llu mod q, Horner a(r_j) = %llu (r_j=%llu)", LLU(n), mq::lane_fam_name(fam), LLU(j), l,
                           LLU(d[4 * j + l] % mq::QS[l]), LLU(h), LLU(nc.roots.r[l][j]));
        }
      }
      break;
    }
    case M_CONV: {
      Buf DA = ar.alloc(B, OVER), DB = ar.alloc(B, UNDER);
      uint64_t *da = DA.as<uint64_t>(), *db = DB.as<uint64_t>();
      memcpy(da, x.data(), B);
      mq::fill_lanes(db, n, fam2, r);
      std::vector<uint64_t> y(db, db + W);
      NTT(da);
      NTT(db);
      for (uint64_t i = 0; i < W; ++i) da[i] = rep((da[i] % q_of(i)) * (db[i] % q_of(i)) % q_of(i), (int)(i & 3), noncanon, r);  // pointwise product by the oracle
      INTT(da);
      std::vector<uint64_t> ca(n), cb(n), cc(n);
      for (int l = 0; l < 4; ++l) {
        for (uint64_t i = 0; i < n; ++i) ca[i] = x[4 * i + l], cb[i] = y[4 * i + l];
        mq::negacyclic(n, ca.data(), cb.data(), cc.data(), l);
        for (uint64_t i = 0; i < n; ++i)
          if (da[4 * i + l] % mq::QS[l] != cc[i])
            return c.failf("n=%llu intt(ntt(a).ntt(b)) != a*b mod (X^n+1, q%d) at coefficient %llu: %llu vs %llu (a=%s, b=%s)", LLU(n), l + 1, LLU(i),
                           LLU(da[4 * i + l] % mq::QS[l]), LLU(cc[i]), mq::lane_fam_name(fam), mq::lane_fam_name(fam2));
      }
      c.cls(std::string("fam2:") + mq::lane_fam_name(fam2));
      c.cls(n <= 512 ? "conv-oracle:schoolbook" : "conv-oracle:ntt");
      break;
    }
    default: {  // M_INV_EVAL: x = intt(y) must satisfy x(r_j) = y_j
      Buf D = ar.alloc(B, (seed & 1) ? OVER : UNDER);
      uint64_t* d = D.as<uint64_t>();
      memcpy(d, x.data(), B);
      INTT(d);
      std::vector<uint64_t> E(W);
      nc.roots.evaluate(d, E.data());
      for (uint64_t i = 0; i < W; ++i)
        if (x[i] % q_of(i) != E[i])
          return c.failf("n=%llu lanes=%s: a = intt(y) has a(r_%llu) = %llu mod q%llu but y[%llu] = %llu = %llu mod q", LLU(n), mq::lane_fam_name(fam), LLU(i / 4), LLU(E[i]),
                         LLU((i & 3) + 1), LLU(i / 4), LLU(x[i]), LLU(x[i] % q_of(i)));
    }
  }
  if (ar.check_canaries() >= 0) return c.failf("n=%llu %s: write outside the n*4 lanes", LLU(n), mode_name(mode));
}

// ------------------------------------------------------------------------------------------ module level
static int64_t gen_coeff(int fam, uint64_t i, Rng& r) {
  switch (fam % 8) {
    case 0: return (int64_t)r.next();
    case 1: return (i & 1) ? INT64_MIN : INT64_MAX;
    case 2: return INT64_MIN;
    case 3: return INT64_MAX;
    case 4: return (int64_t)r.below(3) - 1;
    case 5: {
      const int64_t e[] = {INT64_MIN, INT64_MAX, INT64_MIN + 1, INT64_MAX - 1, 0, 1, -1, (int64_t)1 << 62, -((int64_t)1 << 62), (int64_t)mq::QS[0], -(int64_t)mq::QS[3]};
      return e[r.below(11)];
    }
    case 6: return r.below(16) ? 0 : (int64_t)r.next();  // sparse
    default: return r.sbits(1 + (unsigned)r.below(63));
  }
}
static std::string i128_str(i128 v) {
  bool neg = v < 0;
  u128 m = neg ? (u128)(-(v + 1)) + 1 : (u128)v;
  std::string s;
  do { s.insert(s.begin(), (char)('0' + (int)(m % 10))); m /= 10; } while (m);
  return (neg ? "-" : "") + s;
}

static void run_module(Ctx& c, uint64_t k, uint64_t a_size, uint64_t dft_size, uint64_t big_size, uint64_t a_pad, int variant, int fam, int prefill, uint64_t seed) {
  const uint64_t N = 1ull << k, a_sl = N + a_pad;
  MODULE* mod = spq::modules().get(N, NTT120, 0);
  Rng r(seed);
  Arena ar;
  const size_t ea = a_size ? ((a_size - 1) * a_sl + N) * 8 : 0;
  Buf A = ar.alloc(ea, (seed & 1) ? OVER : UNDER, 0, 3, seed);
  Buf D = ar.alloc(dft_size * spq::dft_limb_bytes(NTT120, N), OVER, 0, prefill, seed + 1);
  Buf G = ar.alloc(big_size * spq::big_limb_bytes(NTT120, N), OVER, 0, prefill + 1, seed + 2);
  const uint64_t tb = vec_znx_idft_tmp_bytes(mod);
  // scratch: exactly tmp_bytes, ending at a guard page, or (one case in two) at an offset of 8..56 bytes from a 64-byte boundary with
  // canaries / an exact heap block behind it -- the documented minimum alignment of a scratch pointer is 8 bytes
  Buf T = ar.alloc(variant == 0 ? tb : 0, ((seed >> 7) & 1) ? MID : OVER, 8 * (1 + (seed >> 8) % 7), prefill + 2, seed + 3);
  int64_t* a = A.as<int64_t>();
  bool saw_min = false, saw_max = false;
  uint64_t nz = 0;
  for (uint64_t i = 0; i < a_size; ++i)
    for (uint64_t j = 0; j < N; ++j) {
      int64_t v = gen_coeff(fam, j, r);
      a[i * a_sl + j] = v;
      saw_min |= v == INT64_MIN;
      saw_max |= v == INT64_MAX;
      nz += v != 0;
    }
  const uint64_t ha = hash_bytes(A.p, A.len);
  c.cls("k:" + std::to_string(k));
  c.cls(variant == 0 ? "module:vec_znx_idft" : "module:vec_znx_idft_tmp_a");
  c.cls("module:vec_znx_dft");
  if (a_size == 0) c.cls("a_size=0");
  if (dft_size == 0) c.cls("dft_size=0");
  if (big_size == 0) c.cls("big_size=0");
  if (dft_size < a_size) c.cls("dft<a (truncate)");
  if (dft_size > a_size) c.cls("dft>a (zero-extend)");
  if (big_size < dft_size) c.cls("big<dft (truncate)");
  if (big_size > dft_size) c.cls("big>dft (zero-extend)");
  if (a_pad) c.cls("stride>N");
  if (saw_min) c.cls("value:INT64_MIN");
  if (saw_max) c.cls("value:INT64_MAX");
  c.nontrivial = N >= 2 && nz >= 2 && std::min(a_size, std::min(dft_size, big_size)) >= 1;
  c.notef("NTT120 N=%llu vec_znx_dft(a_size=%llu,a_sl=%llu -> %llu limbs) then %s(-> %llu limbs) values=%d", LLU(N), LLU(a_size), LLU(a_sl), LLU(dft_size),
          variant == 0 ? "vec_znx_idft" : "vec_znx_idft_tmp_a", LLU(big_size), fam % 8);
  vec_znx_dft(mod, (VEC_ZNX_DFT*)D.p, dft_size, a, a_size, a_sl);
  if (hash_bytes(A.p, A.len) != ha) return c.failf("vec_znx_dft (NTT120) modified its input");
  // zero-extension in the DFT domain: limbs >= a_size must represent 0 (order-agnostic: every lane = 0 mod q)
  const uint64_t* d = D.as<uint64_t>();
  for (uint64_t i = std::min(a_size, dft_size); i < dft_size; ++i)
    for (uint64_t w = 0; w < 4 * N; ++w)
      if (d[i * 4 * N + w] % mq::QS[w & 3] != 0)
        return c.failf("vec_znx_dft N=%llu a_size=%llu res_size=%llu: limb %llu (beyond the input) is not the transform of 0", LLU(N), LLU(a_size), LLU(dft_size), LLU(i));
  const uint64_t hd = hash_bytes(D.p, D.len);
  if (variant == 0)
    vec_znx_idft(mod, (VEC_ZNX_BIG*)G.p, big_size, (VEC_ZNX_DFT*)D.p, dft_size, T.p);
  else
    vec_znx_idft_tmp_a(mod, (VEC_ZNX_BIG*)G.p, big_size, (VEC_ZNX_DFT*)D.p, dft_size);
  const i128* g = G.as<i128>();
  for (uint64_t i = 0; i < big_size; ++i)
    for (uint64_t j = 0; j < N; ++j) {
      const i128 e = i < std::min(a_size, dft_size) ? (i128)a[i * a_sl + j] : (i128)0;
      if (g[i * N + j] != e)
        return c.failf("NTT120 N=%llu a_size=%llu dft_size=%llu big_size=%llu a_sl=%llu %s: limb %llu coefficient %llu = %s, expected %s", LLU(N), LLU(a_size), LLU(dft_size),
                       LLU(big_size), LLU(a_sl), variant == 0 ? "vec_znx_idft" : "vec_znx_idft_tmp_a", LLU(i), LLU(j), i128_str(g[i * N + j]).c_str(), i128_str(e).c_str());
    }
  if (variant == 0 && hash_bytes(D.p, D.len) != hd) return c.failf("vec_znx_idft (NTT120) modified its input N=%llu", LLU(N));
  if (hash_bytes(A.p, A.len) != ha) return c.failf("the int64 input changed");
  if (ar.check_canaries() >= 0) return c.failf("NTT120 dft/idft N=%llu wrote outside res / tmp_bytes", LLU(N));
}

std::vector<Sub> vh_subs() {
  std::vector<Sub> subs;
  {
    Sub s;
    s.name = "kernel";
    s.fields = {{"k", 0, 16}, {"mode", 0, M_N - 1}, {"fam", 0, mq::LF_N - 1}, {"fam2", 0, mq::LF_N - 1}, {"seed", 0, INT64_MAX - 1}};
    s.run = [](const Vals& v, Ctx& c) { run_kernel(c, (uint64_t)v[0], (int)v[1], (int)v[2], (int)v[3], (uint64_t)v[4]); };
    subs.push_back(s);
  }
  {
    Sub s;
    s.name = "module";
    s.fields = {{"k", 0, 16}, {"a_size", 0, 5}, {"dft_size", 0, 5}, {"big_size", 0, 5}, {"a_pad", 0, 3}, {"variant", 0, 1}, {"fam", 0, 7}, {"prefill", 0, 3},
                {"seed", 0, INT64_MAX - 1}};
    s.run = [](const Vals& v, Ctx& c) {
      uint64_t as = v[1], ds = v[2], bs = v[3];
      if (v[0] >= 14) { as = std::min<uint64_t>(as, 3); ds = std::min<uint64_t>(ds, 3); bs = std::min<uint64_t>(bs, 3); }  // memory/time at N >= 16384
      run_module(c, (uint64_t)v[0], as, ds, bs, (uint64_t)v[4], (int)v[5], (int)v[6], (int)v[7], (uint64_t)v[8]);
    };
    subs.push_back(s);
  }
  return subs;
}
