// C07 — accelerated kernels compute the same function as their reference kernels; results through the public API
// do not depend on which CPU features were detected.
//  sub "pairs"    : one generic driver over an enumerated table of kernel pairs (ref vs avx/avx2/fma/sse/avx512/asm).
//                   Oracle per class: integer / data-movement kernels bit-identical; lazy q120 equal modulo each prime
//                   (and equal to the u128 oracle); floating kernels: EACH variant within gamma*2^-53*S of the
//                   long-double exact value (S = sum of |products/addends| of that output, gamma = 2*terms+4);
//                   FFT drivers / leaves: ||ref-acc||_2 <= 2*8*log2(2m)*2^-53*||ref||_2.
//                   Every kernel is only called at sizes at which the library's own dispatcher selects it (or, for the
//                   never-dispatched sse/avx512 kernels, at sizes that are a multiple of their unrolled block).
//  sub "api_masks": same objects created under the four CPU masks {0,1,2,3}; module-level calls in the exact regime;
//                   integer results must be identical across the masks.
#include <algorithm>
#include <thread>
#include <cmath>
#include <functional>
#include <map>
#include <string>
#include <vector>

#include "arena.hpp"
#include "harness.hpp"
#include "oracle_poly.hpp"
#include "patterns.hpp"
#include "spq.hpp"

using namespace vh;
const char* vh_property_id = "C07";

extern "C" {
void cplx_fft16_precomp(const double entry_pwr, CPLX** omg);
void cplx_ifft16_precomp(const double entry_pwr, CPLX** omg);
void reim_to_tnx_basic_ref(const REIM_TO_TNX_PRECOMP* tables, double* r, const double* x);
void* init_reim_to_tnx_precomp(REIM_TO_TNX_PRECOMP* const res, uint32_t m, double divisor, uint32_t log2overhead);
}

namespace {

typedef unsigned __int128 u128;
static const long double U53 = 0x1p-53L;

struct PairDef;

// worst observed error/tolerance ratio per pair (diagnostics only: printed at exit when C07_STATS is set)
static double g_worst[96];
static const char* g_names[96];
struct StatPrinter {
  ~StatPrinter() {
    if (!getenv("C07_STATS")) return;
    for (int i = 0; i < 96; ++i)
      if (g_names[i] && g_worst[i] > 0) fprintf(stderr, "C07_STATS %s %.4g\n", g_names[i], g_worst[i]);
  }
} g_stat_printer;

struct Case {
  Ctx& c;
  int pid = 0;
  const char* name = "";
  int lg = 0;
  uint64_t shape = 0;
  int mis[4] = {0, 0, 0, 0};
  int fam = 0;
  uint64_t seed = 0;
  Rng r;
  Arena ar;
  struct Frozen {
    const void* p;
    size_t len;
    uint64_t h;
  };
  std::vector<Frozen> frozen;
  double worst = 0;

  Case(Ctx& c_, uint64_t s) : c(c_), seed(s), r(s) {}
  uint64_t sh(int lo, int nbits) const { return (shape >> lo) & ((1ull << nbits) - 1); }
  // raw buffer: mi = index of the misalignment field (-1: 64-byte aligned), prefill 0..3, pseed for random prefill
  Buf raw(size_t bytes, int mi, int prefill = 0, uint64_t pseed = 0) {
    size_t ma = mi < 0 ? 0 : 8 * (size_t)mis[mi];
    int mode;
    if (mi < 0 || ma)
      mode = MID;
    else
      mode = ((shape >> 29) + ar.count()) & 1 ? UNDER : OVER;
    return ar.alloc(bytes, mode, ma, prefill, pseed);
  }
  template <class T>
  T* in(size_t n, int mi) {
    return raw(n * sizeof(T), mi, 0).as<T>();
  }
  template <class T>
  T* out(size_t n, int mi, uint64_t pseed = 77) {  // outputs prefilled with (identical, seeded) garbage
    return raw(n * sizeof(T), mi, 3, seed ^ pseed).as<T>();
  }
  template <class T>
  T* aligned(size_t n) {
    return raw(n * sizeof(T), -1, 0).as<T>();
  }
  void freeze(const void* p, size_t len) { frozen.push_back({p, len, hash_bytes(p, len)}); }
  bool finish() {
    for (auto& f : frozen)
      if (hash_bytes(f.p, f.len) != f.h) {
        c.failf("%s: a const input (%zu bytes) was modified", name, f.len);
        return false;
      }
    size_t w;
    int bad = ar.check_canaries(&w);
    if (bad >= 0) {
      c.failf("%s: write outside a declared extent (buffer %d, byte %zu)", name, bad, w);
      return false;
    }
    if (worst > g_worst[pid]) g_worst[pid] = worst;
    return true;
  }
  // floating oracle: got within (2*terms+4)*2^-53*S (+ oracle rounding allowance) of the long-double exact value
  bool near(const char* kern, size_t idx, double got, long double ex, long double S, int terms) {
    long double tol = ((2 * terms + 4) * U53 + terms * 0x1p-62L) * S;
    long double err = fabsl((long double)got - ex);
    if (!(err <= tol)) {
      c.failf("%s: %s output[%zu] = %a, exact %.21Lg: |err| = %.3Lg > %.3Lg = (2*%d+4)*2^-53*S, S = %.6Lg (size 2^%d, fam %d)",
              name, kern, idx, got, ex, err, tol, terms, S, lg, fam);
      return false;
    }
    if (tol > 0) {
      double ratio = (double)(err / tol);
      if (ratio > worst) worst = ratio;
    }
    return true;
  }
  // FFT-class differential: ||ref-acc||_2 <= 2 * 8*log2(2m)*2^-53 * ||ref||_2
  bool fft_close(const char* kref, const char* kacc, const double* ref, const double* acc, size_t nd, unsigned log2_2m) {
    long double num = 0, den = 0;
    for (size_t i = 0; i < nd; ++i) {
      long double d = (long double)ref[i] - (long double)acc[i];
      num += d * d;
      den += (long double)ref[i] * (long double)ref[i];
    }
    num = sqrtl(num);
    den = sqrtl(den);
    long double bound = 2.0L * 8.0L * log2_2m * U53 * den;
    if (!(num <= bound)) {
      size_t wi = 0;
      long double wd = -1;
      for (size_t i = 0; i < nd; ++i) {
        long double d = fabsl((long double)ref[i] - (long double)acc[i]);
        if (!(d <= wd)) wd = d, wi = i;
      }
      c.failf("%s: ||%s - %s||_2 = %.4Lg > %.4Lg = 2*8*log2(2m)*2^-53*||%s||_2 (m=2^%d, worst entry %zu: %a vs %a, fam %d)",
              name, kref, kacc, num, bound, kref, lg, wi, ref[wi], acc[wi], fam);
      return false;
    }
    if (bound > 0) {
      double ratio = (double)(num / bound);
      if (ratio > worst) worst = ratio;
    }
    return true;
  }
  template <class T>
  bool same(const char* kref, const char* kacc, const T* a, const T* b, size_t n, const char* what = "output") {
    for (size_t i = 0; i < n; ++i)
      if (memcmp(&a[i], &b[i], sizeof(T)) != 0) {
        long double x = (long double)a[i], y = (long double)b[i];
        c.failf("%s: %s[%zu] differs: %s = %.21Lg, %s = %.21Lg (bit patterns %llx vs %llx; size 2^%d, fam %d)", name, what, i, kref,
                x, kacc, y, (unsigned long long)bits(a[i]), (unsigned long long)bits(b[i]), lg, fam);
        return false;
      }
    return true;
  }
  template <class T>
  static uint64_t bits(const T& x) {
    uint64_t u = 0;
    memcpy(&u, &x, sizeof(T) < 8 ? sizeof(T) : 8);
    return u;
  }
};

// ---------------------------------------------------------------------------------------------- value families
static void fill_d(double* x, size_t n, int fam, Rng& r) {
  if (n == 0) return;
  switch (fam & 7) {
    case 0:
      for (size_t i = 0; i < n; ++i) x[i] = r.sunit();
      break;
    case 1:  // large dynamic range
      for (size_t i = 0; i < n; ++i) x[i] = std::ldexp(r.sunit(), (int)r.below(81) - 40);
      break;
    case 2:  // integer-valued
      for (size_t i = 0; i < n; ++i) x[i] = (double)r.sym(1 << 20);
      break;
    case 3: {  // signed zeros and a few non-zeros
      for (size_t i = 0; i < n; ++i) x[i] = (r.next() & 1) ? 0.0 : -0.0;
      uint64_t t = 1 + r.below(4);
      for (uint64_t q = 0; q < t; ++q) x[r.below(n)] = r.sunit();
      break;
    }
    case 4:  // +-1: exact cancellations
      for (size_t i = 0; i < n; ++i) x[i] = (r.next() & 1) ? 1.0 : -1.0;
      break;
    case 5: {  // far from 1 (normal range: products stay within 2^+-500)
      int E = (int)r.below(401) - 200;
      for (size_t i = 0; i < n; ++i) x[i] = std::ldexp(r.sunit(), E);
      break;
    }
    case 6: {  // single non-zero
      for (size_t i = 0; i < n; ++i) x[i] = 0.0;
      double v = std::ldexp(1.0 + r.unit(), (int)r.below(21) - 10);
      x[r.below(n)] = (r.next() & 1) ? v : -v;
      break;
    }
    default:  // nearly equal magnitudes: heavy cancellation in sums of products
      for (size_t i = 0; i < n; ++i) {
        double v = 1.0 + (double)r.below(16) * 0x1p-52;
        x[i] = (r.next() & 1) ? v : -v;
      }
  }
  bool any = false;
  for (size_t i = 0; i < n && !any; ++i) any = x[i] != 0.0;
  if (!any) x[0] = 1.0;
}

static const int64_t I62 = ((int64_t)1 << 62) - 1;  // |a|,|b| <= 2^62-1: a+b, a-b, -a never overflow
static void fill_i64(int64_t* a, size_t n, int fam, Rng& r) {
  if (n == 0) return;
  int64_t M = (fam & 8) ? ((int64_t)1 << (1 + r.below(61))) - 1 : I62;
  pat::fill(a, n, fam & 7, M, r.next(), r);
  bool any = false;
  for (size_t i = 0; i < n && !any; ++i) any = a[i] != 0;
  if (!any) a[0] = M;
}

struct PairDef {
  const char* name;
  int lgmin, lgmax;  // legal log2 size range (the descriptor's lg is folded into it)
  int lgthr;         // smallest size at which accelerated code (not the shared scalar fallback) runs
  int lglarge;       // sizes >= this count as "large"
  bool need512;
  const void *fref, *facc;  // non-trivial rule: different functions
  std::function<void(Case&)> run;
};

// ================================================================================================ integer kernels
typedef void (*Znx3)(uint64_t, int64_t*, const int64_t*, const int64_t*);
typedef void (*Znx2)(uint64_t, int64_t*, const int64_t*);

static void run_znx3(Case& k, Znx3 ref, Znx3 acc, int op) {
  const size_t n = (size_t)1 << k.lg;
  int64_t *a = k.in<int64_t>(n, 1), *b = k.in<int64_t>(n, 2);
  int64_t *r0 = k.out<int64_t>(n, 3), *r1 = k.out<int64_t>(n, 0);
  fill_i64(a, n, k.fam, k.r);
  fill_i64(b, n, (int)k.sh(20, 4), k.r);
  k.freeze(a, n * 8);
  k.freeze(b, n * 8);
  ref(n, r0, a, b);
  acc(n, r1, a, b);
  if (!k.same("ref", "avx", r0, r1, n)) return;
  for (size_t i = 0; i < n; ++i) {
    int64_t e = op ? a[i] - b[i] : a[i] + b[i];
    if (r1[i] != e) return k.c.failf("%s: avx output[%zu] = %lld, expected %lld", k.name, i, (long long)r1[i], (long long)e);
  }
  k.finish();
}
static void run_znx2(Case& k, Znx2 ref, Znx2 acc) {
  const size_t n = (size_t)1 << k.lg;
  int64_t* a = k.in<int64_t>(n, 1);
  int64_t *r0 = k.out<int64_t>(n, 3), *r1 = k.out<int64_t>(n, 0);
  fill_i64(a, n, k.fam, k.r);
  k.freeze(a, n * 8);
  ref(n, r0, a);
  acc(n, r1, a);
  if (!k.same("ref", "avx", r0, r1, n)) return;
  for (size_t i = 0; i < n; ++i)
    if (r1[i] != -a[i]) return k.c.failf("%s: avx output[%zu] = %lld, expected %lld", k.name, i, (long long)r1[i], (long long)-a[i]);
  k.finish();
}

static void run_rnx_divide(Case& k) {
  const size_t n = (size_t)1 << k.lg;
  double* a = k.in<double>(n, 1);
  double *r0 = k.out<double>(n, 3), *r1 = k.out<double>(n, 0);
  fill_d(a, n, k.fam, k.r);
  const int j = (int)k.sh(0, 6) - 20;  // m = 2^j, j in [-20, 43] ("m is a power of 2")
  const double m = std::ldexp(1.0, j);
  k.freeze(a, n * 8);
  rnx_divide_by_m_ref(n, m, r0, a);
  rnx_divide_by_m_avx(n, m, r1, a);
  if (!k.same("ref", "avx", r0, r1, n)) return;
  for (size_t i = 0; i < n; ++i) {
    double e = std::ldexp(a[i], -j);  // exact
    if (memcmp(&e, &r1[i], 8) != 0) return k.c.failf("%s: avx output[%zu] = %a, exact a/m = %a (m=2^%d)", k.name, i, r1[i], e, j);
  }
  k.finish();
}

// module-level vec_znx_{add,sub,negate}_{ref,avx}: op 0 add, 1 sub, 2 negate
static void run_vec_znx(Case& k, int op) {
  const uint64_t nn = 1ull << k.lg;
  MODULE* mod = spq::modules().get(nn, FFT64, 0);
  uint64_t cap = k.lg >= 12 ? 3 : 6;
  uint64_t rs = k.sh(0, 3) % cap, as = k.sh(3, 3) % cap, bs = k.sh(6, 3) % cap;
  uint64_t rsl = nn + k.sh(9, 2), asl = nn + k.sh(11, 2), bsl = nn + k.sh(13, 2);
  auto ext = [&](uint64_t sz, uint64_t sl) { return sz ? (sz - 1) * sl + nn : 0; };
  int64_t *a = k.in<int64_t>(ext(as, asl), 1), *b = k.in<int64_t>(ext(bs, bsl), 2);
  int64_t *r0 = k.out<int64_t>(ext(rs, rsl), 3), *r1 = k.out<int64_t>(ext(rs, rsl), 0);
  for (uint64_t i = 0; i < as; ++i) fill_i64(a + i * asl, nn, k.fam + (int)i, k.r);
  for (uint64_t i = 0; i < bs; ++i) fill_i64(b + i * bsl, nn, (int)k.sh(20, 4) + (int)i, k.r);
  k.freeze(a, ext(as, asl) * 8);
  k.freeze(b, ext(bs, bsl) * 8);
  switch (op) {
    case 0:
      vec_znx_add_ref(mod, r0, rs, rsl, a, as, asl, b, bs, bsl);
      vec_znx_add_avx(mod, r1, rs, rsl, a, as, asl, b, bs, bsl);
      break;
    case 1:
      vec_znx_sub_ref(mod, r0, rs, rsl, a, as, asl, b, bs, bsl);
      vec_znx_sub_avx(mod, r1, rs, rsl, a, as, asl, b, bs, bsl);
      break;
    default:
      vec_znx_negate_ref(mod, r0, rs, rsl, a, as, asl);
      vec_znx_negate_avx(mod, r1, rs, rsl, a, as, asl);
  }
  k.c.cls(std::string(k.name) + (rs > std::max(as, op == 2 ? as : bs) ? ":res>inputs" : rs == 0 ? ":res=0" : ":res<=inputs"));
  if (op != 2 && as != bs) k.c.cls(std::string(k.name) + (as < bs ? ":a<b" : ":a>b"));
  // whole extent, stride padding included (both outputs start from identical garbage)
  if (!k.same("ref", "avx", r0, r1, ext(rs, rsl), "res word")) return;
  // model
  for (uint64_t i = 0; i < rs; ++i)
    for (uint64_t q = 0; q < nn; ++q) {
      int64_t x = i < as ? a[i * asl + q] : 0, y = (op != 2 && i < bs) ? b[i * bsl + q] : 0;
      int64_t e = op == 0 ? x + y : op == 1 ? x - y : -x;
      if (r1[i * rsl + q] != e)
        return k.c.failf("%s: avx limb %llu coeff %llu = %lld, expected %lld (res_size=%llu a_size=%llu b_size=%llu)", k.name,
                         (unsigned long long)i, (unsigned long long)q, (long long)r1[i * rsl + q], (long long)e,
                         (unsigned long long)rs, (unsigned long long)as, (unsigned long long)bs);
    }
  k.finish();
}

// ================================================================================================ conversions
static void run_from_znx64(Case& k) {
  const uint64_t m = 1ull << k.lg, nn = 2 * m;
  REIM_FROM_ZNX64_PRECOMP p;
  p.function = nullptr;
  p.m = (int64_t)m;
  int64_t* x = k.in<int64_t>(nn, 1);
  double *r0 = k.out<double>(nn, 3), *r1 = k.out<double>(nn, 0);
  const int64_t B = ((int64_t)1 << 50) - 1;  // documented bound of the bnd50 kernel: |x| < 2^50
  int64_t M = (k.fam & 8) ? ((int64_t)1 << (1 + k.r.below(50))) - 1 : B;
  pat::fill(x, nn, k.fam & 7, M, k.r.next(), k.r);
  if (orc::count_nonzero(nn, x) == 0) x[0] = -M;
  k.freeze(x, nn * 8);
  reim_from_znx64_ref(&p, r0, x);
  reim_from_znx64_bnd50_fma(&p, r1, x);
  if (!k.same("ref", "bnd50_fma", r0, r1, nn)) return;
  for (uint64_t i = 0; i < nn; ++i)
    if (r1[i] != (double)x[i]) return k.c.failf("%s: bnd50_fma output[%llu] = %a for input %lld", k.name, (unsigned long long)i, r1[i], (long long)x[i]);
  k.finish();
}

static void run_to_znx64(Case& k) {
  const uint64_t m = 1ull << k.lg, nn = 2 * m;
  const int d = (int)k.sh(0, 6) - 20;  // divisor 2^d, d in [-20,43]
  REIM_TO_ZNX64_PRECOMP p;
  p.function = nullptr;
  p.m = (int64_t)m;
  p.divisor = std::ldexp(1.0, d);
  double* x = k.in<double>(nn, 1);
  int64_t *r0 = k.out<int64_t>(nn, 3), *r1 = k.out<int64_t>(nn, 0), *r2 = k.out<int64_t>(nn, 2);
  std::vector<char> tie(nn, 0);
  std::vector<long double> expect(nn);
  const int64_t B = ((int64_t)1 << 50) - 1;  // outputs inside the tighter (bnd50) bound
  const int bitsmax = 1 + (int)k.r.below(50);
  for (uint64_t i = 0; i < nn; ++i) {
    int64_t q;
    double f;
    switch (k.fam & 7) {
      case 0: q = k.r.sbits(bitsmax); f = k.r.sunit() * 0.5; break;
      case 1: q = (k.r.next() & 1) ? B - (int64_t)k.r.below(4) : -B + (int64_t)k.r.below(4); f = k.r.sunit() * 0.25; break;
      case 2: q = k.r.sbits(bitsmax); f = 0; break;                                              // exact integers
      case 3: q = 0; f = std::ldexp(k.r.sunit(), -(int)k.r.below(60)); if (k.r.below(8) == 0) f = (k.r.next() & 1) ? 0.0 : -0.0; break;
      case 4: q = k.r.sbits(1 + (int)k.r.below(40)); f = (k.r.next() & 1) ? 0.5 : -0.5; break;  // exact ties
      case 5: q = k.r.sbits(1 + (int)k.r.below(30)); f = ((k.r.next() & 1) ? 1 : -1) * (0.5 - std::ldexp(1.0, -1 - (int)k.r.below(20))); break;
      case 6: q = k.r.sbits(bitsmax); f = (double)k.r.sym(8) / 16.0; break;
      default: q = (i & 1) ? k.r.sbits(bitsmax) : 0; f = k.r.sunit() * 0.49; break;
    }
    double t = (double)q + f;
    if (!(std::fabs(t) <= (double)B)) t = (double)((t > 0) ? B : -B);
    long double rt = rintl((long double)t);  // round to nearest even, exact
    if (fabsl(rt) > (long double)B) t = (double)rt - (rt > 0 ? 1.0 : -1.0), rt = rintl((long double)t);
    tie[i] = fabsl((long double)t - rt) == 0.5L;
    expect[i] = rt;
    x[i] = std::ldexp(t, d);  // exact scaling
  }
  if (x[0] == 0) x[0] = std::ldexp(3.0, d), expect[0] = 3, tie[0] = 0;
  k.freeze(x, nn * 8);
  reim_to_znx64_ref(&p, r0, x);
  reim_to_znx64_avx2_bnd50_fma(&p, r1, x);
  reim_to_znx64_avx2_bnd63_fma(&p, r2, x);
  bool anytie = false;
  for (uint64_t i = 0; i < nn; ++i) {
    long double t = (long double)std::ldexp(x[i], -d);
    if (r0[i] != r1[i])
      return k.c.failf("%s: output[%llu] for x/divisor = %.20Lg: ref = %lld, avx2_bnd50 = %lld (divisor 2^%d)", k.name, (unsigned long long)i, t,
                       (long long)r0[i], (long long)r1[i], d);
    if ((long double)r0[i] != expect[i])
      return k.c.failf("%s: ref output[%llu] = %lld for x/divisor = %.20Lg, nearest integer is %.0Lf", k.name, (unsigned long long)i,
                       (long long)r0[i], t, expect[i]);
    if (tie[i]) {  // exact .5 ties: the bnd63 kernel rounds away from zero (documented difference), only |err| = 1/2 required
      anytie = true;
      if (fabsl((long double)r2[i] - t) != 0.5L)
        return k.c.failf("%s: avx2_bnd63 output[%llu] = %lld for the tie x/divisor = %.20Lg", k.name, (unsigned long long)i, (long long)r2[i], t);
    } else if (r2[i] != r0[i])
      return k.c.failf("%s: output[%llu] for x/divisor = %.20Lg: ref = %lld, avx2_bnd63 = %lld (divisor 2^%d)", k.name, (unsigned long long)i, t,
                       (long long)r0[i], (long long)r2[i], d);
  }
  if (anytie) k.c.cls("reim_to_znx64:ties");
  k.finish();
}

static void run_to_tnx(Case& k) {
  const uint64_t m = 1ull << k.lg, nn = 2 * m;
  const int d = (int)k.sh(0, 6) - 20;
  const uint32_t ovh = (uint32_t)(k.sh(6, 6) % 49);  // log2overhead in [0,48]
  const double div = std::ldexp(1.0, d);
  REIM_TO_TNX_PRECOMP p;
  memset(&p, 0, sizeof p);
  if (!init_reim_to_tnx_precomp(&p, (uint32_t)m, div, ovh)) return k.c.failf("%s: init_reim_to_tnx_precomp failed", k.name);
  double* x = k.in<double>(nn, 1);
  double *r0 = k.out<double>(nn, 3), *r1 = k.out<double>(nn, 0), *r2 = k.out<double>(nn, 2);
  const double lim = std::ldexp(1.0, (int)ovh);  // |x/divisor| <= 2^ovh
  for (uint64_t i = 0; i < nn; ++i) {
    double ip = ovh == 0 ? (double)k.r.sym(1) : (double)k.r.sbits(1 + (unsigned)k.r.below(ovh));
    double f;
    switch (k.fam & 7) {
      case 0: f = k.r.sunit() * 0.5; break;
      case 1: f = ((k.r.next() & 1) ? 0.5 : -0.5) - std::ldexp(k.r.sunit(), -(int)k.r.below(52)); break;  // around +-1/2
      case 2: f = (double)k.r.sym(1 << 20) * 0x1p-21; break;                                               // on a coarse grid
      case 3: f = std::ldexp(k.r.sunit(), -(int)k.r.below(60)); break;                                     // tiny
      case 4: ip = (k.r.next() & 1) ? lim : -lim; f = 0; break;                                            // extremal magnitude
      case 5: f = 0; break;
      default: f = k.r.sunit() * 0.5;
    }
    double t = ip + f;
    if (!(std::fabs(t) <= lim)) t = t > 0 ? lim : -lim;
    x[i] = t * div;
  }
  if (x[0] == 0) x[0] = 0.25 * div;
  k.freeze(x, nn * 8);
  reim_to_tnx_basic_ref(&p, r0, x);
  reim_to_tnx_ref(&p, r1, x);
  reim_to_tnx_avx(&p, r2, x);
  if (!k.same("ref", "avx", r1, r2, nn)) return;
  const long double tol = ldexpl(1.0L, (int)ovh - 50);  // documented precision of the fast kernels
  for (uint64_t i = 0; i < nn; ++i) {
    long double t = (long double)x[i] / div;
    long double ex = t - rintl(t);
    auto tdist = [](long double a, long double b) { long double z = a - b; return fabsl(z - rintl(z)); };
    long double e0 = tdist(r0[i], ex), e1 = tdist(r1[i], ex), e01 = tdist(r0[i], r1[i]);
    if (!(e0 <= tol) || !(e1 <= tol) || !(e01 <= tol) || !(std::fabs(r1[i]) <= 0.5) || !(std::fabs(r0[i]) <= 0.5))
      return k.c.failf("%s: output[%llu] for x/divisor = %.20Lg (log2overhead %u): basic_ref = %a, ref = %a, exact torus value %.20Lg; "
                       "torus distances %.3Lg / %.3Lg / %.3Lg exceed 2^(ovh-50) = %.3Lg", k.name, (unsigned long long)i, t, ovh, r0[i], r1[i], ex,
                       e0, e1, e01, tol);
    double ratio = (double)(std::max(e1, e01) / tol);
    if (ratio > k.worst) k.worst = ratio;
  }
  k.finish();
}

static void run_cplx_from32(Case& k, bool tnx) {
  const uint64_t m = 1ull << k.lg;
  int32_t* x = k.in<int32_t>(2 * m, 1);
  double *r0 = k.out<double>(2 * m, 3), *r1 = k.out<double>(2 * m, 0);
  for (uint64_t i = 0; i < 2 * m; ++i) {
    switch (k.fam & 3) {
      case 0: x[i] = (int32_t)k.r.next(); break;
      case 1: { const int32_t e[] = {INT32_MIN, INT32_MAX, -1, 0, 1, INT32_MIN + 1}; x[i] = e[k.r.below(6)]; break; }
      case 2: x[i] = (int32_t)k.r.sym(1000); break;
      default: x[i] = (int32_t)k.r.sbits(1 + (unsigned)k.r.below(31));
    }
  }
  if (x[0] == 0) x[0] = -7;
  k.freeze(x, 2 * m * 4);
  if (tnx) {
    CPLX_FROM_TNX32_PRECOMP p;
    p.function = nullptr;
    p.m = (int64_t)m;
    cplx_from_tnx32_ref(&p, r0, x);
    cplx_from_tnx32_avx2_fma(&p, r1, x);
  } else {
    CPLX_FROM_ZNX32_PRECOMP p;
    p.function = nullptr;
    p.m = (int64_t)m;
    cplx_from_znx32_ref(&p, r0, x);
    cplx_from_znx32_avx2_fma(&p, r1, x);
  }
  if (!k.same("ref", "avx2_fma", r0, r1, 2 * m)) return;
  for (uint64_t j = 0; j < m; ++j)
    for (int part = 0; part < 2; ++part) {
      double e = tnx ? std::ldexp((double)x[j + part * m], -32) : (double)x[j + part * m];
      if (r1[2 * j + part] != e) return k.c.failf("%s: avx2_fma complex %llu part %d = %a, expected %a", k.name, (unsigned long long)j, part, r1[2 * j + part], e);
    }
  k.finish();
}

static void run_cplx_to_tnx32(Case& k) {
  const uint64_t m = 1ull << k.lg;
  const int d = (int)k.sh(0, 6) - 20;
  const int ovh = (int)(k.sh(6, 5) % 19);  // the avx kernel is selected for log2overhead <= 18
  CPLX_TO_TNX32_PRECOMP p;
  p.function = nullptr;
  p.m = (int64_t)m;
  p.divisor = std::ldexp(1.0, d);
  double* x = k.in<double>(2 * m, 1);
  int32_t *r0 = k.out<int32_t>(2 * m, 3), *r1 = k.out<int32_t>(2 * m, 0);
  const double lim = std::ldexp(1.0, ovh);
  for (uint64_t i = 0; i < 2 * m; ++i) {
    double t;
    switch (k.fam & 7) {
      case 0: t = k.r.sunit() * lim; break;
      case 1: t = (double)(int64_t)k.r.sym((int64_t)1 << 32) * 0x1p-32; break;                           // exactly representable torus points
      case 2: t = ((double)(int64_t)k.r.sym((int64_t)1 << 32) + 0.5) * 0x1p-32; break;                   // exact rounding ties
      case 3: t = (k.r.next() & 1) ? lim : -lim; break;                                                  // extremal
      case 4: t = std::ldexp(k.r.sunit(), -(int)k.r.below(70)); break;                                   // tiny
      case 5: t = (double)k.r.sym((int64_t)1 << ovh) + (double)(int64_t)k.r.sym((int64_t)1 << 31) * 0x1p-32; break;
      default: t = k.r.sunit() * 0.5 + (double)k.r.sym((int64_t)1 << ovh);
    }
    if (!(std::fabs(t) <= lim)) t = t > 0 ? lim : -lim;
    x[i] = t * p.divisor;
  }
  if (x[0] == 0) x[0] = 0.25 * p.divisor;
  k.freeze(x, 2 * m * 8);
  cplx_to_tnx32_ref(&p, r0, x);
  cplx_to_tnx32_avx2_fma(&p, r1, x);
  for (uint64_t i = 0; i < 2 * m; ++i)
    if (r0[i] != r1[i]) {
      uint64_t j = i % m;
      int part = (int)(i / m);
      return k.c.failf("%s: int32 output[%llu] for x/divisor = %.20g: ref = %d, avx2_fma = %d (divisor 2^%d)", k.name, (unsigned long long)i,
                       x[2 * j + part] / p.divisor, r0[i], r1[i], d);
    }
  // value: round-to-nearest-even of x/divisor*2^32, modulo 2^32
  for (uint64_t j = 0; j < m; ++j)
    for (int part = 0; part < 2; ++part) {
      long double t = rintl((long double)x[2 * j + part] / p.divisor * 0x1p32L);
      int32_t e = (int32_t)(uint32_t)(uint64_t)(int64_t)t;
      if (r1[j + part * m] != e) return k.c.failf("%s: avx2_fma output for complex %llu part %d = %d, expected %d", k.name, (unsigned long long)j, part, r1[j + part * m], e);
    }
  k.finish();
}

// ================================================================================================ FFT drivers and leaves
// precomputed tables (library's own fill routines), created once per m; tables are shared by both variants
struct TableCache {
  std::map<uint64_t, REIM_FFT_PRECOMP*> rf;
  std::map<uint64_t, REIM_IFFT_PRECOMP*> ri;
  std::map<uint64_t, CPLX_FFT_PRECOMP*> cf;
  std::map<uint64_t, CPLX_IFFT_PRECOMP*> ci;
  ~TableCache() {
    for (auto& kv : rf) free(kv.second);
    for (auto& kv : ri) free(kv.second);
    for (auto& kv : cf) free(kv.second);
    for (auto& kv : ci) free(kv.second);
  }
};
static TableCache& tables() {
  static TableCache t;
  return t;
}
template <class M, class F>
static auto cached(M& map, uint64_t m, F mk) -> decltype(mk(m)) {
  auto it = map.find(m);
  if (it != map.end()) { spq::maybe_bystander(); return it->second; }
  auto p = mk(m);
  map[m] = p;
  spq::maybe_bystander();
  return p;
}

// kind: 0 reim_fft, 1 reim_ifft, 2 cplx_fft, 3 cplx_ifft
static void run_fft_driver(Case& k, int kind) {
  const uint64_t m = 1ull << k.lg;
  double *d0 = k.in<double>(2 * m, 0), *d1 = k.in<double>(2 * m, 1);
  fill_d(d0, 2 * m, k.fam, k.r);
  memcpy(d1, d0, 2 * m * 8);
  const void* tab = nullptr;
  size_t tablen = 0;
  switch (kind) {
    case 0: {
      REIM_FFT_PRECOMP* p = cached(tables().rf, m, [](uint64_t mm) { return new_reim_fft_precomp((uint32_t)mm, 0); });
      tab = p->powomegas, tablen = 2 * m * 8;
      k.freeze(tab, tablen);
      reim_fft_ref(p, d0);
      reim_fft_avx2_fma(p, d1);
      break;
    }
    case 1: {
      REIM_IFFT_PRECOMP* p = cached(tables().ri, m, [](uint64_t mm) { return new_reim_ifft_precomp((uint32_t)mm, 0); });
      tab = p->powomegas, tablen = 2 * m * 8;
      k.freeze(tab, tablen);
      reim_ifft_ref(p, d0);
      reim_ifft_avx2_fma(p, d1);
      break;
    }
    case 2: {
      CPLX_FFT_PRECOMP* p = cached(tables().cf, m, [](uint64_t mm) { return new_cplx_fft_precomp((uint32_t)mm, 0); });
      tab = p->powomegas, tablen = 2 * m * 16;
      k.freeze(tab, tablen);
      cplx_fft_ref(p, d0);
      cplx_fft_avx2_fma(p, d1);
      break;
    }
    default: {
      CPLX_IFFT_PRECOMP* p = cached(tables().ci, m, [](uint64_t mm) { return new_cplx_ifft_precomp((uint32_t)mm, 0); });
      tab = p->powomegas, tablen = 2 * m * 16;
      k.freeze(tab, tablen);
      cplx_ifft_ref(p, d0);
      cplx_ifft_avx2_fma(p, d1);
    }
  }
  if (!k.fft_close("ref", "avx2_fma", d0, d1, 2 * m, (unsigned)k.lg + 1)) return;
  k.finish();
}

// leaf kernels: kind 0 reim_fft{4,8,16}, 1 reim_ifft{4,8,16}, 2 cplx_fft16, 3 cplx_ifft16; tables from the library's fill_*
static void run_fft_leaf(Case& k, int kind, int dim) {
  typedef void (*ReimLeaf)(double*, double*, const void*);
  double* om = k.aligned<double>(16);
  double entry = (k.fam & 8) ? 0.25 : k.r.unit();
  const char *nref = "ref", *nacc = "avx_fma";
  double *d0 = k.in<double>(2 * dim, 0), *d1 = k.in<double>(2 * dim, 1);
  fill_d(d0, 2 * dim, k.fam, k.r);
  memcpy(d1, d0, 2 * dim * 8);
  if (kind < 2) {
    double* w = om;
    ReimLeaf fr, fa;
    if (kind == 0) {
      if (dim == 4) fill_reim_fft4_omegas(entry, &w), fr = reim_fft4_ref, fa = reim_fft4_avx_fma;
      else if (dim == 8) fill_reim_fft8_omegas(entry, &w), fr = reim_fft8_ref, fa = reim_fft8_avx_fma;
      else fill_reim_fft16_omegas(entry, &w), fr = reim_fft16_ref, fa = reim_fft16_avx_fma;
    } else {
      if (dim == 4) fill_reim_ifft4_omegas(entry, &w), fr = reim_ifft4_ref, fa = reim_ifft4_avx_fma;
      else if (dim == 8) fill_reim_ifft8_omegas(entry, &w), fr = reim_ifft8_ref, fa = reim_ifft8_avx_fma;
      else fill_reim_ifft16_omegas(entry, &w), fr = reim_ifft16_ref, fa = reim_ifft16_avx_fma;
    }
    if (w - om > 16) return k.c.failf("%s: harness table too small", k.name);
    k.freeze(om, 16 * 8);
    // re and im halves at independent addresses for the accelerated call
    double *re1 = k.in<double>(dim, 2), *im1 = k.in<double>(dim, 3);
    memcpy(re1, d0, dim * 8);
    memcpy(im1, d0 + dim, dim * 8);
    fr(d0, d0 + dim, om);
    fa(re1, im1, om);
    memcpy(d1, re1, dim * 8);
    memcpy(d1 + dim, im1, dim * 8);
  } else {
    CPLX* w = (CPLX*)om;
    if (kind == 2) {
      cplx_fft16_precomp(entry, &w);
      k.freeze(om, 16 * 8);
      cplx_fft16_ref(d0, om);
      cplx_fft16_avx_fma(d1, om);
    } else {
      cplx_ifft16_precomp(entry, &w);
      k.freeze(om, 16 * 8);
      cplx_ifft16_ref(d0, om);
      cplx_ifft16_avx_fma(d1, om);
    }
  }
  unsigned l2 = dim == 4 ? 3 : dim == 8 ? 4 : 5;
  if (!k.fft_close(nref, nacc, d0, d1, 2 * dim, l2)) return;
  k.finish();
}

// ================================================================================================ fftvec mul / addmul
enum Layout { L_REIM, L_REIM4, L_CPLX };
static inline size_t li(Layout L, size_t m, size_t i, int part) {
  switch (L) {
    case L_REIM: return i + part * m;
    case L_REIM4: return (i / 4) * 8 + part * 4 + (i % 4);
    default: return 2 * i + part;
  }
}
using VecFn = std::function<void(size_t, double*, const double*, const double*)>;
struct Variant {
  const char* name;
  VecFn fn;
};

static void run_fftvec(Case& k, Layout L, bool addmul, const std::vector<Variant>& vs) {
  const size_t m = (size_t)1 << k.lg;
  double *a = k.in<double>(2 * m, 1), *b = k.in<double>(2 * m, 2);
  std::vector<double> r0(2 * m, 0.0);
  fill_d(a, 2 * m, k.fam, k.r);
  fill_d(b, 2 * m, (int)k.sh(20, 3), k.r);  // families of the operands are independent
  if (addmul) fill_d(r0.data(), 2 * m, (int)k.sh(23, 3), k.r);
  k.freeze(a, 2 * m * 8);
  k.freeze(b, 2 * m * 8);
  std::vector<long double> ex(2 * m), S(2 * m);
  for (size_t i = 0; i < m; ++i) {
    long double ar = a[li(L, m, i, 0)], ai = a[li(L, m, i, 1)], br = b[li(L, m, i, 0)], bi = b[li(L, m, i, 1)];
    long double rr = addmul ? r0[li(L, m, i, 0)] : 0, ri = addmul ? r0[li(L, m, i, 1)] : 0;
    ex[li(L, m, i, 0)] = rr + ar * br - ai * bi;  // products of doubles are exact in long double up to 2^-64 (allowance in near())
    S[li(L, m, i, 0)] = fabsl(rr) + fabsl(ar * br) + fabsl(ai * bi);
    ex[li(L, m, i, 1)] = ri + ar * bi + ai * br;
    S[li(L, m, i, 1)] = fabsl(ri) + fabsl(ar * bi) + fabsl(ai * br);
  }
  const int terms = addmul ? 3 : 2;
  int vi = 0;
  for (const Variant& v : vs) {
    double* r = addmul ? k.in<double>(2 * m, vi == 0 ? 3 : 0) : k.out<double>(2 * m, vi == 0 ? 3 : 0);
    if (addmul) memcpy(r, r0.data(), 2 * m * 8);
    v.fn(m, r, a, b);
    for (size_t j = 0; j < 2 * m; ++j)
      if (!k.near(v.name, j, r[j], ex[j], S[j], terms)) return;
    ++vi;
  }
  k.finish();
}

template <class P, class F>
static VecFn wrap(F f) {
  return [f](size_t m, double* r, const double* a, const double* b) {
    P p;
    p.function = nullptr;
    p.m = (int64_t)m;
    f(&p, r, a, b);
  };
}

// (a,b) <- (a + om*b, a - om*b) over m complexes: ref butterfly cplx_twiddle_fft_ref vs cplx_fftvec_twiddle_{fma,avx512}
static void run_twiddle(Case& k, bool avx512) {
  const size_t m = (size_t)1 << k.lg;
  double* om = k.aligned<double>(4);
  if (k.fam & 8) {
    om[0] = k.r.sunit() * 2, om[1] = k.r.sunit() * 2;  // the kernels are plain complex multiply-adds: any factor
  } else {
    long double th = 2 * M_PIl * (long double)k.r.unit();
    om[0] = (double)cosl(th), om[1] = (double)sinl(th);
  }
  om[2] = om[0], om[3] = om[1];
  k.freeze(om, 32);
  std::vector<double> a0(2 * m), b0(2 * m);
  fill_d(a0.data(), 2 * m, k.fam, k.r);
  fill_d(b0.data(), 2 * m, (int)k.sh(20, 3), k.r);
  std::vector<long double> exa(2 * m), exb(2 * m), S(2 * m);
  for (size_t i = 0; i < m; ++i) {
    long double br = b0[2 * i], bi = b0[2 * i + 1], wr = om[0], wi = om[1];
    long double pr = wr * br - wi * bi, pi = wr * bi + wi * br;
    exa[2 * i] = a0[2 * i] + pr, exb[2 * i] = a0[2 * i] - pr;
    exa[2 * i + 1] = a0[2 * i + 1] + pi, exb[2 * i + 1] = a0[2 * i + 1] - pi;
    S[2 * i] = fabsl(a0[2 * i]) + fabsl(wr * br) + fabsl(wi * bi);
    S[2 * i + 1] = fabsl(a0[2 * i + 1]) + fabsl(wr * bi) + fabsl(wi * br);
  }
  CPLX_FFTVEC_TWIDDLE_PRECOMP p;
  p.function = nullptr;
  p.m = (int64_t)m;
  for (int v = 0; v < 3; ++v) {
    if (v == 2 && !avx512) continue;
    if (v == 1 && avx512 && m < 8) continue;
    const char* nm = v == 0 ? "cplx_twiddle_fft_ref" : v == 1 ? "cplx_fftvec_twiddle_fma" : "cplx_fftvec_twiddle_avx512";
    double *a, *b;
    if (v == 0) {
      a = k.in<double>(4 * m, 1), b = a + 2 * m;  // the ref butterfly works on one contiguous vector of 2m complexes
    } else {
      a = k.in<double>(2 * m, v == 1 ? 2 : 0), b = k.in<double>(2 * m, v == 1 ? 3 : 1);
    }
    memcpy(a, a0.data(), 2 * m * 8);
    memcpy(b, b0.data(), 2 * m * 8);
    if (v == 0) cplx_twiddle_fft_ref((int32_t)m, (CPLX*)a, om);
    else if (v == 1) cplx_fftvec_twiddle_fma(&p, a, b, om);
    else cplx_fftvec_twiddle_avx512(&p, a, b, om);
    for (size_t j = 0; j < 2 * m; ++j) {
      if (!k.near(nm, j, a[j], exa[j], S[j], 3)) return;
      if (!k.near(nm, j, b[j], exb[j], S[j], 3)) return;
    }
  }
  k.finish();
}

// ================================================================================================ reim4 block kernels
// kind 0 extract_1blk_from_reim, 1 save_1blk_to_reim, 2 extract_1blk_from_contiguous_reim, 3 ..._contiguous_reim_sl
static void run_reim4_move(Case& k, int kind) {
  const uint64_t m = 1ull << k.lg;
  const uint64_t blk = k.sh(0, 16) % (m / 4);
  const uint64_t nrows = kind >= 2 ? 1 + k.sh(16, 4) % 12 : 1;
  const uint64_t sl = kind == 3 ? 2 * m + k.sh(20, 4) : 2 * m;  // slice (in doubles) between consecutive reim vectors: any value >= 2m, not only multiples of 4
  const size_t srcn = kind == 1 ? 8 : (nrows - 1) * sl + 2 * m;
  const size_t dstn = kind == 1 ? 2 * m : 8 * nrows;
  double* src = k.in<double>(srcn, 1);
  fill_d(src, srcn, k.fam, k.r);
  for (size_t i = 0; i < srcn; ++i)
    if (src[i] == 0.0 && (k.fam & 8)) src[i] = (double)(i + 1);  // injective probe: every element distinct
  k.freeze(src, srcn * 8);
  double *d0 = k.out<double>(dstn, 3), *d1 = k.out<double>(dstn, 0);
  switch (kind) {
    case 0:
      reim4_extract_1blk_from_reim_ref(m, blk, d0, src);
      reim4_extract_1blk_from_reim_avx(m, blk, d1, src);
      break;
    case 1:
      reim4_save_1blk_to_reim_ref(m, blk, d0, src);
      reim4_save_1blk_to_reim_avx(m, blk, d1, src);
      break;
    case 2:
      reim4_extract_1blk_from_contiguous_reim_ref(m, nrows, blk, d0, src);
      reim4_extract_1blk_from_contiguous_reim_avx(m, nrows, blk, d1, src);
      break;
    default:
      reim4_extract_1blk_from_contiguous_reim_sl_ref(m, sl, nrows, blk, d0, src);
      reim4_extract_1blk_from_contiguous_reim_sl_avx(m, sl, nrows, blk, d1, src);
  }
  if (!k.same("ref", "avx", d0, d1, dstn)) return;
  // value (the documented definition: dst[i] = src[i](blk), block = 4 real parts then 4 imaginary parts)
  if (kind == 1) {
    for (int q = 0; q < 4; ++q)
      if (memcmp(&d1[4 * blk + q], &src[q], 8) || memcmp(&d1[m + 4 * blk + q], &src[4 + q], 8))
        return k.c.failf("%s: avx wrote block %llu of a reim vector of m=%llu incorrectly", k.name, (unsigned long long)blk, (unsigned long long)m);
  } else {
    for (uint64_t i = 0; i < nrows; ++i)
      for (int q = 0; q < 4; ++q)
        if (memcmp(&d1[8 * i + q], &src[i * sl + 4 * blk + q], 8) || memcmp(&d1[8 * i + 4 + q], &src[i * sl + m + 4 * blk + q], 8))
          return k.c.failf("%s: avx extracted block %llu of row %llu (m=%llu) incorrectly", k.name, (unsigned long long)blk, (unsigned long long)i,
                           (unsigned long long)m);
  }
  k.finish();
}

// dst = sum_i u[i]*v[i] over nrows reim4 blocks; cols = 1 or 2
static void run_reim4_mat(Case& k, int cols) {
  uint64_t nrows = (1ull << k.lg) + k.sh(0, 16) % (1ull << k.lg);  // [2^lg, 2^(lg+1))
  const size_t un = 8 * nrows, vn = 8 * cols * nrows;
  double *u = k.in<double>(un, 1), *v = k.in<double>(vn, 2);
  fill_d(u, un, k.fam, k.r);
  fill_d(v, vn, (int)k.sh(20, 3), k.r);
  k.freeze(u, un * 8);
  k.freeze(v, vn * 8);
  std::vector<long double> ex(8 * cols, 0), S(8 * cols, 0);
  for (uint64_t i = 0; i < nrows; ++i)
    for (int c = 0; c < cols; ++c)
      for (int q = 0; q < 4; ++q) {
        long double ur = u[8 * i + q], ui = u[8 * i + 4 + q];
        long double vr = v[8 * cols * i + 8 * c + q], vi = v[8 * cols * i + 8 * c + 4 + q];
        ex[8 * c + q] += ur * vr - ui * vi;
        S[8 * c + q] += fabsl(ur * vr) + fabsl(ui * vi);
        ex[8 * c + 4 + q] += ur * vi + ui * vr;
        S[8 * c + 4 + q] += fabsl(ur * vi) + fabsl(ui * vr);
      }
  // the long-double accumulation itself rounds: 2*nrows additions of relative 2^-64 each -> covered by terms*2^-62*S
  for (int var = 0; var < 2; ++var) {
    double* d = k.out<double>(8 * cols, var ? 0 : 3);
    if (cols == 1) (var ? reim4_vec_mat1col_product_avx2 : reim4_vec_mat1col_product_ref)(nrows, d, u, v);
    else (var ? reim4_vec_mat2cols_product_avx2 : reim4_vec_mat2cols_product_ref)(nrows, d, u, v);
    for (int j = 0; j < 8 * cols; ++j)
      if (!k.near(var ? "avx2" : "ref", j, d[j], ex[j], S[j], (int)(2 * nrows))) return;
  }
  k.c.cls(std::string(k.name) + (nrows & 1 ? ":nrows odd" : ":nrows even"));
  k.finish();
}

static void run_reim4_conv(Case& k, bool to_cplx) {
  const uint64_t m = 1ull << k.lg;
  double* x = k.in<double>(2 * m, 1);
  fill_d(x, 2 * m, k.fam, k.r);
  if (k.fam & 8)
    for (uint64_t i = 0; i < 2 * m; ++i) x[i] = (double)(i + 1);
  k.freeze(x, 2 * m * 8);
  double *r0 = k.out<double>(2 * m, 3), *r1 = k.out<double>(2 * m, 0);
  if (to_cplx) {
    REIM4_TO_CPLX_PRECOMP p;
    p.function = nullptr;
    p.m = (int64_t)m;
    reim4_to_cplx_ref(&p, r0, x);
    reim4_to_cplx_fma(&p, r1, x);
  } else {
    REIM4_FROM_CPLX_PRECOMP p;
    p.function = nullptr;
    p.m = (int64_t)m;
    reim4_from_cplx_ref(&p, r0, x);
    reim4_from_cplx_fma(&p, r1, x);
  }
  if (!k.same("ref", "fma", r0, r1, 2 * m)) return;
  k.finish();
}

// ================================================================================================ lazy q120 products
static const uint64_t QS[4] = {Q1, Q2, Q3, Q4};

static uint64_t q120_ell(const Case& k) {
  uint64_t lo = 1ull << k.lg;
  uint64_t ell = lo + k.sh(0, 16) % lo;
  if (k.sh(16, 2) == 0) ell = lo;                       // exact powers of two
  if (k.lg == 13 && k.sh(18, 2) == 0) ell = MAX_ELL - 1;  // documented maximum: ell < 10000
  return std::min<uint64_t>(ell, MAX_ELL - 1);
}
// one word of layout a (< 2^32), b (< 2^64) ; family-dependent extremes
static uint64_t q120_word(Case& k, int fam, bool wide, int prime) {
  uint64_t top = wide ? ~0ull : 0xFFFFFFFFull;
  switch (fam & 7) {
    case 0: return k.r.next() & top;
    case 1: return top;                                   // all maximal: the accumulators' worst case
    case 2: return top - k.r.below(3);
    case 3: return k.r.below(QS[prime]);                  // reduced representatives
    case 4: return k.r.below(4) == 0 ? 0 : (k.r.next() & top);
    case 5: return (k.r.next() & 1) ? top : 0;
    case 6: return wide ? (k.r.next() | 0xFFFFFFFF00000000ull) : (k.r.next() & top) | 0x80000000ull;
    default: return k.r.below(1000);
  }
}
// one entry of layout c for prime j: (y mod q, 2^32*y mod q), any representatives below 2^32
static uint64_t q120_cword(Case& k, int fam, int prime, uint64_t* ylo) {
  const uint64_t q = QS[prime];
  uint64_t y0 = q120_word(k, fam, false, prime);
  uint64_t y1 = (uint64_t)(((u128)y0 << 32) % q);
  uint64_t room = (0xFFFFFFFFull - y1) / q;  // non-unique representatives are allowed: add a multiple of q
  if (room && (fam & 7) != 3) y1 += q * ((fam & 7) == 1 || (fam & 7) == 2 ? room : k.r.below(room + 1));
  *ylo = y0;
  return y0 | (y1 << 32);
}

static bool q120_check(Case& k, const char* kern, const uint64_t* got, const uint64_t* expect_mod, size_t nwords) {
  for (size_t j = 0; j < nwords; ++j) {
    uint64_t q = QS[j % 4];
    if (got[j] % q != expect_mod[j])
      return k.c.failf("%s: %s result word %zu = %llu = %llu mod q%zu, exact sum of products is %llu mod q%zu", k.name, kern, j,
                       (unsigned long long)got[j], (unsigned long long)(got[j] % q), j % 4 + 1, (unsigned long long)expect_mod[j], j % 4 + 1),
             false;
  }
  return true;
}

// kind 0 baa, 1 bbb, 2 bbc, 3 x2 mat1col bbc, 4 x2 mat2cols bbc
static void run_q120(Case& k, int kind) {
  const uint64_t ell = q120_ell(k);
  const int xw = kind >= 3 ? 8 : 4;                       // words of x per row
  const int yw = kind == 4 ? 16 : kind == 3 ? 8 : 4;      // 64-bit words of y per row
  const int rw = kind == 4 ? 16 : kind == 3 ? 8 : 4;
  uint64_t *x = k.in<uint64_t>(xw * ell, 1), *y = k.in<uint64_t>(yw * ell, 2);
  std::vector<uint64_t> ylo(yw * ell);
  const int fx = k.fam, fy = (int)k.sh(20, 3);  // independent families for x and y
  for (uint64_t i = 0; i < ell; ++i) {
    for (int j = 0; j < xw; ++j) x[xw * i + j] = q120_word(k, fx, kind != 0, j % 4);
    for (int j = 0; j < yw; ++j) {
      if (kind == 0) ylo[yw * i + j] = y[yw * i + j] = q120_word(k, fy, false, j % 4);
      else if (kind == 1) ylo[yw * i + j] = y[yw * i + j] = q120_word(k, fy, true, j % 4);
      else y[yw * i + j] = q120_cword(k, fy, j % 4, &ylo[yw * i + j]);
    }
  }
  if (x[0] == 0) x[0] = 1;
  if (ylo[0] == 0 && kind < 2) y[0] = ylo[0] = 1;
  k.freeze(x, xw * ell * 8);
  k.freeze(y, yw * ell * 8);
  // exact: result word (c, j) = sum_i x[i][xc][j] * ylo[i][yc][j]  mod q_j
  std::vector<uint64_t> ex(rw, 0);
  for (int w = 0; w < rw; ++w) {
    int j = w % 4, blk = w / 4;
    int xc = kind == 4 ? blk % 2 : blk, yc = blk;
    u128 acc = 0;
    for (uint64_t i = 0; i < ell; ++i) {
      uint64_t xv = x[xw * i + 4 * xc + j] % QS[j], yv = ylo[yw * i + 4 * yc + j] % QS[j];
      acc += (u128)xv * yv;  // < 10^4 * 2^60
    }
    ex[w] = (uint64_t)(acc % QS[j]);
  }
  uint64_t *r0 = k.out<uint64_t>(rw, 3), *r1 = k.out<uint64_t>(rw, 0);
  switch (kind) {
    case 0: {
      q120_mat1col_product_baa_precomp* p = q120_new_vec_mat1col_product_baa_precomp();
      q120_vec_mat1col_product_baa_ref(p, ell, (q120b*)r0, (q120a*)x, (q120a*)y);
      q120_vec_mat1col_product_baa_avx2(p, ell, (q120b*)r1, (q120a*)x, (q120a*)y);
      q120_delete_vec_mat1col_product_baa_precomp(p);
      break;
    }
    case 1: {
      q120_mat1col_product_bbb_precomp* p = q120_new_vec_mat1col_product_bbb_precomp();
      q120_vec_mat1col_product_bbb_ref(p, ell, (q120b*)r0, (q120b*)x, (q120b*)y);
      q120_vec_mat1col_product_bbb_avx2(p, ell, (q120b*)r1, (q120b*)x, (q120b*)y);
      q120_delete_vec_mat1col_product_bbb_precomp(p);
      break;
    }
    default: {
      q120_mat1col_product_bbc_precomp* p = q120_new_vec_mat1col_product_bbc_precomp();
      if (kind == 2) {
        q120_vec_mat1col_product_bbc_ref(p, ell, (q120b*)r0, (q120b*)x, (q120c*)y);
        q120_vec_mat1col_product_bbc_avx2(p, ell, (q120b*)r1, (q120b*)x, (q120c*)y);
      } else if (kind == 3) {
        q120x2_vec_mat1col_product_bbc_ref(p, ell, (q120b*)r0, (q120b*)x, (q120c*)y);
        q120x2_vec_mat1col_product_bbc_avx2(p, ell, (q120b*)r1, (q120b*)x, (q120c*)y);
      } else {
        q120x2_vec_mat2cols_product_bbc_ref(p, ell, (q120b*)r0, (q120b*)x, (q120c*)y);
        q120x2_vec_mat2cols_product_bbc_avx2(p, ell, (q120b*)r1, (q120b*)x, (q120c*)y);
      }
      q120_delete_vec_mat1col_product_bbc_precomp(p);
    }
  }
  if (!q120_check(k, "ref", r0, ex.data(), rw)) return;
  if (!q120_check(k, "avx2", r1, ex.data(), rw)) return;
  if (ell == MAX_ELL - 1) k.c.cls(std::string(k.name) + ":ell=9999");
  k.finish();
}

// ================================================================================================ vmp ref vs avx (FFT64 module)
// kind 0 prepare_contiguous (bit-identical), 1 apply_dft_to_dft, 2 apply_dft (floating: differential within twice the
// per-variant bound; S from a layout-agnostic upper bound sum_i 2*max|a_i^|*max|M_ij^|)
static void run_vmp(Case& k, int kind) {
  const uint64_t nn = 1ull << k.lg, m = nn / 2;
  MODULE* mod = spq::modules().get(nn, FFT64, 0);
  const uint64_t cap = k.lg >= 10 ? 3 : 6;
  const uint64_t nrows = 1 + k.sh(0, 3) % cap, ncols = 1 + k.sh(3, 3) % cap;
  uint64_t a_size = k.sh(6, 3) % (cap + 2), res_size = k.sh(9, 3) % (cap + 2);
  const uint64_t a_sl = nn + k.sh(12, 2);
  const int bits = 1 + (int)k.sh(14, 5) % 24;
  const int64_t M = ((int64_t)1 << bits) - 1;
  int64_t* mat = k.in<int64_t>(nrows * ncols * nn, 1);
  for (uint64_t i = 0; i < nrows * ncols; ++i) pat::fill(mat + i * nn, nn, (k.fam + (int)i) & 7, M, k.r.next(), k.r);
  if (orc::count_nonzero(nn, mat) == 0) mat[0] = M;
  k.freeze(mat, nrows * ncols * nn * 8);
  const size_t pmb = bytes_of_vmp_pmat(mod, nrows, ncols);
  if (kind == 0) {
    uint8_t *p0 = k.raw(pmb, 3, 3, k.seed).p, *p1 = k.raw(pmb, 0, 3, k.seed).p;
    uint8_t *t0 = k.raw(vmp_prepare_contiguous_tmp_bytes(mod, nrows, ncols), 2, 1).p, *t1 = k.raw(vmp_prepare_contiguous_tmp_bytes(mod, nrows, ncols), 2, 2).p;
    fft64_vmp_prepare_contiguous_ref(mod, (VMP_PMAT*)p0, mat, nrows, ncols, t0);
    fft64_vmp_prepare_contiguous_avx(mod, (VMP_PMAT*)p1, mat, nrows, ncols, t1);
    if (!k.same("ref", "avx", (double*)p0, (double*)p1, pmb / 8, "prepared matrix double")) return;
    k.c.cls(std::string(k.name) + (ncols & 1 ? ":ncols odd" : ":ncols even"));
    k.finish();
    return;
  }
  const uint64_t rows = std::min(nrows, a_size), cols = std::min(ncols, res_size);
  int64_t* a = k.in<int64_t>(a_size ? (a_size - 1) * a_sl + nn : 0, 2);
  for (uint64_t i = 0; i < a_size; ++i) pat::fill(a + i * a_sl, nn, ((k.fam >> 1) + (int)i) & 7, M, k.r.next(), k.r);
  if (a_size && orc::count_nonzero(nn, a) == 0) a[0] = -M;
  k.freeze(a, (a_size ? (a_size - 1) * a_sl + nn : 0) * 8);
  uint8_t* pm = k.raw(pmb, 3, 3, k.seed).p;
  {
    uint8_t* t = k.raw(vmp_prepare_contiguous_tmp_bytes(mod, nrows, ncols), -1, 1).p;
    vmp_prepare_contiguous(mod, (VMP_PMAT*)pm, mat, nrows, ncols, t);
  }
  k.freeze(pm, pmb);
  // DFT images through the public API (values only; no layout of the prepared matrix is assumed)
  std::vector<double> adft(std::max<uint64_t>(a_size, 1) * nn), mdft(nn);
  vec_znx_dft(mod, (VEC_ZNX_DFT*)adft.data(), a_size, a, a_size, a_sl);
  std::vector<long double> amax(rows, 0);
  for (uint64_t i = 0; i < rows; ++i)
    for (uint64_t q = 0; q < nn; ++q) amax[i] = std::max(amax[i], fabsl((long double)adft[i * nn + q]));
  std::vector<long double> S(cols, 0);
  for (uint64_t i = 0; i < rows; ++i)
    for (uint64_t j = 0; j < cols; ++j) {
      vec_znx_dft(mod, (VEC_ZNX_DFT*)mdft.data(), 1, mat + (i * ncols + j) * nn, 1, nn);
      long double mm = 0;
      for (uint64_t q = 0; q < nn; ++q) mm = std::max(mm, fabsl((long double)mdft[q]));
      S[j] += 2 * amax[i] * mm;
    }
  const size_t rb = bytes_of_vec_znx_dft(mod, res_size);
  double *r0 = (double*)k.raw(rb, 0, 3, k.seed + 5).p, *r1 = (double*)k.raw(rb, 1, 3, k.seed + 5).p;
  if (kind == 1) {
    double* ad = (double*)k.raw(a_size * nn * 8, 2, 0).p;
    memcpy(ad, adft.data(), a_size * nn * 8);
    k.freeze(ad, a_size * nn * 8);
    const size_t tb = vmp_apply_dft_to_dft_tmp_bytes(mod, res_size, a_size, nrows, ncols);
    uint8_t *t0 = k.raw(tb, 2, 1).p, *t1 = k.raw(tb, 3, 2).p;
    fft64_vmp_apply_dft_to_dft_ref(mod, (VEC_ZNX_DFT*)r0, res_size, (VEC_ZNX_DFT*)ad, a_size, (VMP_PMAT*)pm, nrows, ncols, t0);
    fft64_vmp_apply_dft_to_dft_avx(mod, (VEC_ZNX_DFT*)r1, res_size, (VEC_ZNX_DFT*)ad, a_size, (VMP_PMAT*)pm, nrows, ncols, t1);
  } else {
    const size_t tb = vmp_apply_dft_tmp_bytes(mod, res_size, a_size, nrows, ncols);
    uint8_t *t0 = k.raw(tb, 2, 1).p, *t1 = k.raw(tb, 3, 2).p;
    fft64_vmp_apply_dft_ref(mod, (VEC_ZNX_DFT*)r0, res_size, a, a_size, a_sl, (VMP_PMAT*)pm, nrows, ncols, t0);
    fft64_vmp_apply_dft_avx(mod, (VEC_ZNX_DFT*)r1, res_size, a, a_size, a_sl, (VMP_PMAT*)pm, nrows, ncols, t1);
  }
  const int terms = (int)(2 * std::max<uint64_t>(rows, 1));
  for (uint64_t j = 0; j < res_size; ++j)
    for (uint64_t q = 0; q < nn; ++q) {
      double x = r0[j * nn + q], y = r1[j * nn + q];
      if (j >= cols) {
        if (x != 0 || y != 0) return k.c.failf("%s: column %llu beyond the product must be zero: ref %a avx %a", k.name, (unsigned long long)j, x, y);
        continue;
      }
      long double tol = 2 * ((2 * terms + 4) * U53) * S[j] * (1 + 1e-9L);
      long double err = fabsl((long double)x - (long double)y);
      if (!(err <= tol))
        return k.c.failf("%s: column %llu entry %llu: ref = %a, avx = %a, |diff| = %.3Lg > %.3Lg = 2*(2*%d+4)*2^-53*S (N=%llu %llux%llu a_size=%llu res_size=%llu)",
                         k.name, (unsigned long long)j, (unsigned long long)q, x, y, err, tol, terms, (unsigned long long)nn,
                         (unsigned long long)nrows, (unsigned long long)ncols, (unsigned long long)a_size, (unsigned long long)res_size);
      if (tol > 0 && (double)(err / tol) > k.worst) k.worst = (double)(err / tol);
    }
  (void)m;
  k.c.cls(std::string(k.name) + (cols & 1 ? ":cols odd" : ":cols even"));
  if (res_size < ncols && (res_size & 1)) k.c.cls(std::string(k.name) + ":odd res_size<ncols");
  k.finish();
}

// ================================================================================================ the table
#define FP(f) ((const void*)(f))
static std::vector<PairDef> make_table() {
  std::vector<PairDef> t;
  auto add = [&](const char* name, int lgmin, int lgmax, int lgthr, int lglarge, bool need512, const void* fr, const void* fa,
                 std::function<void(Case&)> run) { t.push_back({name, lgmin, lgmax, lgthr, lglarge, need512, fr, fa, run}); };
  // ---- integer / data movement
  add("znx_add_i64", 0, 16, 0, 10, false, FP(znx_add_i64_ref), FP(znx_add_i64_avx), [](Case& k) { run_znx3(k, znx_add_i64_ref, znx_add_i64_avx, 0); });
  add("znx_sub_i64", 0, 16, 0, 10, false, FP(znx_sub_i64_ref), FP(znx_sub_i64_avx), [](Case& k) { run_znx3(k, znx_sub_i64_ref, znx_sub_i64_avx, 1); });
  add("znx_negate_i64", 0, 16, 0, 10, false, FP(znx_negate_i64_ref), FP(znx_negate_i64_avx), [](Case& k) { run_znx2(k, znx_negate_i64_ref, znx_negate_i64_avx); });
  add("rnx_divide_by_m", 0, 16, 0, 10, false, FP(rnx_divide_by_m_ref), FP(rnx_divide_by_m_avx), run_rnx_divide);
  add("vec_znx_add", 1, 14, 1, 10, false, FP(vec_znx_add_ref), FP(vec_znx_add_avx), [](Case& k) { run_vec_znx(k, 0); });
  add("vec_znx_sub", 1, 14, 1, 10, false, FP(vec_znx_sub_ref), FP(vec_znx_sub_avx), [](Case& k) { run_vec_znx(k, 1); });
  add("vec_znx_negate", 1, 14, 1, 10, false, FP(vec_znx_negate_ref), FP(vec_znx_negate_avx), [](Case& k) { run_vec_znx(k, 2); });
  // ---- conversions (avx kernels are dispatched for m >= 8)
  add("reim_from_znx64", 3, 16, 3, 10, false, FP(reim_from_znx64_ref), FP(reim_from_znx64_bnd50_fma), run_from_znx64);
  add("reim_to_znx64", 3, 16, 3, 10, false, FP(reim_to_znx64_ref), FP(reim_to_znx64_avx2_bnd50_fma), run_to_znx64);
  add("reim_to_tnx", 3, 16, 3, 10, false, FP(reim_to_tnx_ref), FP(reim_to_tnx_avx), run_to_tnx);
  add("cplx_from_znx32", 3, 16, 3, 10, false, FP(cplx_from_znx32_ref), FP(cplx_from_znx32_avx2_fma), [](Case& k) { run_cplx_from32(k, false); });
  add("cplx_from_tnx32", 3, 16, 3, 10, false, FP(cplx_from_tnx32_ref), FP(cplx_from_tnx32_avx2_fma), [](Case& k) { run_cplx_from32(k, true); });
  add("cplx_to_tnx32", 3, 16, 3, 10, false, FP(cplx_to_tnx32_ref), FP(cplx_to_tnx32_avx2_fma), run_cplx_to_tnx32);
  // ---- FFT drivers (reim: dispatched on "fma" for every m, accelerated code from m=4; cplx: m >= 8) and leaves
  add("reim_fft", 0, 16, 2, 12, false, FP(reim_fft_ref), FP(reim_fft_avx2_fma), [](Case& k) { run_fft_driver(k, 0); });
  add("reim_ifft", 0, 16, 2, 12, false, FP(reim_ifft_ref), FP(reim_ifft_avx2_fma), [](Case& k) { run_fft_driver(k, 1); });
  add("cplx_fft", 3, 16, 3, 12, false, FP(cplx_fft_ref), FP(cplx_fft_avx2_fma), [](Case& k) { run_fft_driver(k, 2); });
  add("cplx_ifft", 3, 16, 3, 12, false, FP(cplx_ifft_ref), FP(cplx_ifft_avx2_fma), [](Case& k) { run_fft_driver(k, 3); });
  add("reim_fft4", 2, 2, 2, 2, false, FP(reim_fft4_ref), FP(reim_fft4_avx_fma), [](Case& k) { run_fft_leaf(k, 0, 4); });
  add("reim_fft8", 3, 3, 3, 3, false, FP(reim_fft8_ref), FP(reim_fft8_avx_fma), [](Case& k) { run_fft_leaf(k, 0, 8); });
  add("reim_fft16", 4, 4, 4, 4, false, FP(reim_fft16_ref), FP(reim_fft16_avx_fma), [](Case& k) { run_fft_leaf(k, 0, 16); });
  add("reim_ifft4", 2, 2, 2, 2, false, FP(reim_ifft4_ref), FP(reim_ifft4_avx_fma), [](Case& k) { run_fft_leaf(k, 1, 4); });
  add("reim_ifft8", 3, 3, 3, 3, false, FP(reim_ifft8_ref), FP(reim_ifft8_avx_fma), [](Case& k) { run_fft_leaf(k, 1, 8); });
  add("reim_ifft16", 4, 4, 4, 4, false, FP(reim_ifft16_ref), FP(reim_ifft16_avx_fma), [](Case& k) { run_fft_leaf(k, 1, 16); });
  add("cplx_fft16", 4, 4, 4, 4, false, FP(cplx_fft16_ref), FP(cplx_fft16_avx_fma), [](Case& k) { run_fft_leaf(k, 2, 16); });
  add("cplx_ifft16", 4, 4, 4, 4, false, FP(cplx_ifft16_ref), FP(cplx_ifft16_avx_fma), [](Case& k) { run_fft_leaf(k, 3, 16); });
  // ---- fftvec
  add("reim_fftvec_mul", 2, 16, 2, 10, false, FP(reim_fftvec_mul_ref), FP(reim_fftvec_mul_fma), [](Case& k) {
    run_fftvec(k, L_REIM, false, {{"ref", wrap<REIM_FFTVEC_MUL_PRECOMP>(reim_fftvec_mul_ref)}, {"fma", wrap<REIM_FFTVEC_MUL_PRECOMP>(reim_fftvec_mul_fma)}});
  });
  add("reim_fftvec_addmul", 2, 16, 2, 10, false, FP(reim_fftvec_addmul_ref), FP(reim_fftvec_addmul_fma), [](Case& k) {
    run_fftvec(k, L_REIM, true, {{"ref", wrap<REIM_FFTVEC_ADDMUL_PRECOMP>(reim_fftvec_addmul_ref)}, {"fma", wrap<REIM_FFTVEC_ADDMUL_PRECOMP>(reim_fftvec_addmul_fma)}});
  });
  add("reim4_fftvec_mul", 2, 16, 2, 10, false, FP(reim4_fftvec_mul_ref), FP(reim4_fftvec_mul_fma), [](Case& k) {
    run_fftvec(k, L_REIM4, false, {{"ref", wrap<REIM4_FFTVEC_MUL_PRECOMP>(reim4_fftvec_mul_ref)}, {"fma", wrap<REIM4_FFTVEC_MUL_PRECOMP>(reim4_fftvec_mul_fma)}});
  });
  add("reim4_fftvec_addmul", 2, 16, 2, 10, false, FP(reim4_fftvec_addmul_ref), FP(reim4_fftvec_addmul_fma), [](Case& k) {
    run_fftvec(k, L_REIM4, true, {{"ref", wrap<REIM4_FFTVEC_ADDMUL_PRECOMP>(reim4_fftvec_addmul_ref)}, {"fma", wrap<REIM4_FFTVEC_ADDMUL_PRECOMP>(reim4_fftvec_addmul_fma)}});
  });
  auto cw_mul = [](void (*f)(const CPLX_FFTVEC_MUL_PRECOMP*, void*, const void*, const void*)) {
    return wrap<CPLX_FFTVEC_MUL_PRECOMP>([f](const CPLX_FFTVEC_MUL_PRECOMP* p, double* r, const double* a, const double* b) { f(p, r, a, b); });
  };
  auto cw_add = [](void (*f)(const CPLX_FFTVEC_ADDMUL_PRECOMP*, void*, const void*, const void*)) {
    return wrap<CPLX_FFTVEC_ADDMUL_PRECOMP>([f](const CPLX_FFTVEC_ADDMUL_PRECOMP* p, double* r, const double* a, const double* b) { f(p, r, a, b); });
  };
  add("cplx_fftvec_mul", 3, 16, 3, 10, false, FP(cplx_fftvec_mul_ref), FP(cplx_fftvec_mul_fma),
      [=](Case& k) { run_fftvec(k, L_CPLX, false, {{"ref", cw_mul(cplx_fftvec_mul_ref)}, {"fma", cw_mul(cplx_fftvec_mul_fma)}}); });
  add("cplx_fftvec_addmul_fma", 3, 16, 3, 10, false, FP(cplx_fftvec_addmul_ref), FP(cplx_fftvec_addmul_fma),
      [=](Case& k) { run_fftvec(k, L_CPLX, true, {{"ref", cw_add(cplx_fftvec_addmul_ref)}, {"fma", cw_add(cplx_fftvec_addmul_fma)}}); });
  add("cplx_fftvec_addmul_sse", 1, 16, 1, 10, false, FP(cplx_fftvec_addmul_ref), FP(cplx_fftvec_addmul_sse),
      [=](Case& k) { run_fftvec(k, L_CPLX, true, {{"ref", cw_add(cplx_fftvec_addmul_ref)}, {"sse", cw_add(cplx_fftvec_addmul_sse)}}); });
  add("cplx_fftvec_addmul_avx512", 3, 16, 3, 10, true, FP(cplx_fftvec_addmul_ref), FP(cplx_fftvec_addmul_avx512),
      [=](Case& k) { run_fftvec(k, L_CPLX, true, {{"ref", cw_add(cplx_fftvec_addmul_ref)}, {"avx512", cw_add(cplx_fftvec_addmul_avx512)}}); });
  add("cplx_fftvec_twiddle_fma", 3, 14, 3, 10, false, FP(cplx_twiddle_fft_ref), FP(cplx_fftvec_twiddle_fma), [](Case& k) { run_twiddle(k, false); });
  add("cplx_fftvec_twiddle_avx512", 4, 14, 4, 10, true, FP(cplx_twiddle_fft_ref), FP(cplx_fftvec_twiddle_avx512), [](Case& k) { run_twiddle(k, true); });
  // ---- reim4 (m >= 4: a reim4 block is 4 complexes)
  add("reim4_extract_1blk_from_reim", 2, 16, 2, 10, false, FP(reim4_extract_1blk_from_reim_ref), FP(reim4_extract_1blk_from_reim_avx), [](Case& k) { run_reim4_move(k, 0); });
  add("reim4_save_1blk_to_reim", 2, 16, 2, 10, false, FP(reim4_save_1blk_to_reim_ref), FP(reim4_save_1blk_to_reim_avx), [](Case& k) { run_reim4_move(k, 1); });
  add("reim4_extract_1blk_from_contiguous_reim", 2, 14, 2, 10, false, FP(reim4_extract_1blk_from_contiguous_reim_ref),
      FP(reim4_extract_1blk_from_contiguous_reim_avx), [](Case& k) { run_reim4_move(k, 2); });
  add("reim4_extract_1blk_from_contiguous_reim_sl", 2, 14, 2, 10, false, FP(reim4_extract_1blk_from_contiguous_reim_sl_ref),
      FP(reim4_extract_1blk_from_contiguous_reim_sl_avx), [](Case& k) { run_reim4_move(k, 3); });
  add("reim4_vec_mat1col_product", 0, 11, 0, 6, false, FP(reim4_vec_mat1col_product_ref), FP(reim4_vec_mat1col_product_avx2), [](Case& k) { run_reim4_mat(k, 1); });
  add("reim4_vec_mat2cols_product", 0, 11, 0, 6, false, FP(reim4_vec_mat2cols_product_ref), FP(reim4_vec_mat2cols_product_avx2), [](Case& k) { run_reim4_mat(k, 2); });
  add("reim4_from_cplx", 2, 16, 2, 10, false, FP(reim4_from_cplx_ref), FP(reim4_from_cplx_fma), [](Case& k) { run_reim4_conv(k, false); });
  add("reim4_to_cplx", 2, 16, 2, 10, false, FP(reim4_to_cplx_ref), FP(reim4_to_cplx_fma), [](Case& k) { run_reim4_conv(k, true); });
  // ---- q120 (size = ell in [2^lg, 2^(lg+1)), ell < 10000)
  add("q120_vec_mat1col_product_baa", 0, 13, 0, 10, false, FP(q120_vec_mat1col_product_baa_ref), FP(q120_vec_mat1col_product_baa_avx2), [](Case& k) { run_q120(k, 0); });
  add("q120_vec_mat1col_product_bbb", 0, 13, 0, 10, false, FP(q120_vec_mat1col_product_bbb_ref), FP(q120_vec_mat1col_product_bbb_avx2), [](Case& k) { run_q120(k, 1); });
  add("q120_vec_mat1col_product_bbc", 0, 13, 0, 10, false, FP(q120_vec_mat1col_product_bbc_ref), FP(q120_vec_mat1col_product_bbc_avx2), [](Case& k) { run_q120(k, 2); });
  add("q120x2_vec_mat1col_product_bbc", 0, 13, 0, 10, false, FP(q120x2_vec_mat1col_product_bbc_ref), FP(q120x2_vec_mat1col_product_bbc_avx2), [](Case& k) { run_q120(k, 3); });
  add("q120x2_vec_mat2cols_product_bbc", 0, 13, 0, 10, false, FP(q120x2_vec_mat2cols_product_bbc_ref), FP(q120x2_vec_mat2cols_product_bbc_avx2), [](Case& k) { run_q120(k, 4); });
  // ---- vmp (size = N; the reim4 code path starts at N = 8)
  add("fft64_vmp_prepare_contiguous", 1, 12, 3, 9, false, FP(fft64_vmp_prepare_contiguous_ref), FP(fft64_vmp_prepare_contiguous_avx), [](Case& k) { run_vmp(k, 0); });
  add("fft64_vmp_apply_dft_to_dft", 1, 12, 3, 9, false, FP(fft64_vmp_apply_dft_to_dft_ref), FP(fft64_vmp_apply_dft_to_dft_avx), [](Case& k) { run_vmp(k, 1); });
  add("fft64_vmp_apply_dft", 1, 12, 3, 9, false, FP(fft64_vmp_apply_dft_ref), FP(fft64_vmp_apply_dft_avx), [](Case& k) { run_vmp(k, 2); });
  return t;
}
static const std::vector<PairDef>& table() {
  static std::vector<PairDef> t = make_table();
  return t;
}

static void run_pair(const Vals& v, Ctx& c) {
  // fields: pair lg shape mis0 mis1 mis2 mis3 fam seed
  const auto& T = table();
  const PairDef& pd = T[(size_t)v[0] % T.size()];
  Case k(c, (uint64_t)v[8]);
  k.pid = (int)((size_t)v[0] % T.size());
  k.name = pd.name;
  g_names[k.pid] = pd.name;
  int lg = (int)v[1];
  if (lg < pd.lgmin || lg > pd.lgmax) lg = pd.lgmin + lg % (pd.lgmax - pd.lgmin + 1);
  k.lg = lg;
  k.shape = (uint64_t)v[2];
  for (int i = 0; i < 4; ++i) k.mis[i] = (int)v[3 + i];
  k.fam = (int)v[7];
  c.notef("pair %s size 2^%d shape %llu misalign(bytes) %d/%d/%d/%d family %d", pd.name, lg, (unsigned long long)k.shape, 8 * k.mis[0],
          8 * k.mis[1], 8 * k.mis[2], 8 * k.mis[3], k.fam);
  if (pd.need512 && !__builtin_cpu_supports("avx512f")) {
    c.cls("skipped:no-avx512f");
    return;
  }
  c.cls(std::string("pair:") + pd.name);
  if (lg == pd.lgthr) c.cls(std::string("pair:") + pd.name + "@threshold");
  if (lg >= pd.lglarge) c.cls(std::string("pair:") + pd.name + "@large");
  if (k.mis[0] | k.mis[1] | k.mis[2] | k.mis[3]) c.cls("misaligned");
  c.nontrivial = pd.fref != pd.facc && lg >= pd.lgthr;  // inputs are never all-zero by construction
  pd.run(k);
  if (!c.failed()) {
    double w = k.worst;
    if (w > 0) c.cls(w <= 1.0 / 16 ? "err/tol<=1/16" : w <= 0.25 ? "err/tol<=1/4" : w <= 0.5 ? "err/tol<=1/2" : "err/tol<=1");
  }
}

// ================================================================================================ api_masks
// largest operand magnitude (bits) for which the documented FFT64 bound E stays < 1/2 for `rows` accumulated products
static int exact_bits(uint64_t kk, uint64_t rows) {
  double b = (46.0 - 1.5 * (double)kk - std::log2((double)kk + 1) - std::log2((double)std::max<uint64_t>(rows, 1))) / 2;
  return (int)std::max(1.0, std::min(20.0, std::floor(b)));
}

enum ApiOp { A_SMALL = 0, A_SVP, A_VMP, A_ADD, A_SUB, A_NEG, A_ROT, A_AUT, A_NORM, A_CPLX, A_NOPS };
static const char* api_name(int op) {
  static const char* n[] = {"znx_small_single_product", "svp_prepare+svp_apply_dft+vec_znx_idft", "vmp_prepare_contiguous+vmp_apply_dft+vec_znx_idft_tmp_a",
                            "vec_znx_add", "vec_znx_sub", "vec_znx_negate", "vec_znx_rotate", "vec_znx_automorphism", "vec_znx_normalize_base2k",
                            "cplx_from_znx32+cplx_fft+cplx_fftvec_mul+cplx_ifft+cplx_to_tnx32"};
  return n[op];
}

static void run_api(const Vals& v, Ctx& c) {
  // fields: k op mtype shape p fam seed
  int op = (int)v[1];
  uint64_t kk = (uint64_t)v[0];
  const bool product = op <= A_VMP || op == A_CPLX;
  if (product && kk > 12) kk = 1 + (kk - 1) % 12;
  if (op == A_CPLX && kk < 2) kk = 2;
  const uint64_t n = 1ull << kk;
  const MODULE_TYPE mt = (!product && v[2]) ? NTT120 : FFT64;  // NTT120 modules only implement the generic vec_znx ops (+dft)
  const uint64_t shape = (uint64_t)v[3];
  auto sh = [&](int lo, int nb) { return (shape >> lo) & ((1ull << nb) - 1); };
  const int fam = (int)v[5];
  const uint64_t seed = (uint64_t)v[6];
  const uint64_t cap = kk >= 11 ? 3 : 6;
  // ---- shapes
  uint64_t a_size = sh(0, 3) % cap, b_size = sh(3, 3) % cap, res_size = sh(6, 3) % cap;
  const uint64_t a_sl = n + sh(9, 2), b_sl = n + sh(11, 2), res_sl = n + sh(13, 2);
  uint64_t nrows = 1 + sh(15, 3) % cap, ncols = 1 + sh(18, 3) % cap;
  const uint64_t log2_base2k = 1 + sh(21, 6) % 60;
  int64_t p = v[4];
  if (op == A_AUT) p |= 1;
  if (op == A_SVP || op == A_VMP) a_size = std::max<uint64_t>(a_size, 1), res_size = std::max<uint64_t>(res_size, 1);
  // ---- operands (generated once; identical for the four masks)
  Rng r(seed);
  auto ext = [&](uint64_t sz, uint64_t sl) { return sz ? (sz - 1) * sl + n : 0; };
  std::vector<int64_t> A(std::max<uint64_t>(ext(a_size, a_sl), n)), B(std::max<uint64_t>(ext(b_size, b_sl), n)), MAT;
  long double Esum = 0;
  if (product) {
    const uint64_t rows = op == A_VMP ? std::min(nrows, a_size) : 1;
    int bits = exact_bits(kk, rows);
    if (op == A_CPLX) bits = std::max(1, bits - 1);
    bits = 1 + (int)(sh(27, 4) % (uint64_t)bits);
    const int64_t M = ((int64_t)1 << bits) - 1;
    for (uint64_t i = 0; i < std::max<uint64_t>(a_size, 1); ++i) pat::fill(A.data() + i * a_sl, n, (fam + (int)i) & 7, M, r.next(), r);
    pat::fill(B.data(), n, (fam >> 3) & 7, M, r.next(), r);
    if (op == A_VMP) {
      MAT.resize(nrows * ncols * n);
      for (uint64_t i = 0; i < nrows * ncols; ++i) pat::fill(MAT.data() + i * n, n, ((fam >> 3) + (int)i) & 7, M, r.next(), r);
      for (uint64_t j = 0; j < ncols; ++j) {
        long double e = 0;
        for (uint64_t i = 0; i < rows; ++i) e += orc::fft64_E(n, orc::norms(n, A.data() + i * a_sl), orc::norms(n, MAT.data() + (i * ncols + j) * n));
        Esum = std::max(Esum, e);
      }
    } else {
      for (uint64_t i = 0; i < std::max<uint64_t>(a_size, 1); ++i)
        Esum = std::max(Esum, orc::fft64_E(n, orc::norms(n, A.data() + i * a_sl), orc::norms(n, B.data())));
    }
    if (!(Esum * (op == A_CPLX ? 2 : 1) < 0.5L)) {  // outside the exact regime: masks may legitimately differ
      c.discard = true;
      return;
    }
  } else {
    for (uint64_t i = 0; i < a_size; ++i) fill_i64(A.data() + i * a_sl, n, fam + (int)i, r);
    for (uint64_t i = 0; i < b_size; ++i) fill_i64(B.data() + i * b_sl, n, (fam >> 3) + (int)i, r);
  }
  c.notef("%s N=%llu %s a_size=%llu b_size=%llu res_size=%llu sl=%llu/%llu/%llu nrows=%llu ncols=%llu p=%lld base2k=%llu fam=%d", api_name(op),
          (unsigned long long)n, mt == FFT64 ? "FFT64" : "NTT120", (unsigned long long)a_size, (unsigned long long)b_size,
          (unsigned long long)res_size, (unsigned long long)a_sl, (unsigned long long)b_sl, (unsigned long long)res_sl,
          (unsigned long long)nrows, (unsigned long long)ncols, (long long)p, (unsigned long long)log2_base2k, fam);
  std::vector<int64_t> first;
  bool anynz = false;
  for (unsigned mask = 0; mask < 4; ++mask) {
    Arena ar;
    std::vector<int64_t> out;
    auto ibuf = [&](const std::vector<int64_t>& src, size_t words, int mode) {
      Buf b = ar.alloc(words * 8, mode);
      memcpy(b.p, src.data(), words * 8);
      return b.as<int64_t>();
    };
    if (op == A_CPLX) {
      const uint32_t m = (uint32_t)(n / 2);
      spq::MaskGuard g(mask);
      CPLX_FROM_ZNX32_PRECOMP* pf = new_cplx_from_znx32_precomp(m);
      CPLX_FFT_PRECOMP* pfft = new_cplx_fft_precomp(m, 0);
      CPLX_FFTVEC_MUL_PRECOMP* pmul = new_cplx_fftvec_mul_precomp(m);
      CPLX_IFFT_PRECOMP* pifft = new_cplx_ifft_precomp(m, 0);
      CPLX_TO_TNX32_PRECOMP* pto = new_cplx_to_tnx32_precomp(m, std::ldexp((double)m, 32), (uint32_t)(sh(21, 5) % 19));
      Buf xa = ar.alloc(n * 4, OVER), xb = ar.alloc(n * 4, UNDER), fa = ar.alloc(n * 8, OVER, 0, 1), fb = ar.alloc(n * 8, OVER, 0, 2),
          fr = ar.alloc(n * 8, UNDER, 0, 3, seed), ro = ar.alloc(n * 4, OVER, 0, 1);
      for (uint64_t i = 0; i < n; ++i) xa.as<int32_t>()[i] = (int32_t)A[i], xb.as<int32_t>()[i] = (int32_t)B[i];
      cplx_from_znx32(pf, fa.p, xa.as<int32_t>());
      cplx_from_znx32(pf, fb.p, xb.as<int32_t>());
      cplx_fft(pfft, fa.p);
      cplx_fft(pfft, fb.p);
      cplx_fftvec_mul(pmul, fr.p, fa.p, fb.p);
      cplx_ifft(pifft, fr.p);
      cplx_to_tnx32(pto, ro.as<int32_t>(), fr.p);
      for (uint64_t i = 0; i < n; ++i) out.push_back(ro.as<int32_t>()[i]);
      free(pf), free(pfft), free(pmul), free(pifft), free(pto);
    } else {
      MODULE* mod = spq::modules().get(n, mt, mask);
      switch (op) {
        case A_SMALL: {
          int64_t *a = ibuf(A, n, OVER), *b = ibuf(B, n, UNDER);
          Buf R = ar.alloc(n * 8, OVER, 0, 3, seed), T = ar.alloc(znx_small_single_product_tmp_bytes(mod), OVER, 0, 1);
          znx_small_single_product(mod, R.as<int64_t>(), a, b, T.p);
          out.assign(R.as<int64_t>(), R.as<int64_t>() + n);
          break;
        }
        case A_SVP: {
          int64_t *a = ibuf(A, ext(a_size, a_sl), OVER), *b = ibuf(B, n, UNDER);
          Buf P = ar.alloc(bytes_of_svp_ppol(mod), OVER, 0, 1), D = ar.alloc(bytes_of_vec_znx_dft(mod, res_size), OVER, 0, 2),
              G = ar.alloc(bytes_of_vec_znx_big(mod, res_size), OVER, 0, 3, seed), T = ar.alloc(vec_znx_idft_tmp_bytes(mod), OVER);
          svp_prepare(mod, (SVP_PPOL*)P.p, b);
          svp_apply_dft(mod, (VEC_ZNX_DFT*)D.p, res_size, (SVP_PPOL*)P.p, a, a_size, a_sl);
          vec_znx_idft(mod, (VEC_ZNX_BIG*)G.p, res_size, (VEC_ZNX_DFT*)D.p, res_size, T.p);
          out.assign(G.as<int64_t>(), G.as<int64_t>() + res_size * n);
          break;
        }
        case A_VMP: {
          int64_t *a = ibuf(A, ext(a_size, a_sl), OVER), *mat = ibuf(MAT, nrows * ncols * n, UNDER);
          Buf PM = ar.alloc(bytes_of_vmp_pmat(mod, nrows, ncols), OVER, 0, 1), T1 = ar.alloc(vmp_prepare_contiguous_tmp_bytes(mod, nrows, ncols), OVER, 0, 2),
              D = ar.alloc(bytes_of_vec_znx_dft(mod, res_size), OVER, 0, 2), T2 = ar.alloc(vmp_apply_dft_tmp_bytes(mod, res_size, a_size, nrows, ncols), OVER, 0, 1),
              G = ar.alloc(bytes_of_vec_znx_big(mod, res_size), OVER, 0, 3, seed);
          vmp_prepare_contiguous(mod, (VMP_PMAT*)PM.p, mat, nrows, ncols, T1.p);
          vmp_apply_dft(mod, (VEC_ZNX_DFT*)D.p, res_size, a, a_size, a_sl, (VMP_PMAT*)PM.p, nrows, ncols, T2.p);
          vec_znx_idft_tmp_a(mod, (VEC_ZNX_BIG*)G.p, res_size, (VEC_ZNX_DFT*)D.p, res_size);
          out.assign(G.as<int64_t>(), G.as<int64_t>() + res_size * n);
          break;
        }
        default: {
          // one call in two is in place (the supported forms: res is the very same pointer, with the same stride, as a -- or as b for
          // add / sub); the accelerated and the portable drivers must agree there too, for every combination of limb counts
          const int ip = (int)sh(27, 2);
          const bool on_a = ip == 1, on_b = ip == 2 && (op == A_ADD || op == A_SUB);
          const uint64_t res_sl = on_a ? a_sl : on_b ? b_sl : ::std::max<uint64_t>(n, n + sh(13, 2));
          int64_t *a = ibuf(A, ext(a_size, a_sl), OVER), *b = ibuf(B, ext(b_size, b_sl), UNDER);
          const size_t rw = std::max<size_t>(ext(res_size, res_sl), on_a ? ext(a_size, a_sl) : on_b ? ext(b_size, b_sl) : 0);
          Buf R = ar.alloc(rw * 8, OVER, 0, 3, seed);
          int64_t* res = R.as<int64_t>();
          if (on_a) { memcpy(res, a, ext(a_size, a_sl) * 8); a = res; }
          if (on_b) { memcpy(res, b, ext(b_size, b_sl) * 8); b = res; }
          switch (op) {
            case A_ADD: vec_znx_add(mod, res, res_size, res_sl, a, a_size, a_sl, b, b_size, b_sl); break;
            case A_SUB: vec_znx_sub(mod, res, res_size, res_sl, a, a_size, a_sl, b, b_size, b_sl); break;
            case A_NEG: vec_znx_negate(mod, res, res_size, res_sl, a, a_size, a_sl); break;
            case A_ROT: vec_znx_rotate(mod, p, res, res_size, res_sl, a, a_size, a_sl); break;
            case A_AUT: vec_znx_automorphism(mod, p, res, res_size, res_sl, a, a_size, a_sl); break;
            default: {
              Buf T = ar.alloc(vec_znx_normalize_base2k_tmp_bytes(mod), OVER, 0, 1);
              vec_znx_normalize_base2k(mod, log2_base2k, res, res_size, res_sl, a, a_size, a_sl, T.p);
            }
          }
          out.assign(res, res + rw);  // stride padding (and, in place, the operand's limbs beyond res_size) included: identical prefill
        }
      }
    }
    if (ar.check_canaries() >= 0) return c.failf("%s under CPU mask %u wrote outside a declared extent", api_name(op), mask);
    for (int64_t x : out) anynz = anynz || x != 0;
    if (mask == 0)
      first = out;
    else if (out != first) {
      size_t i = 0;
      while (i < out.size() && out[i] == first[i]) ++i;
      return c.failf("%s N=%llu: integer result word %zu differs between CPU masks: %lld (nothing hidden) vs %lld (mask %u: %s hidden)", api_name(op),
                     (unsigned long long)n, i, (long long)first[i], (long long)out[i], mask, mask == 1 ? "avx2" : mask == 2 ? "fma" : "avx2+fma");
    }
    c.cls("mask:" + std::to_string(mask));
  }
  // exact-regime sanity of the products (the masks agree; they must agree on the exact product)
  if (op == A_SMALL || op == A_CPLX) {
    std::vector<orc::i128> ex(n);
    orc::negacyclic_product(n, A.data(), B.data(), ex.data());
    for (uint64_t i = 0; i < n; ++i) {
      int64_t e = op == A_CPLX ? (int64_t)(int32_t)(uint32_t)(uint64_t)(int64_t)ex[i] : (int64_t)ex[i];
      if (first[i] != e) return c.failf("%s N=%llu: coefficient %llu = %lld on every mask, exact product %lld (E=%.3Lg < 1/2)", api_name(op),
                                        (unsigned long long)n, (unsigned long long)i, (long long)first[i], (long long)e, Esum);
    }
  }
  c.cls(std::string("api:") + api_name(op));
  c.cls(mt == FFT64 ? "module:FFT64" : "module:NTT120");
  c.cls("k:" + std::to_string(kk));
  c.nontrivial = anynz && n >= 4;
}

}  // namespace

std::vector<Sub> vh_subs() {
  std::vector<Sub> subs;
  {
    Sub s;
    s.name = "pairs";
    s.fields = {{"pair", 0, (int64_t)table().size() - 1}, {"lg", 0, 16}, {"shape", 0, (1ll << 31) - 1}, {"mis0", 0, 3}, {"mis1", 0, 3},
                {"mis2", 0, 3}, {"mis3", 0, 3}, {"fam", 0, 15}, {"seed", 0, INT64_MAX - 1}};
    s.run = run_pair;
    subs.push_back(s);
  }
  {
    // table-level public API under the four CPU masks: the integer / bit-exact conversions must not depend on which features
    // were detected when the table was created (dispatch thresholds on m, log2bound, log2overhead included)
    Sub s;
    s.name = "table_masks";
    s.fields = {{"logm", 0, 12}, {"op", 0, 11}, {"log2bound", 0, 64}, {"divexp", -4, 40}, {"ovh", 0, 48}, {"seed", 0, INT64_MAX - 1}};
    s.run = [](const Vals& v, Ctx& c) {
      const uint64_t m = 1ull << v[0];
      const int op = (int)v[1];
      const uint32_t L = (uint32_t)v[2];
      const double dv = std::ldexp(1.0, (int)v[3]);
      const uint32_t ovh = (uint32_t)v[4];
      static const char* names[] = {"reim_to_znx64", "reim_from_znx64", "reim_to_tnx", "cplx_from_znx32", "cplx_from_tnx32", "cplx_to_tnx32",
                                    "reim_to_znx64_simple(bound<=50 then bound>50)", "znx_small_single_product(monomials, |result| in [2^50,2^52))",
                                    "svp+idft(monomials, |result| in [2^50,2^52))", "reim_fftvec_mul/addmul in place", "reim4_fftvec_mul/addmul in place",
                                    "cplx_fftvec_mul/addmul in place"};
      Rng r((uint64_t)v[5]);
      std::vector<double> xd(2 * m);
      std::vector<int64_t> xi(2 * m);
      std::vector<int32_t> x32(2 * m);
      const unsigned Lb = L < 52 ? L : 52;  // declared bound 2^log2bound, never beyond the wide variant's 2^52
      for (uint64_t q = 0; q < 2 * m; ++q) {
        // to_znx64: |x/d| < 2^Lb, away from .5 ties (quarter offsets below 2^49, integers above)
        unsigned bits = (q % 3 == 0 && Lb >= 2) ? Lb - (unsigned)r.below(2) : (unsigned)r.below(Lb + 1);
        double mag = bits ? std::floor(std::ldexp(0.5 + 0.499 * r.unit(), (int)bits)) : 0.0;
        if (bits < 49) mag += 0.25;
        xd[q] = mag * dv * (r.below(2) ? -1.0 : 1.0);
        xi[q] = r.sbits(L < 50 ? L : 50);
        x32[q] = (int32_t)r.next();
      }
      std::vector<std::vector<uint8_t>> outs;
      for (unsigned mask = 0; mask < 4; ++mask) {
        spq::MaskGuard g(mask);
        std::vector<uint8_t> o;
        switch (op) {
          case 0: { auto* t = new_reim_to_znx64_precomp((uint32_t)m, dv, L); std::vector<int64_t> r64(2 * m); reim_to_znx64(t, r64.data(), xd.data()); free(t); o.assign((uint8_t*)r64.data(), (uint8_t*)(r64.data() + 2 * m)); break; }
          case 1: { auto* t = new_reim_from_znx64_precomp((uint32_t)m, L < 50 ? L : 50); std::vector<double> rd(2 * m); reim_from_znx64(t, rd.data(), xi.data()); free(t); o.assign((uint8_t*)rd.data(), (uint8_t*)(rd.data() + 2 * m)); break; }
          case 2: {
            std::vector<double> in(2 * m), rd(2 * m);
            Rng r2((uint64_t)v[5] ^ 77);
            for (auto& z : in) z = r2.sunit() * dv * std::ldexp(1.0, (int)ovh);
            auto* t = new_reim_to_tnx_precomp((uint32_t)m, dv, ovh); reim_to_tnx(t, rd.data(), in.data()); free(t);
            o.assign((uint8_t*)rd.data(), (uint8_t*)(rd.data() + 2 * m)); break;
          }
          case 3: { auto* t = new_cplx_from_znx32_precomp((uint32_t)m); std::vector<double> rd(2 * m); cplx_from_znx32(t, rd.data(), x32.data()); free(t); o.assign((uint8_t*)rd.data(), (uint8_t*)(rd.data() + 2 * m)); break; }
          case 4: { auto* t = new_cplx_from_tnx32_precomp((uint32_t)m); std::vector<double> rd(2 * m); cplx_from_tnx32(t, rd.data(), x32.data()); free(t); o.assign((uint8_t*)rd.data(), (uint8_t*)(rd.data() + 2 * m)); break; }
          case 6: {
            // the cached convenience API in a FRESH thread (its cache is thread-local): a narrow-bound call, then a wide-bound call on the same
            // dimension and divisor with values up to 2^52 -- the second result must not depend on the CPU features either
            std::vector<int64_t> r1(2 * m), r2(2 * m);
            std::vector<double> small(2 * m);
            for (uint64_t q = 0; q < 2 * m; ++q) small[q] = (double)((int64_t)(q % 7) - 3) * dv + 0.25 * dv;
            const uint32_t Lw = L > 50 ? L : 51 + L % 13;
            std::vector<double> wide(2 * m);
            {
              Rng r3((uint64_t)v[5] ^ 1234);
              for (uint64_t q = 0; q < 2 * m; ++q) wide[q] = std::floor(std::ldexp(0.5 + 0.499 * r3.unit(), 52 - (int)r3.below(2))) * dv * (r3.below(2) ? -1.0 : 1.0);
            }
            std::thread th([&]() {
              reim_to_znx64_simple((uint32_t)m, dv, 40 + (uint32_t)(v[5] % 11), r1.data(), small.data());
              reim_to_znx64_simple((uint32_t)m, dv, Lw, r2.data(), wide.data());
            });
            th.join();
            o.assign((uint8_t*)r1.data(), (uint8_t*)(r1.data() + 2 * m));
            o.insert(o.end(), (uint8_t*)r2.data(), (uint8_t*)(r2.data() + 2 * m));
            break;
          }
          case 7: case 8: {
            // module level, result coefficient in the top two binades of the 52-bit budget: c1*X^i times c2*X^j (exact in every configuration)
            const uint64_t n = 2 * m;
            MODULE* mod = spq::modules().get(n, FFT64, mask);
            Rng r3((uint64_t)v[5] ^ 4321);
            const int bits = 50 + (int)r3.below(2);              // |c1*c2| in [2^bits, 2^(bits+1))
            const int b1 = 1 + (int)r3.below(49);
            int64_t c1 = ((int64_t)1 << b1) | (int64_t)r3.below(1ull << b1);
            int64_t c2 = (int64_t)std::floor(std::ldexp(1.0 + r3.unit() * 0.99, bits) / (double)c1);
            if (c2 < 1) c2 = 1;
            if (c2 >= ((int64_t)1 << 50)) c2 = ((int64_t)1 << 50) - 1;
            if (r3.below(2)) c1 = -c1;
            std::vector<int64_t> a(n, 0), b(n, 0), res(n, 0);
            const uint64_t ia = r3.below(n), ib = r3.below(n);
            a[ia] = c1; b[ib] = c2;
            if (op == 7) {
              std::vector<uint8_t> tmp(znx_small_single_product_tmp_bytes(mod) + 64);
              znx_small_single_product(mod, res.data(), a.data(), b.data(), tmp.data());
            } else {
              std::vector<uint8_t> pp(bytes_of_svp_ppol(mod) + 64), dd(bytes_of_vec_znx_dft(mod, 1) + 64);
              svp_prepare(mod, (SVP_PPOL*)pp.data(), b.data());
              svp_apply_dft(mod, (VEC_ZNX_DFT*)dd.data(), 1, (SVP_PPOL*)pp.data(), a.data(), 1, n);
              vec_znx_idft_tmp_a(mod, (VEC_ZNX_BIG*)res.data(), 1, (VEC_ZNX_DFT*)dd.data(), 1);
            }
            // exact value: c1*c2 at (ia+ib) mod n, negated when the exponent wraps
            const __int128 pr = (__int128)c1 * c2;
            const uint64_t e = (ia + ib) % n;
            const __int128 ex = (ia + ib) >= n ? -pr : pr;
            // near 2^52 the product is NOT in the exact regime (E = 8 log2N 2^-53 * 2|c1 c2| is a few units): every configuration must be
            // within the documented E + 1/2 of the exact value; the configurations need not agree bit for bit (so nothing is appended to `o`)
            const long double apr = fabsl((long double)pr);
            const long double E = 8.0L * log2l((long double)n) * ldexpl(1.0L, -53) * 2.0L * apr * (1.0L + 1e-12L);
            if (apr < ldexpl(1.0L, 52))
              for (uint64_t q = 0; q < n; ++q) {
                const long double d = fabsl((long double)((__int128)res[q] - (q == e ? ex : 0)));
                if (d > E + 0.5L)
                  return c.failf("%s N=%llu under CPU mask %u: %lld*X^%llu times %lld*X^%llu: coefficient %llu = %lld, exact %lld (|err| %.4Lg > E+1/2 = %.4Lg)", names[op], (unsigned long long)n,
                                 mask, (long long)c1, (unsigned long long)ia, (long long)c2, (unsigned long long)ib, (unsigned long long)q, (long long)res[q], (long long)(q == e ? ex : 0), d, E + 0.5L);
              }
            break;
          }
          case 9: case 10: case 11: {
            // pointwise product / multiply-accumulate through the table API with the output aliased to an operand (the supported in-place
            // forms r==a, r==b, r==a==b) on small integers: every product and sum is exact, so all four CPU configurations must agree
            // bit for bit, also on the dimensions where the table falls back to the portable kernel
            const int layout = op - 9;  // 0 reim, 1 reim4, 2 cplx
            const uint64_t mm = layout == 1 && m < 4 ? 4 : m;
            Rng r2((uint64_t)v[5] ^ 777);
            std::vector<double> a0(2 * mm), b0(2 * mm), r0(2 * mm);
            for (uint64_t q = 0; q < 2 * mm; ++q) { a0[q] = (double)r2.sbits(18); b0[q] = (double)r2.sbits(18); r0[q] = (double)r2.sbits(30); }
            for (int addmul = 0; addmul < 2; ++addmul)
              for (int alias = 0; alias < 4; ++alias) {
                std::vector<double> A = a0, B = b0, R = r0;
                double* rp = alias == 1 ? A.data() : alias >= 2 ? B.data() : R.data();
                const double* ap = alias == 3 ? B.data() : A.data();
                const double* bp = B.data();
                if (layout == 0) {
                  if (addmul) { auto* t = new_reim_fftvec_addmul_precomp((uint32_t)mm); reim_fftvec_addmul(t, rp, ap, bp); free(t); }
                  else { auto* t = new_reim_fftvec_mul_precomp((uint32_t)mm); reim_fftvec_mul(t, rp, ap, bp); free(t); }
                } else if (layout == 1) {
                  if (addmul) { auto* t = new_reim4_fftvec_addmul_precomp((uint32_t)mm); reim4_fftvec_addmul(t, rp, ap, bp); free(t); }
                  else { auto* t = new_reim4_fftvec_mul_precomp((uint32_t)mm); reim4_fftvec_mul(t, rp, ap, bp); free(t); }
                } else {
                  if (addmul) { auto* t = new_cplx_fftvec_addmul_precomp((uint32_t)mm); cplx_fftvec_addmul(t, rp, ap, bp); free(t); }
                  else { auto* t = new_cplx_fftvec_mul_precomp((uint32_t)mm); cplx_fftvec_mul(t, rp, ap, bp); free(t); }
                }
                o.insert(o.end(), (uint8_t*)rp, (uint8_t*)(rp + 2 * mm));
              }
            break;
          }
          default: {
            std::vector<double> in(2 * m);
            std::vector<int32_t> r32(2 * m);
            Rng r2((uint64_t)v[5] ^ 99);
            const uint32_t o2 = ovh > 18 ? 18 : ovh;
            // grid points + 1/4: no rounding ties between the two variants
            for (auto& z : in) z = (std::floor(r2.sunit() * std::ldexp(1.0, (int)o2 + 30)) + 0.25) * dv * std::ldexp(1.0, -32);
            auto* t = new_cplx_to_tnx32_precomp((uint32_t)m, dv, ovh > 18 ? 18 + (ovh % 3) * 10 : ovh); cplx_to_tnx32(t, r32.data(), in.data()); free(t);
            o.assign((uint8_t*)r32.data(), (uint8_t*)(r32.data() + 2 * m));
          }
        }
        outs.push_back(o);
      }
      c.notef("%s m=%llu divisor=2^%d log2bound=%u log2overhead=%u under CPU masks 0..3", names[op], (unsigned long long)m, (int)v[3], L, ovh);
      for (unsigned mask = 1; mask < 4; ++mask)
        if (outs[mask] != outs[0]) {
          size_t off = 0;
          while (outs[mask][off] == outs[0][off]) ++off;
          return c.failf("%s (table API) m=%llu divisor=2^%d log2bound=%u log2overhead=%u: result depends on the CPU features visible when the table was created: mask %u differs from mask 0 at output byte %zu",
                         names[op], (unsigned long long)m, (int)v[3], L, ovh, mask, off);
        }
      c.nontrivial = true;
      c.cls(std::string("tablemask:") + names[op]);
      if (m >= 8) c.cls("tablemask:m>=8");
    };
    subs.push_back(s);
  }
  {
    Sub s;
    s.name = "api_masks";
    s.fields = {{"k", 1, 14}, {"op", 0, A_NOPS - 1}, {"mtype", 0, 1}, {"shape", 0, (1ll << 31) - 1}, {"p", -(1ll << 40), (1ll << 40)},
                {"fam", 0, 63}, {"seed", 0, INT64_MAX - 1}};
    s.run = run_api;
    subs.push_back(s);
  }
  return subs;
}
