from planlib import geo, desc_fuzz

OPS1 = ["vec_znx_copy", "vec_znx_negate", "vec_znx_add", "vec_znx_sub", "vec_znx_rotate", "vec_znx_automorphism",
        "vec_znx_big_add", "vec_znx_big_add_small", "vec_znx_big_add_small2", "vec_znx_big_sub", "vec_znx_big_sub_small_a",
        "vec_znx_big_sub_small_b", "vec_znx_big_sub_small2", "vec_znx_big_rotate", "vec_znx_big_automorphism"]


def _jobs(tier):
    mult = 1 if tier == "quick" else 200
    jobs = []
    for k in range(1, 17):
        jobs.append(dict(sub="vec", count=geo(k, 5000, 7, 40) * mult, fix=dict(k=k)))
        jobs.append(dict(sub="idft", count=geo(k, 800, 7, 12) * mult, fix=dict(k=k)))
        jobs.append(dict(sub="vec", count=geo(k, 1200, 6, 10) * mult, fix=dict(k=k), flavour="asan"))
        jobs.append(dict(sub="idft", count=geo(k, 200, 6, 4) * mult, fix=dict(k=k), flavour="asan"))
    jobs.append(dict(sub="normalize", count=6000 * mult, fix=dict(kN=(1, 6)), split=4))
    jobs.append(dict(sub="normalize", count=600 * mult, fix=dict(kN=(7, 12))))
    jobs.append(dict(sub="fftvec", count=8000 * mult, fix=dict(logm=(0, 8)), split=4))
    jobs.append(dict(sub="fftvec", count=600 * mult, fix=dict(logm=(9, 14))))
    return jobs


PLAN_ID = "C13"
PLAN = dict(
    src="props/c13.cpp", flavour="rel",
    rule="cases = aliasing pattern (res==a, res==b, res==a==b; same pointer and stride) x op (element-wise vec/big/mixed API, rotate, "
         "automorphism with all p classes of C09, normalize + big normalize, vec_znx_idft / _tmp_a with res==a_dft on both module types, "
         "reim/reim4/cplx fftvec mul/addmul with r==a, r==b, r==a==b incl. *_simple) x sizes 0..5 independently for res and the aliased operand "
         "x N x cfg; oracle = the same call on private copies with a separate output, bitwise (+ limb model / exact round trip). "
         "Non-trivial: aliased and (res_size != size of the aliased input, or p != 0,1 mod 2N; idft: both sizes >= 1; fftvec: m >= 2).",
    assumptions=["aliasing means same pointer and same stride (statement); partial overlaps are out of the domain"],
    quick=_jobs("quick"), thorough=_jobs("thorough"),
    fuzz=desc_fuzz("C13", fix=dict(k=(1, 10), kN=(1, 8), logm=(0, 10))),
    required_classes=dict(all=["op:" + o for o in OPS1] + ["alias:1", "alias:2", "alias:3", "res_size!=aliased_size", "module:NTT120",
                               "cfg:generic", "op:vec_znx_normalize_base2k", "op:vec_znx_big_normalize_base2k",
                               "op:vec_znx_idft:FFT64", "op:vec_znx_idft:NTT120", "op:vec_znx_idft_tmp_a:FFT64", "op:vec_znx_idft_tmp_a:NTT120"]
                          + ["op:%s_fftvec_%s" % (l, o) for l in ("reim", "reim4", "cplx") for o in ("mul", "addmul")]),
)
