from planlib import desc_fuzz
KERNS = ["q120_vec_mat1col_product_baa", "q120_vec_mat1col_product_bbb", "q120_vec_mat1col_product_bbc",
         "q120x2_vec_mat1col_product_bbc", "q120x2_vec_mat2cols_product_bbc"]
ELLC = ["ell:0", "ell:1", "ell:2", "ell:9999", "ell:10000", "ell:1000..9998", "ell:3..999", "ell:8000..10000"]
OPFAM = ["all-maximal", "max-x-topbit-y", "max/min-alternating", "single-maximal", "topbit-random", "near-max-distinct", "max-x-proper-c", "per-lane zero/maximal mix", "accumulators on a 32-bit carry boundary"]
FAMS = ["all-ones", "zero", "alternating", "cq-1", "cq", "single", "uniform64", "canonical", "topbit", "mixed-extremal"]
ELL_COUNT = {0: 6000, 1: 6000, 2: 6000, 3: 2100, 4: 2100, 5: 2100, 6: 9000, 7: 2100}
KCOUNT = {0: 30000, 1: 30000, 2: 30000, 3: 30000, 4: 30000, 5: 30000, 6: 30000, 7: 30000, 8: 24000, 9: 15000, 10: 9000, 11: 4800,
          12: 2700, 13: 1500, 14: 900, 15: 600, 16: 420}
KSPLIT = {14: 2, 15: 2, 16: 3}


def _jobs(tier):
    mult = 1 if tier == "quick" else 20
    jobs = []
    for kern in range(5):
        for ellc in range(8):
            jobs.append(dict(sub="product", count=ELL_COUNT[ellc] * mult, fix=dict(kern=kern, ellc=ellc),
                             split=(2 if kern >= 3 and ellc in (3, 4, 5, 7) else 1)))
        # every split point h x every pattern x ell in {0,1,2,9999,10000}: exhaustive (the patterns are deterministic)
        for side in range(4):
            jobs.append(dict(sub="split", enum=True, fix=dict(kern=kern, side=side, h=(1, 63), ellc=(0, 4), seed=0)))
        # generated ell, generated search for the a-layout pairs
        jobs.append(dict(sub="split", count=3500 * mult, fix=dict(kern=kern, ellc=5)))
    for k in range(0, 17):
        jobs.append(dict(sub="ntt", count=KCOUNT[k] * mult, fix=dict(k=k), split=KSPLIT.get(k, 1)))
    # stage trace (hook 2): exact per-stage model + per-stage maxima; value-guided search on the maxima
    for k in range(1, 17):
        jobs.append(dict(sub="ntt_trace", count=max(40, KCOUNT[k] // 10) * mult, fix=dict(k=k)))
        if tier == "quick":
            if k <= 10:
                jobs.append(dict(sub="ntt_search", count=max(6, 400 >> k), fix=dict(k=k, iters=(20, 60))))
        else:
            jobs.append(dict(sub="ntt_search", count=max(8, 4000 >> k), fix=dict(k=k, iters=(100, 400)), split=(4 if k >= 10 else 1)))
    return jobs


PLAN_ID = "C04"
PLAN = dict(
    src="props/c04.cpp", flavour="rel",
    rule="products (baa, bbb, bbc, x2 1col, x2 2cols; ref AND avx2 in every case; ell classes {0,1,2,9999,10000} + generated): operand "
         "families all-maximal for the layout (2^32-1 a-words, 2^64-1 b-words, 2^32-1 c-words), maximal x with random top-bit y / "
         "c-words, max/min alternating (three phase variants), single maximal term, random top-bit words, near-maximal distinct words, "
         "maximal x with proper c-encodings; split sub: for every h=1..63 the operand pairs (2^h-1 | ~(2^h-1)) x (2^h-1 | ~(2^h-1)) "
         "(a-layout: a generated search for the 32-bit pair maximising the low h bits of the 64-bit product, and 2^32-1 for the high "
         "part) repeated ell times, enumerated exhaustively for ell in {0,1,2,9999,10000} plus generated ell. Oracle: sum x_i*y_i mod q_j in "
         "u128 on the raw words (c operands: sum x_lo*c0+x_hi*c1); ref = avx2 = oracle modulo each prime. NTT/iNTT: every n=2^k, the C03 "
         "lane families, final result against the order-agnostic oracle (a(r_j) through an independent NTT; intt checked through "
         "a(r_j)=y_j). Traced NTT/iNTT (sub ntt_trace): the same families, every stage checked against the exact stage model, largest lane per "
         "stage measured; sub ntt_search: hill climbing on the lane vector (mutations: 2^64-1, c*q-1, random, 0, whole extremal element) with "
         "fitness = largest lane after a generated target stage. Non-trivial: products ell>=1000 and >=90% of the operand words have the top bit of their layout set; NTT: every "
         "lane >=2^63 or an extremal family (all-ones, alternating, c*q-1, c*q, mixed extremal); traced: some stage's largest lane >= 2^62. Distinct = descriptor hash.",
    assumptions=["declared ranges: a-words < 2^32, b-words any 64-bit value, c-words any 32-bit value, ell <= 10000, NTT/iNTT lanes any 64-bit value (input_bit_size = 64)",
                 "stage trace (guarded hook 2): every stage of every traced transform is compared modulo q with an exact model that follows the executed "
                 "schedule and uses the low 32 bits of the library's own twiddle table; the hook only observes",
                 "default 30-bit prime set only"],
    quick=_jobs("quick"), thorough=_jobs("thorough"),
    fuzz=desc_fuzz("C04", fix=dict(k=(0, 10)), skip_subs=['ntt_search'], runs=40000),
    required_classes=dict(all=["kern:" + k for k in KERNS] + ["impl:ref", "impl:avx2"] + ELLC + ["ell:3..9998"]
                          + ["operands:" + o for o in OPFAM] + ["h:%d" % h for h in range(1, 64)]
                          + ["split:low,low", "split:high,high", "split:low,high", "split:high,low"]
                          + ["k:%d" % k for k in range(0, 17)] + ["dir:q120_ntt_bb_avx2", "dir:q120_intt_bb_avx2"] + ["fam:" + f for f in FAMS]
                          + ["products:ell>=1000,>=90%-topbit", "ntt:extremal-or-all-lanes>=2^63"]
                          + ["tk:%d" % k for k in range(1, 17)] + ["trace:q120_ntt_bb_avx2", "trace:q120_intt_bb_avx2", "trace:some-stage>=2^62",
                             "search:q120_ntt_bb_avx2", "search:q120_intt_bb_avx2"]),
)
