from planlib import geo, desc_fuzz


def _c17(tier):
    mult = 1 if tier == "quick" else 20
    jobs = []
    # block extraction / save: one stratum per log2 m (4..65536), ref and avx drawn inside
    for k in range(2, 17):
        jobs.append(dict(sub="extract", count=geo(k, 20000, 8, 250) * mult, fix=dict(k=k)))
    # cplx <-> reim4 conversion: 5x5 entry points per stratum
    for k in range(2, 17):
        jobs.append(dict(sub="convert", count=geo(k, 15000, 7, 200) * mult, fix=dict(k=k)))
    # dot products: row counts 0..64 stratified in four bands
    for lo, hi in ((0, 4), (5, 16), (17, 40), (41, 64)):
        jobs.append(dict(sub="dot", count=50000 * mult, fix=dict(nrows=(lo, hi))))
    jobs.append(dict(sub="elem", count=40000 * mult))  # reim4_zero / add / mul / add_mul on one element, incl. dest == operand
    # pointwise kernels: per layout and log2 m
    for layout in (0, 1, 2):
        for k in range(0 if layout != 1 else 2, 17):
            jobs.append(dict(sub="pointwise", count=geo(k, 20000, 7, 250) * mult, fix=dict(k=k, layout=layout)))
    # windowed convolution: per entry point
    for fn in (0, 1, 2):
        jobs.append(dict(sub="convolution", count=50000 * mult, fix=dict(fn=fn)))
        jobs.append(dict(sub="convolution", count=12000 * mult, fix=dict(fn=fn, sizea=(0, 2), sizeb=(0, 2), dest_size=(0, 3), offset=(0, 3))))
    for j in jobs:  # thorough: split the long poles over workers (each piece gets its own seed)
        if j["count"] >= 800000:
            j["split"] = 6
        elif j["count"] >= 250000:
            j["split"] = 3
    return jobs


def _cpu_flags():
    try:
        for line in open("/proc/cpuinfo"):
            if line.startswith("flags"):
                return set(line.split(":", 1)[1].split())
    except OSError:
        pass
    return set()


_FLAGS = _cpu_flags()
_AVX2 = "avx2" in _FLAGS and "fma" in _FLAGS      # otherwise the harness counts the avx entry points as skipped
_AVX512 = _AVX2 and "avx512f" in _FLAGS

_KERNELS = []
for _l in ("reim", "reim4", "cplx"):
    for _op in ("mul", "addmul"):
        for _e in ("api(full)", "api(generic)", "_ref", "_simple") + (("_fma",) if _AVX2 else ()):
            _KERNELS.append("kernel:%s_fftvec_%s%s" % (_l, _op, _e))
if _AVX2:
    _KERNELS += ["kernel:cplx_fftvec_addmul_sse"]
if _AVX512:
    _KERNELS += ["kernel:cplx_fftvec_addmul_avx512"]
_AVX_CLASSES = ["extract:avx", "save:avx", "dot:avx2", "from_cplx:_fma", "to_cplx:_fma"] if _AVX2 else []

PLAN_ID = "C17"
PLAN = dict(
    src="props/c17.cpp", flavour="rel",
    rule="extract: (m=2^k for every k in 2..16, every block index when m<=256 else {generated, first, last}, rows 0..8 (up to 2m when "
         "m<=16), sl in 2m..2m+8, ref/avx for the extractors and independently for save) -> bitwise equal to src[row*sl+4b+t] / [..+m], "
         "save o extract and extract o save identities, save leaves every other double of the vector unchanged. convert: 5x5 entry points "
         "(precomp API under full / generic CPU masks, _ref, _fma, _simple) of reim4_from_cplx x reim4_to_cplx: both round trips bitwise on "
         "all 2m doubles, prefill differential (every output double written), and to_cplx(reim4_mul(from_cplx a, from_cplx b)) = a*b. "
         "dot: mat1col/mat2cols ref+avx2, rows 0..64. pointwise: reim/reim4/cplx mul+addmul through every exported entry point at the "
         "sizes its dispatcher selects it (sse m>=2 / avx512 m>=8 addmul: exported but never dispatched). convolution: 1coeff/2coeff/"
         "window _ref with dest_size, offset, sizea, sizeb in 0..12 (+ offsets beyond the product) vs coef(k)=sum_{i+j=k} a[i]b[j]. "
         "Floating oracles: long double complex arithmetic, |err| <= (2*terms+4)*2^-53*S. Values: uniform, exponents +-250, signed "
         "zeros, integers, powers of two, cancelling. Non-trivial: m>=8 and a block index >=1, or >=2 rows / terms, with non-zero data. "
         "Distinct = distinct descriptor hash.",
    assumptions=["m is a power of two, m >= 4 for every reim4 function (reim, cplx pointwise kernels: m >= 1); sl >= 2m",
                 "finite doubles; for arithmetic kernels |x| in [2^-302, 2^250] or zero so that no product or sum leaves the normal range",
                 "accelerated kernels are called only at sizes at which the library's own dispatcher selects them (reim _fma m>=4, "
                 "reim4 _fma m>=4, cplx _fma m>=8); cplx_fftvec_addmul_sse / _avx512 are selected by no dispatcher and are called at the "
                 "smallest size their loop handles (m>=2 / m>=8)",
                 "the order of the four complex numbers inside a reim4 block produced by reim4_from_cplx is not asserted",
                 "reim4_convolution_*_avx are declared in reim4_arithmetic.h but not defined by the library: only the _ref functions exist",
                 "oracle: x87 long double (64-bit significand) with an explicit (terms+2)*2^-63*S allowance for its own rounding"],
    quick=_c17("quick"), thorough=_c17("thorough"),
    fuzz=desc_fuzz("C17", fix=dict(k=(0, 10))),
    required_classes=dict(all=["extract:ref", "save:ref", "m=4", "m=8", "m>=4096", "rows=0", "rows=1", "rows>=2",
                               "rows>8", "rows=64", "sl=2m", "sl>2m", "blk:all", "blk:generated", "blk:interior",
                               "dot:ref", "cfg:generic", "cfg:full", "pointwise:r==a", "pointwise:r==b", "elem:reim4_zero", "elem:reim4_add", "elem:reim4_mul", "elem:reim4_add_mul",
                               "conv:reim4_convolution_1coeff_ref", "conv:reim4_convolution_2coeff_ref", "conv:reim4_convolution_ref",
                               "sizea=0", "sizeb=0", "dest_size=0", "window-beyond-product", "window-straddles-end", "full-convolution",
                               "terms>=2", "vfam:signed-zeros", "vfam:dynamic-range", "vfam:cancelling",
                               "reim:m<4", "reim:m=4", "reim:m=8", "reim:m>=4096", "reim4:m=4", "reim4:m=8", "reim4:m>=4096",
                               "cplx:m<4", "cplx:m=4", "cplx:m=8", "cplx:m>=4096"]
                          + ["k:%d" % k for k in range(2, 17)]
                          + ["from_cplx:" + e for e in ("api(full)", "api(generic)", "_ref", "_simple")]
                          + ["to_cplx:" + e for e in ("api(full)", "api(generic)", "_ref", "_simple")]
                          + _AVX_CLASSES + _KERNELS),
)
