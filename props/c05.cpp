// C05 — base-2^k normalisation yields the unique balanced digit expansion.
#include <algorithm>

#include "arena.hpp"
#include "harness.hpp"
#include "oracle_digits.hpp"
#include "spq.hpp"

using namespace vh;
const char* vh_property_id = "C05";

static const int64_t P62 = (int64_t)1 << 62;

// limb families (per coefficient): values |x| <= 2^62
static void gen_limbs(std::vector<int64_t>& l, unsigned k, int fam, Rng& r) {
  const size_t n = l.size();
  const int64_t half = (int64_t)1 << (k - 1);
  switch (fam % 10) {
    case 0:  // maximal positive carry chain: all digits at 2^(k-1)-1, lowest limb pushes it over
      for (size_t i = 0; i < n; ++i) l[i] = half - 1;
      if (n) l[n - 1] = half + (int64_t)r.below(3);
      break;
    case 1:  // maximal negative chain
      for (size_t i = 0; i < n; ++i) l[i] = -half;
      if (n) l[n - 1] = -half - 1 - (int64_t)r.below(3);
      break;
    case 2:
      for (size_t i = 0; i < n; ++i) l[i] = (r.next() & 1) ? P62 : -P62;
      break;
    case 3:
      for (size_t i = 0; i < n; ++i) l[i] = (i & 1) ? -P62 + (int64_t)r.below(5) : P62 - (int64_t)r.below(5);
      break;
    case 4:  // only the lowest limb is non-zero (its carry must cross every other limb, including dropped ones)
      for (size_t i = 0; i < n; ++i) l[i] = 0;
      if (n) l[n - 1] = r.sbits(62) | 1;
      break;
    case 5: {  // random at one magnitude
      unsigned b = 1 + (unsigned)r.below(62);
      for (size_t i = 0; i < n; ++i) l[i] = r.sbits(b);
      break;
    }
    case 6:  // digits at the boundary +-half, +-(half-1), random choice
      for (size_t i = 0; i < n; ++i) {
        const int64_t c[] = {half, -half, half - 1, -half - 1, half + 1, 0};
        l[i] = c[r.below(6)] + ((int64_t)r.below(3) - 1) * ((k < 61) ? ((int64_t)1 << k) : 0);
      }
      break;
    case 8: {  // every limb a multiple of 2^(32+k) (k <= 30): digits 0, carries that are multiples of 2^32
      const unsigned sh = 32 + std::min(k, 30u);
      for (size_t i = 0; i < n; ++i) l[i] = (int64_t)r.sym((int64_t)1 << (62 - sh)) * ((int64_t)1 << sh);
      if (n && r.below(2)) l[n - 1] = (int64_t)1 << 62;
      break;
    }
    case 9:  // zero limbs in between: a zero limb creates no carry but must forward the one arriving from below
      for (size_t i = 0; i < n; ++i) l[i] = r.below(2) ? 0 : r.sbits(62);
      if (n) l[n - 1] = r.sbits(62) | 1;
      break;
    default:
      for (size_t i = 0; i < n; ++i) l[i] = r.sym(P62);
  }
  for (auto& x : l) {
    if (x > P62) x = P62;
    if (x < -P62) x = -P62;
  }
}

// ---------------------------------------------------------------------------- vec-level (module) check
// variant: 0 vec_znx_normalize_base2k, 1 vec_znx_big_normalize_base2k, 2 vec_znx_big_range_normalize_base2k
static void run_vec(Ctx& c, uint64_t kN, unsigned k, int variant, uint64_t res_size, uint64_t a_size, uint64_t res_pad, uint64_t a_pad,
                    bool inplace, uint64_t begin, uint64_t step, int fam, int mtype, int prefill, uint64_t seed,
                    const std::vector<std::vector<int64_t>>* forced = nullptr) {
  const uint64_t n = 1ull << kN;
  MODULE_TYPE mt = (variant == 0 && mtype) ? NTT120 : FFT64;  // big variants exist on FFT64 only
  MODULE* mod = spq::modules().get(n, mt, 0);
  Rng r(seed);
  Arena ar;
  uint64_t a_sl, res_sl = n + res_pad, a_total;  // a_total = limbs physically present in the a buffer
  uint64_t xend = 0;
  if (variant == 0) { a_sl = n + a_pad; a_total = a_size; }
  else if (variant == 1) { a_sl = n; a_total = a_size; }
  else {  // range: limbs begin, begin+step, ... < xend ; a_size = ceil((xend-begin)/step)
    xend = begin + (a_size ? (a_size - 1) * step + 1 + r.below(step) : 0);
    a_sl = n;  // physical stride of the big vector
    a_total = xend;
  }
  if (inplace) { if (variant == 2) inplace = false; else { a_sl = (variant == 0) ? res_sl : n; res_sl = a_sl; } }
  auto ext = [&](uint64_t sz, uint64_t sl) { return sz ? ((sz - 1) * sl + n) * 8 : 0; };
  size_t ea = ext(a_total, a_sl), er = ext(res_size, res_sl);
  Buf R = ar.alloc(inplace ? std::max(ea, er) : er, OVER, 0, prefill, seed);
  Buf A = inplace ? R : ar.alloc(ea, (seed & 1) ? UNDER : OVER, 0, 3, seed + 1);
  int64_t *res = R.as<int64_t>(), *a = A.as<int64_t>();
  // logical limb i of the operand lives at a + phys(i)*a_sl
  auto phys = [&](uint64_t i) { return variant == 2 ? begin + i * step : i; };
  std::vector<std::vector<int64_t>> limbs(n, std::vector<int64_t>(a_size));
  // whole-limb structure (one case in three, not for forced data): the 1..3 least significant limbs, or one limb in the middle, are the
  // zero polynomial; for the range variant the limbs that the range skips are then zero as well (a vector with zero padding)
  const uint64_t zmode = forced ? 0 : r.below(6);
  const uint64_t ztail = zmode == 1 ? 1 + r.below(3) : 0, zmid = zmode == 2 && a_size ? r.below(a_size) : a_size;
  if (variant == 2 && (zmode == 1 || zmode == 2)) memset(a, 0, ea);
  for (uint64_t q = 0; q < n; ++q) {
    if (forced) limbs[q] = (*forced)[q % forced->size()];
    else gen_limbs(limbs[q], k, fam + (int)(q % 3 == 2 ? q : 0), r);
    for (uint64_t i = 0; i < a_size; ++i)
      if (i + ztail >= a_size || i == zmid) limbs[q][i] = 0;
    for (uint64_t i = 0; i < a_size; ++i) a[phys(i) * a_sl + q] = limbs[q][i];
  }
  std::vector<uint8_t> before(inplace ? R.len : A.len);
  memcpy(before.data(), inplace ? R.p : A.p, before.size());
  std::vector<int64_t> expect(R.len / 8);
  memcpy(expect.data(), res, R.len);
  bool carry_crossed = false;
  for (uint64_t q = 0; q < n; ++q) {
    std::vector<int64_t> d = orc::balanced_digits(limbs[q], k);
    if (q < 4 && !orc::digits_valid(limbs[q], d, k)) return c.failf("ORACLE SELF-CHECK FAILED: carry-chain digits violate the multiword validity predicate");
    for (uint64_t i = 0; i < res_size; ++i) expect[i * res_sl + q] = i < a_size ? d[i] : 0;
    for (uint64_t i = 1; i < a_size; ++i)
      if (d[i] != limbs[q][i]) carry_crossed = carry_crossed || true;
    for (uint64_t i = 0; i + 1 < a_size; ++i) {
      // a carry crosses the boundary between limb i+1 and limb i iff limb i's digit differs from normalising limb i alone
      if (d[i] != orc::balanced_digit(limbs[q][i], k)) carry_crossed = true;
    }
  }
  uint64_t tb = variant == 0 ? vec_znx_normalize_base2k_tmp_bytes(mod)
                : variant == 1 ? vec_znx_big_normalize_base2k_tmp_bytes(mod) : vec_znx_big_range_normalize_base2k_tmp_bytes(mod);
  Buf T = ar.alloc(tb, OVER, 0, prefill + 1, seed);
  switch (variant) {
    case 0: vec_znx_normalize_base2k(mod, k, res, res_size, res_sl, a, a_size, a_sl, T.p); break;
    case 1: vec_znx_big_normalize_base2k(mod, k, res, res_size, res_sl, (VEC_ZNX_BIG*)a, a_size, T.p); break;
    default: vec_znx_big_range_normalize_base2k(mod, k, res, res_size, res_sl, (VEC_ZNX_BIG*)a, begin, xend, step, T.p);
  }
  static const char* vn[] = {"vec_znx_normalize_base2k", "vec_znx_big_normalize_base2k", "vec_znx_big_range_normalize_base2k"};
  c.notef("%s N=%llu k=%u res_size=%llu a_size=%llu res_sl=%llu a_sl=%llu %s range=(%llu,%llu,%llu) fam=%d %s", vn[variant], (unsigned long long)n, k,
          (unsigned long long)res_size, (unsigned long long)a_size, (unsigned long long)res_sl, (unsigned long long)a_sl, inplace ? "inplace" : "outofplace",
          (unsigned long long)begin, (unsigned long long)xend, (unsigned long long)step, fam, mt == FFT64 ? "FFT64" : "NTT120");
  for (uint64_t w = 0; w < R.len / 8; ++w)
    if (res[w] != expect[w]) {
      uint64_t limb = w / res_sl, q = w % res_sl;
      std::string in;
      if (q < n) for (uint64_t i = 0; i < a_size; ++i) in += (i ? "," : "") + std::to_string(limbs[q][i]);
      return c.failf("%s N=%llu k=%u res_size=%llu a_size=%llu%s: limb %llu coeff %llu = %lld, expected %lld (input limbs msb-first [%s])", vn[variant],
                     (unsigned long long)n, k, (unsigned long long)res_size, (unsigned long long)a_size, inplace ? " inplace" : "",
                     (unsigned long long)limb, (unsigned long long)q, (long long)res[w], (long long)expect[w], in.c_str());
    }
  if (!inplace && memcmp(before.data(), A.p, A.len) != 0) return c.failf("%s modified its source operand", vn[variant]);
  if (ar.check_canaries() >= 0) return c.failf("%s wrote outside res / tmp_bytes", vn[variant]);
  c.nontrivial = a_size >= 2 && carry_crossed;
  c.cls("k:" + std::to_string(k));
  c.cls(std::string("variant:") + vn[variant]);
  if (a_size == 0) c.cls("a_size=0");
  if (res_size == 0) c.cls("res_size=0");
  if (res_size < a_size) c.cls("res<a");
  if (res_size > a_size) c.cls("res>a");
  if (inplace) c.cls("inplace");
  if (inplace && n >= 8192 && a_size >= 2 && res_size >= a_size) c.cls("N>=8192 inplace");
  if (variant == 2 && a_size == 0) c.cls("begin==xend");
  if (variant == 2 && step > 1) c.cls("step>1");
  if (mt == NTT120) c.cls("module:NTT120");
}

std::vector<Sub> vh_subs() {
  std::vector<Sub> subs;
  {
    Sub s;
    s.name = "vec";
    s.fields = {{"kN", 1, 14}, {"k", 1, 62}, {"variant", 0, 2}, {"res_size", 0, 7}, {"a_size", 0, 7}, {"res_pad", 0, 3}, {"a_pad", 0, 3},
                {"inplace", 0, 1}, {"begin", 0, 3}, {"step", 1, 4}, {"fam", 0, 9}, {"mtype", 0, 1}, {"prefill", 0, 3}, {"seed", 0, INT64_MAX - 1}};
    s.run = [](const Vals& v, Ctx& c) {
      run_vec(c, v[0], (unsigned)v[1], (int)v[2], v[3], v[4], v[5], v[6], v[7], v[8], v[9], (int)v[10], (int)v[11], (int)v[12], (uint64_t)v[13]);
    };
    subs.push_back(s);
  }
  {
    // exhaustive: k in {1,2,3}, <=3 limbs, every limb value in [-2^(k+2), 2^(k+2)]; N=2 (coefficient 1 carries the negated limbs)
    Sub s;
    s.name = "exhaustive";
    s.fields = {{"k", 1, 3}, {"nl", 0, 3}, {"v0", -32, 32}, {"v1", -32, 32}, {"v2", -32, 32}, {"res_size", 0, 4}};
    s.run = [](const Vals& v, Ctx& c) {
      unsigned k = (unsigned)v[0];
      uint64_t nl = v[1];
      int64_t w = (int64_t)1 << (k + 2);
      for (int i = 0; i < 3; ++i) {
        if (std::llabs(v[2 + i]) > w) { c.discard = true; return; }
        if ((uint64_t)i >= nl && v[2 + i] != -w) { c.discard = true; return; }  // unused limbs: count each tuple once
      }
      std::vector<std::vector<int64_t>> forced(2, std::vector<int64_t>(nl));
      for (uint64_t i = 0; i < nl; ++i) { forced[0][i] = v[2 + i]; forced[1][i] = -v[2 + i]; }
      run_vec(c, 1, k, 0, v[5], nl, 0, 0, false, 0, 1, 0, 0, 1, 7, &forced);
      if (!c.failed()) run_vec(c, 1, k, 0, std::max<uint64_t>(v[5], nl), nl, 0, 0, true, 0, 1, 0, 0, 1, 7, &forced);
    };
    subs.push_back(s);
  }
  {
    // single-limb primitive: in + cin = out + cout*2^k for each of the six legal argument-presence combinations
    Sub s;
    s.name = "kernel";
    s.fields = {{"logn", 0, 14}, {"k", 1, 62}, {"combo", 0, 5}, {"alias", 0, 3}, {"fam", 0, 9}, {"cfam", 0, 3}, {"seed", 0, INT64_MAX - 1}};
    s.run = [](const Vals& v, Ctx& c) {
      const uint64_t n = 1ull << v[0];
      const unsigned k = (unsigned)v[1];
      // combos: (out,cout,cin): 0:(1,0,0) 1:(1,1,0) 2:(1,0,1) 3:(1,1,1) 4:(0,1,0) 5:(0,1,1)
      const int combo = (int)v[2];
      const bool has_out = combo <= 3, has_cout = combo == 1 || combo == 3 || combo >= 4, has_cin = combo == 2 || combo == 3 || combo == 5;
      int alias = (int)v[3];  // 0 none, 1 out==in, 2 cout==cin, 3 both
      Rng r((uint64_t)v[6]);
      Arena ar;
      Buf IN = ar.alloc(n * 8, OVER), OUT = ar.alloc(n * 8, OVER, 0, 1), CIN = ar.alloc(n * 8, UNDER), COUT = ar.alloc(n * 8, OVER, 0, 2);
      int64_t *in = IN.as<int64_t>(), *cin = CIN.as<int64_t>();
      std::vector<int64_t> l(n);
      gen_limbs(l, k, (int)v[4], r);
      memcpy(in, l.data(), n * 8);
      const int64_t cmax = (int64_t)1 << std::min<unsigned>(63 - k, 62);
      for (uint64_t i = 0; i < n; ++i) {
        switch (v[5]) {
          case 0: cin[i] = r.sym(cmax); break;
          case 1: cin[i] = (r.next() & 1) ? cmax : -cmax; break;
          case 2: cin[i] = r.sym(3); break;
          default: cin[i] = r.sym(((int64_t)1 << (k - 1)) + 2);
        }
      }
      std::vector<int64_t> in0(in, in + n), cin0(cin, cin + n);
      int64_t* outp = has_out ? ((alias & 1) ? in : OUT.as<int64_t>()) : nullptr;
      int64_t* coutp = has_cout ? (((alias & 2) && has_cin) ? cin : COUT.as<int64_t>()) : nullptr;
      znx_normalize(n, k, outp, coutp, in, has_cin ? cin : nullptr);
      const orc::i128 B = (orc::i128)1 << k;
      const int64_t half = (int64_t)1 << (k - 1);
      c.notef("znx_normalize n=%llu k=%u out=%d cout=%d cin=%d alias=%d", (unsigned long long)n, k, has_out, has_cout, has_cin, alias);
      for (uint64_t i = 0; i < n; ++i) {
        orc::i128 t = (orc::i128)in0[i] + (has_cin ? cin0[i] : 0);
        int64_t d = orc::balanced_digit(t, k);
        orc::i128 co = (t - d) / B;
        if (has_out) {
          if (outp[i] < -half || outp[i] >= half) return c.failf("znx_normalize k=%u in=%lld cin=%lld: out=%lld outside [-2^(k-1),2^(k-1))", k, (long long)in0[i], (long long)(has_cin ? cin0[i] : 0), (long long)outp[i]);
          if (outp[i] != d) return c.failf("znx_normalize k=%u in=%lld cin=%lld: out=%lld, expected %lld", k, (long long)in0[i], (long long)(has_cin ? cin0[i] : 0), (long long)outp[i], (long long)d);
        }
        if (has_cout) {
          if ((orc::i128)coutp[i] != co) return c.failf("znx_normalize k=%u in=%lld cin=%lld: carry_out=%lld, expected %lld (in+cin = out+cout*2^k)", k, (long long)in0[i], (long long)(has_cin ? cin0[i] : 0), (long long)coutp[i], (long long)co);
        }
      }
      if (!(alias & 1) || !has_out) if (memcmp(in, in0.data(), n * 8) != 0) return c.failf("znx_normalize modified its input");
      if (ar.check_canaries() >= 0) return c.failf("znx_normalize wrote outside its buffers");
      c.nontrivial = n >= 1 && (has_cin || has_cout);
      c.cls("k:" + std::to_string(k));
      c.cls("combo:" + std::to_string(combo));
      c.cls("variant:znx_normalize");
    };
    subs.push_back(s);
  }
  return subs;
}
