// C11 — memory contract: declared extents and *_tmp_bytes scratch are never exceeded; bytes_of_*() objects are large
// enough; no result depends on uninitialised memory (prefill differential); new_*/delete_* pairs release everything.
// Runs on the asan flavour (heap blocks of exactly the documented size, ASan + UBSan subset) and on the rel flavour
// (guard pages: also sees the hand-written assembly).
#include <cmath>
#include <functional>

#include "alloc_track.hpp"
#include "vecops.hpp"

using namespace vh;
const char* vh_property_id = "C11";

// One execution of an entry point: buffers come from the arena with per-buffer generated mode / misalignment / prefill.
struct Run {
  Arena ar;
  Rng modes;
  Rng data;
  int prefill;
  bool any_offset = false;
  std::vector<std::pair<const uint8_t*, std::vector<uint8_t>>> ins;
  std::vector<std::vector<uint8_t>> outs;
  Run(uint64_t mode_seed, uint64_t data_seed, int pf) : modes(mode_seed), data(data_seed), prefill(pf) {
    // one run in four carves all its buffers back to back out of one region (the layout of a caller-side arena)
    uint64_t pk = modes.below(8);
    if (pk >= 6) ar.set_packed(pk == 6 ? +1 : -1);
  }
  Buf get(size_t len, int pf) {
    int mode = (int)modes.below(3);
    size_t mis = 8 * modes.below(8);
    if (mode == MID && mis) any_offset = true;
    return ar.alloc(len, mode, mis, pf, modes.next());
  }
  uint8_t* in(size_t len) {
    Buf b = get(len, 3);
    ins.push_back({b.p, std::vector<uint8_t>()});
    ins.back().second.resize(len);
    return b.p;
  }
  uint8_t* out(size_t len) { return get(len, prefill).p; }
  uint8_t* scratch(size_t len) { return get(len, prefill + 1).p; }
  void freeze() {
    for (auto& i : ins)
      if (!i.second.empty()) memcpy(i.second.data(), i.first, i.second.size());
  }
  bool inputs_intact() const {
    for (auto& i : ins)
      if (!i.second.empty() && memcmp(i.second.data(), i.first, i.second.size()) != 0) return false;
    return true;
  }
  void result(const void* p, size_t len) { outs.emplace_back((const uint8_t*)p, (const uint8_t*)p + len); }
};

struct Shape {
  uint64_t k, n;
  MODULE_TYPE mt;
  unsigned mask;
  uint64_t s1, s2, s3, nrows, ncols, pad, kk, begin, step;
  unsigned bits;
};

// heap-fill differential: the two runs of a case build their tables / modules from heap memory with different initial contents
// (what malloc hands out is whatever earlier frees left there): a result may not depend on heap bytes the library never wrote
static const int HEAP_FILLS[4] = {0x00, 0xFF, 0x7F, 0xA5};

static void fill64(int64_t* p, size_t cnt, unsigned bits, Rng& r) {
  for (size_t i = 0; i < cnt; ++i) p[i] = r.sbits(bits);
}

enum { E_NORM = 0, E_BIGNORM, E_RANGENORM, E_DFT, E_IDFT, E_IDFT_TMPA, E_SVP_PREP, E_SVP_APPLY, E_VMP_PREP, E_VMP_APPLY, E_VMP_DFT2DFT, E_SMALL, E_COUNT };
static const char* ENAMES[E_COUNT] = {"vec_znx_normalize_base2k", "vec_znx_big_normalize_base2k", "vec_znx_big_range_normalize_base2k", "vec_znx_dft", "vec_znx_idft",
                                      "vec_znx_idft_tmp_a", "svp_prepare", "svp_apply_dft", "vmp_prepare_contiguous", "vmp_apply_dft", "vmp_apply_dft_to_dft",
                                      "znx_small_single_product"};

static void exec_entry(int e, const Shape& sh, MODULE* mod, Run& R) {
  const uint64_t n = sh.n, sl = n + sh.pad;
  auto ext = [&](uint64_t limbs) { return limbs ? ((limbs - 1) * sl + n) * 8 : (uint64_t)0; };
  const size_t dl = spq::dft_limb_bytes(sh.mt, n), bl = spq::big_limb_bytes(sh.mt, n);
  switch (e) {
    case E_NORM: {
      int64_t* a = (int64_t*)R.in(ext(sh.s1));
      for (uint64_t i = 0; i < sh.s1; ++i) fill64(a + i * sl, n, 62, R.data);
      int64_t* res = (int64_t*)R.out(ext(sh.s2));
      uint8_t* t = R.scratch(vec_znx_normalize_base2k_tmp_bytes(mod));
      R.freeze();
      vec_znx_normalize_base2k(mod, sh.kk, res, sh.s2, sl, a, sh.s1, sl, t);
      for (uint64_t i = 0; i < sh.s2; ++i) R.result(res + i * sl, n * 8);
      break;
    }
    case E_BIGNORM:
    case E_RANGENORM: {
      const uint64_t total = e == E_BIGNORM ? sh.s1 : sh.begin + (sh.s1 ? (sh.s1 - 1) * sh.step + 1 : 0);
      int64_t* g = (int64_t*)R.in(bytes_of_vec_znx_big(mod, total));
      fill64(g, total * n, 62, R.data);
      int64_t* res = (int64_t*)R.out(ext(sh.s2));
      uint8_t* t = R.scratch(e == E_BIGNORM ? vec_znx_big_normalize_base2k_tmp_bytes(mod) : vec_znx_big_range_normalize_base2k_tmp_bytes(mod));
      R.freeze();
      if (e == E_BIGNORM) vec_znx_big_normalize_base2k(mod, sh.kk, res, sh.s2, sl, (VEC_ZNX_BIG*)g, sh.s1, t);
      else vec_znx_big_range_normalize_base2k(mod, sh.kk, res, sh.s2, sl, (VEC_ZNX_BIG*)g, sh.begin, total, sh.step, t);
      for (uint64_t i = 0; i < sh.s2; ++i) R.result(res + i * sl, n * 8);
      break;
    }
    case E_DFT: {
      int64_t* a = (int64_t*)R.in(ext(sh.s1));
      for (uint64_t i = 0; i < sh.s1; ++i) fill64(a + i * sl, n, sh.mt == FFT64 ? 50 : 63, R.data);
      uint8_t* d = R.out(sh.s2 * dl);
      R.freeze();
      vec_znx_dft(mod, (VEC_ZNX_DFT*)d, sh.s2, a, sh.s1, sl);
      R.result(d, sh.s2 * dl);
      break;
    }
    case E_IDFT:
    case E_IDFT_TMPA: {
      int64_t* a = (int64_t*)R.in(sh.s1 * n * 8);
      fill64(a, sh.s1 * n, sh.mt == FFT64 ? sh.bits : 63, R.data);
      uint8_t* d = e == E_IDFT ? R.in(sh.s1 * dl) : R.out(sh.s1 * dl);
      vec_znx_dft(mod, (VEC_ZNX_DFT*)d, sh.s1, a, sh.s1, n);
      uint8_t* g = R.out(sh.s2 * bl);
      uint8_t* t = R.scratch(vec_znx_idft_tmp_bytes(mod));
      R.freeze();
      if (e == E_IDFT) vec_znx_idft(mod, (VEC_ZNX_BIG*)g, sh.s2, (VEC_ZNX_DFT*)d, sh.s1, t);
      else vec_znx_idft_tmp_a(mod, (VEC_ZNX_BIG*)g, sh.s2, (VEC_ZNX_DFT*)d, sh.s1);
      R.result(g, sh.s2 * bl);
      break;
    }
    case E_SVP_PREP: {
      int64_t* p = (int64_t*)R.in(n * 8);
      fill64(p, n, 50, R.data);
      uint8_t* pp = R.out(bytes_of_svp_ppol(mod));
      R.freeze();
      svp_prepare(mod, (SVP_PPOL*)pp, p);
      R.result(pp, bytes_of_svp_ppol(mod));
      break;
    }
    case E_SVP_APPLY: {
      int64_t* p = (int64_t*)R.in(n * 8);
      fill64(p, n, sh.bits, R.data);
      uint8_t* pp = R.in(bytes_of_svp_ppol(mod));
      svp_prepare(mod, (SVP_PPOL*)pp, p);
      int64_t* a = (int64_t*)R.in(ext(sh.s1));
      for (uint64_t i = 0; i < sh.s1; ++i) fill64(a + i * sl, n, sh.bits, R.data);
      uint8_t* d = R.out(bytes_of_vec_znx_dft(mod, sh.s2));
      R.freeze();
      svp_apply_dft(mod, (VEC_ZNX_DFT*)d, sh.s2, (SVP_PPOL*)pp, a, sh.s1, sl);
      R.result(d, bytes_of_vec_znx_dft(mod, sh.s2));
      break;
    }
    case E_VMP_PREP:
    case E_VMP_APPLY:
    case E_VMP_DFT2DFT: {
      int64_t* m = (int64_t*)R.in(sh.nrows * sh.ncols * n * 8);
      fill64(m, sh.nrows * sh.ncols * n, sh.bits, R.data);
      const size_t pmb = bytes_of_vmp_pmat(mod, sh.nrows, sh.ncols);
      uint8_t* pm = e == E_VMP_PREP ? R.out(pmb) : R.in(pmb);
      uint8_t* tp = R.scratch(vmp_prepare_contiguous_tmp_bytes(mod, sh.nrows, sh.ncols));
      if (e == E_VMP_PREP) R.freeze();
      vmp_prepare_contiguous(mod, (VMP_PMAT*)pm, m, sh.nrows, sh.ncols, tp);
      if (e == E_VMP_PREP) { R.result(pm, pmb); break; }
      int64_t* a = (int64_t*)R.in(ext(sh.s1));
      for (uint64_t i = 0; i < sh.s1; ++i) fill64(a + i * sl, n, sh.bits, R.data);
      uint8_t* res = R.out(bytes_of_vec_znx_dft(mod, sh.s2));
      if (e == E_VMP_APPLY) {
        uint8_t* t = R.scratch(vmp_apply_dft_tmp_bytes(mod, sh.s2, sh.s1, sh.nrows, sh.ncols));
        R.freeze();
        vmp_apply_dft(mod, (VEC_ZNX_DFT*)res, sh.s2, a, sh.s1, sl, (VMP_PMAT*)pm, sh.nrows, sh.ncols, t);
      } else {
        uint8_t* ad = R.in(bytes_of_vec_znx_dft(mod, sh.s1));
        vec_znx_dft(mod, (VEC_ZNX_DFT*)ad, sh.s1, a, sh.s1, sl);
        uint8_t* t = R.scratch(vmp_apply_dft_to_dft_tmp_bytes(mod, sh.s2, sh.s1, sh.nrows, sh.ncols));
        R.freeze();
        vmp_apply_dft_to_dft(mod, (VEC_ZNX_DFT*)res, sh.s2, (VEC_ZNX_DFT*)ad, sh.s1, (VMP_PMAT*)pm, sh.nrows, sh.ncols, t);
      }
      R.result(res, bytes_of_vec_znx_dft(mod, sh.s2));
      break;
    }
    default: {
      int64_t *a = (int64_t*)R.in(n * 8), *b = (int64_t*)R.in(n * 8);
      fill64(a, n, sh.bits, R.data);
      fill64(b, n, sh.bits, R.data);
      int64_t* res = (int64_t*)R.out(n * 8);
      uint8_t* t = R.scratch(znx_small_single_product_tmp_bytes(mod));
      R.freeze();
      znx_small_single_product(mod, res, a, b, t);
      R.result(res, n * 8);
    }
  }
}

// table-based / stand-alone kernels on exactly-sized, 8-byte-aligned buffers
enum { K_REIM_FFT = 0, K_REIM_IFFT, K_CPLX_FFT, K_CPLX_IFFT, K_FROM_ZNX64, K_TO_ZNX64, K_TO_TNX, K_CPLX_FROM_ZNX32, K_CPLX_FROM_TNX32, K_CPLX_TO_TNX32, K_REIM_MUL,
       K_REIM_ADDMUL, K_CPLX_MUL, K_CPLX_ADDMUL, K_REIM4_MUL, K_REIM4_ADDMUL, K_Q120_NTT, K_Q120_INTT, K_Q120_BAA, K_Q120_BBB, K_Q120_BBC, K_Q120_FROM64, K_Q120_TO128,
       K_ROT_INPLACE, K_AUT_INPLACE, K_SIMPLE_PAIR_TO_ZNX64, K_SIMPLE_PAIR_TO_TNX32, K_SIMPLE_PAIR_FROM_ZNX64, K_REIM4_CONV, K_REIM4_DOT, K_FFT_BUILTIN, K_COUNT };
static const char* KNAMES[K_COUNT] = {"reim_fft", "reim_ifft", "cplx_fft", "cplx_ifft", "reim_from_znx64", "reim_to_znx64", "reim_to_tnx", "cplx_from_znx32", "cplx_from_tnx32",
                                      "cplx_to_tnx32", "reim_fftvec_mul", "reim_fftvec_addmul", "cplx_fftvec_mul", "cplx_fftvec_addmul", "reim4_fftvec_mul", "reim4_fftvec_addmul",
                                      "q120_ntt_bb_avx2", "q120_intt_bb_avx2", "q120_vec_mat1col_product_baa", "q120_vec_mat1col_product_bbb", "q120_vec_mat1col_product_bbc",
                                      "q120_b_from_znx64_simple", "q120_b_to_znx128_simple", "znx_rotate_inplace_i64", "znx_automorphism_inplace_i64",
                                      "reim_to_znx64_simple(m1 then m2)", "cplx_to_tnx32_simple(m1 then m2)", "reim_from_znx64_simple(m1 then m2)",
                                      "reim4_convolution(1coeff/2coeff/windowed)", "reim4_vec_mat1col/mat2cols_product",
                                      "fft in the precomp's own buffers(reim/cplx, fft/ifft, 1..4 buffers)"};

static void exec_kernel(int kf, uint64_t m, unsigned mask, uint64_t ell, int avx, Run& R) {
  spq::MaskGuard g(mask);
  auto dbl = [&](double* p, size_t cnt) { for (size_t i = 0; i < cnt; ++i) p[i] = std::ldexp(R.data.sunit(), (int)R.data.below(30)); };
  switch (kf) {
    case K_REIM_FFT: case K_REIM_IFFT: case K_CPLX_FFT: case K_CPLX_IFFT: {
      double* d = (double*)R.out(2 * m * 8);
      dbl(d, 2 * m);
      void* t = kf == K_REIM_FFT ? (void*)new_reim_fft_precomp(m, 0) : kf == K_REIM_IFFT ? (void*)new_reim_ifft_precomp(m, 0)
                : kf == K_CPLX_FFT ? (void*)new_cplx_fft_precomp(m, 0) : (void*)new_cplx_ifft_precomp(m, 0);
      R.freeze();
      if (kf == K_REIM_FFT) reim_fft((REIM_FFT_PRECOMP*)t, d);
      else if (kf == K_REIM_IFFT) reim_ifft((REIM_IFFT_PRECOMP*)t, d);
      else if (kf == K_CPLX_FFT) cplx_fft((CPLX_FFT_PRECOMP*)t, d);
      else cplx_ifft((CPLX_IFFT_PRECOMP*)t, d);
      free(t);
      R.result(d, 2 * m * 8);
      break;
    }
    case K_FROM_ZNX64: {
      int64_t* x = (int64_t*)R.in(2 * m * 8);
      fill64(x, 2 * m, 50, R.data);
      double* o = (double*)R.out(2 * m * 8);
      auto* t = new_reim_from_znx64_precomp(m, 50);
      R.freeze();
      reim_from_znx64(t, o, x);
      free(t);
      R.result(o, 2 * m * 8);
      break;
    }
    case K_TO_ZNX64: {
      double* x = (double*)R.in(2 * m * 8);
      dbl(x, 2 * m);
      int64_t* o = (int64_t*)R.out(2 * m * 8);
      auto* t = new_reim_to_znx64_precomp(m, 4.0, ell & 1 ? 63 : 50);
      R.freeze();
      reim_to_znx64(t, o, x);
      free(t);
      R.result(o, 2 * m * 8);
      break;
    }
    case K_TO_TNX: {
      double* x = (double*)R.in(2 * m * 8);
      for (size_t i = 0; i < 2 * m; ++i) x[i] = R.data.sunit() * 1000.0;
      double* o = (double*)R.out(2 * m * 8);
      auto* t = new_reim_to_tnx_precomp(m, 2.0, 18);
      R.freeze();
      reim_to_tnx(t, o, x);
      free(t);
      R.result(o, 2 * m * 8);
      break;
    }
    case K_CPLX_FROM_ZNX32: case K_CPLX_FROM_TNX32: {
      int32_t* x = (int32_t*)R.in(2 * m * 4);
      for (size_t i = 0; i < 2 * m; ++i) x[i] = (int32_t)R.data.next();
      double* o = (double*)R.out(2 * m * 8);
      void* t = kf == K_CPLX_FROM_ZNX32 ? (void*)new_cplx_from_znx32_precomp(m) : (void*)new_cplx_from_tnx32_precomp(m);
      R.freeze();
      if (kf == K_CPLX_FROM_ZNX32) cplx_from_znx32((CPLX_FROM_ZNX32_PRECOMP*)t, o, x);
      else cplx_from_tnx32((CPLX_FROM_TNX32_PRECOMP*)t, o, x);
      free(t);
      R.result(o, 2 * m * 8);
      break;
    }
    case K_CPLX_TO_TNX32: {
      double* x = (double*)R.in(2 * m * 8);
      for (size_t i = 0; i < 2 * m; ++i) x[i] = R.data.sunit() * 1000.0;
      int32_t* o = (int32_t*)R.out(2 * m * 4);
      auto* t = new_cplx_to_tnx32_precomp(m, 2.0, 18);
      R.freeze();
      cplx_to_tnx32(t, o, x);
      free(t);
      R.result(o, 2 * m * 4);
      break;
    }
    case K_REIM_MUL: case K_REIM_ADDMUL: case K_CPLX_MUL: case K_CPLX_ADDMUL: case K_REIM4_MUL: case K_REIM4_ADDMUL: {
      double *a = (double*)R.in(2 * m * 8), *b = (double*)R.in(2 * m * 8);
      dbl(a, 2 * m);
      dbl(b, 2 * m);
      const bool addmul = kf == K_REIM_ADDMUL || kf == K_CPLX_ADDMUL || kf == K_REIM4_ADDMUL;
      double* r = (double*)(addmul ? R.in(2 * m * 8) : R.out(2 * m * 8));
      if (addmul) { dbl(r, 2 * m); R.ins.pop_back(); }  // accumulator: initialised input that is also the output
      R.freeze();
      switch (kf) {
        case K_REIM_MUL: { auto* t = new_reim_fftvec_mul_precomp(m); reim_fftvec_mul(t, r, a, b); free(t); break; }
        case K_REIM_ADDMUL: { auto* t = new_reim_fftvec_addmul_precomp(m); reim_fftvec_addmul(t, r, a, b); free(t); break; }
        case K_CPLX_MUL: { auto* t = new_cplx_fftvec_mul_precomp(m); cplx_fftvec_mul(t, r, a, b); free(t); break; }
        case K_CPLX_ADDMUL: { auto* t = new_cplx_fftvec_addmul_precomp(m); cplx_fftvec_addmul(t, r, a, b); free(t); break; }
        case K_REIM4_MUL: { auto* t = new_reim4_fftvec_mul_precomp(m); reim4_fftvec_mul(t, r, a, b); free(t); break; }
        default: { auto* t = new_reim4_fftvec_addmul_precomp(m); reim4_fftvec_addmul(t, r, a, b); free(t); }
      }
      R.result(r, 2 * m * 8);
      break;
    }
    case K_Q120_NTT: case K_Q120_INTT: {
      const uint64_t n = m;
      uint64_t* d = (uint64_t*)R.out(n * 32);
      for (size_t i = 0; i < 4 * n; ++i) d[i] = R.data.next();
      q120_ntt_precomp* t = kf == K_Q120_NTT ? q120_new_ntt_bb_precomp(n) : q120_new_intt_bb_precomp(n);
      R.freeze();
      if (kf == K_Q120_NTT) q120_ntt_bb_avx2(t, (q120b*)d); else q120_intt_bb_avx2(t, (q120b*)d);
      if (kf == K_Q120_NTT) q120_del_ntt_bb_precomp(t); else q120_del_intt_bb_precomp(t);
      R.result(d, n * 32);
      break;
    }
    case K_Q120_BAA: case K_Q120_BBB: case K_Q120_BBC: {
      uint64_t* x = (uint64_t*)R.in(ell * 32);
      uint64_t* y = (uint64_t*)R.in(ell * 32);
      for (size_t i = 0; i < 4 * ell; ++i) { x[i] = R.data.next(); y[i] = R.data.next(); }
      if (kf == K_Q120_BAA) for (size_t i = 0; i < 4 * ell; ++i) { x[i] &= 0xFFFFFFFFull; y[i] &= 0xFFFFFFFFull; }
      uint64_t* r = (uint64_t*)R.out(32);
      R.freeze();
      if (kf == K_Q120_BAA) { auto* t = q120_new_vec_mat1col_product_baa_precomp(); (avx ? q120_vec_mat1col_product_baa_avx2 : q120_vec_mat1col_product_baa_ref)(t, ell, (q120b*)r, (q120a*)x, (q120a*)y); q120_delete_vec_mat1col_product_baa_precomp(t); }
      else if (kf == K_Q120_BBB) { auto* t = q120_new_vec_mat1col_product_bbb_precomp(); (avx ? q120_vec_mat1col_product_bbb_avx2 : q120_vec_mat1col_product_bbb_ref)(t, ell, (q120b*)r, (q120b*)x, (q120b*)y); q120_delete_vec_mat1col_product_bbb_precomp(t); }
      else { auto* t = q120_new_vec_mat1col_product_bbc_precomp(); (avx ? q120_vec_mat1col_product_bbc_avx2 : q120_vec_mat1col_product_bbc_ref)(t, ell, (q120b*)r, (q120b*)x, (q120c*)y); q120_delete_vec_mat1col_product_bbc_precomp(t); }
      R.result(r, 32);
      break;
    }
    case K_Q120_FROM64: {
      int64_t* x = (int64_t*)R.in(m * 8);
      fill64(x, m, 63, R.data);
      uint64_t* o = (uint64_t*)R.out(m * 32);
      R.freeze();
      q120_b_from_znx64_simple(m, (q120b*)o, x);
      R.result(o, m * 32);
      break;
    }
    case K_Q120_TO128: {
      uint64_t* x = (uint64_t*)R.in(m * 32);
      for (size_t i = 0; i < 4 * m; ++i) x[i] = R.data.next();
      uint8_t* o = R.out(m * 16);
      R.freeze();
      q120_b_to_znx128_simple(m, (__int128_t*)o, (q120b*)x);
      R.result(o, m * 16);
      break;
    }
    case K_SIMPLE_PAIR_TO_ZNX64: case K_SIMPLE_PAIR_TO_TNX32: case K_SIMPLE_PAIR_FROM_ZNX64: {
      // the cached convenience API called twice in a row with DIFFERENT dimensions and otherwise equal parameters, each time on
      // buffers of exactly the size of that call: a cache keyed on too little reads/writes with the other call's dimension
      const uint64_t m2 = (ell & 1) ? m * 4 : (m >= 4 ? m / 4 : m * 2);
      const uint64_t dims[2] = {m, m2};
      for (int c = 0; c < 2; ++c) {
        const uint64_t mm = dims[c];
        if (kf == K_SIMPLE_PAIR_FROM_ZNX64) {
          int64_t* x = (int64_t*)R.in(2 * mm * 8);
          fill64(x, 2 * mm, 50, R.data);
          double* o = (double*)R.out(2 * mm * 8);
          R.freeze();
          reim_from_znx64_simple((uint32_t)mm, 50, o, x);
          R.result(o, 2 * mm * 8);
        } else {
          double* x = (double*)R.in(2 * mm * 8);
          for (size_t i = 0; i < 2 * mm; ++i) x[i] = R.data.sunit() * 1000.0;
          if (kf == K_SIMPLE_PAIR_TO_ZNX64) {
            int64_t* o = (int64_t*)R.out(2 * mm * 8);
            R.freeze();
            reim_to_znx64_simple((uint32_t)mm, 4.0, avx ? 63 : 50, o, x);
            R.result(o, 2 * mm * 8);
          } else {
            int32_t* o = (int32_t*)R.out(2 * mm * 4);
            R.freeze();
            cplx_to_tnx32_simple((uint32_t)mm, 2048.0, 18, o, x);
            R.result(o, 2 * mm * 4);
          }
        }
      }
      break;
    }
    case K_REIM4_CONV: {
      // table-free reim4 kernels on exactly-sized arrays: every destination element is written whatever it held before, also the
      // coefficients outside the support of the product, and nothing beyond sizea / sizeb elements is read
      const uint64_t sizea = ell % 7, sizeb = (ell / 7) % 6, off = (uint64_t)(m % 9), dsz = 1 + (uint64_t)(m % 5), which = (uint64_t)avx + 2 * (ell & 1);
      double *a = (double*)R.in(sizea * 64), *b = (double*)R.in(sizeb * 64);
      dbl(a, sizea * 8); dbl(b, sizeb * 8);
      double* r = (double*)R.out((which % 3 == 2 ? dsz : which % 3 == 1 ? 2 : 1) * 64);
      R.freeze();
      if (which % 3 == 0) { reim4_convolution_1coeff_ref(off, r, a, sizea, b, sizeb); R.result(r, 64); }
      else if (which % 3 == 1) { reim4_convolution_2coeff_ref(off, r, a, sizea, b, sizeb); R.result(r, 128); }
      else { reim4_convolution_ref(r, dsz, off, a, sizea, b, sizeb); R.result(r, dsz * 64); }
      break;
    }
    case K_FFT_BUILTIN: {
      // transforms inside the buffers the table object itself provides (new_*_precomp(m, num_buffers), *_precomp_get_buffer): each of
      // them holds 2m doubles and belongs to the object's single heap block (the sanitizer / the exact-size tracker sees its end)
      const uint32_t nbuf = 1 + (uint32_t)(ell % 4), which = (uint32_t)avx + 2 * (uint32_t)((ell / 4) & 1);
      void* t = which == 0 ? (void*)new_reim_fft_precomp((uint32_t)m, nbuf) : which == 1 ? (void*)new_reim_ifft_precomp((uint32_t)m, nbuf)
                : which == 2 ? (void*)new_cplx_fft_precomp((uint32_t)m, nbuf) : (void*)new_cplx_ifft_precomp((uint32_t)m, nbuf);
      std::vector<double*> bufs(nbuf);
      for (uint32_t i = 0; i < nbuf; ++i) {
        bufs[i] = which == 0 ? reim_fft_precomp_get_buffer((REIM_FFT_PRECOMP*)t, i) : which == 1 ? reim_ifft_precomp_get_buffer((REIM_IFFT_PRECOMP*)t, i)
                  : which == 2 ? (double*)cplx_fft_precomp_get_buffer((CPLX_FFT_PRECOMP*)t, i) : (double*)cplx_ifft_precomp_get_buffer((CPLX_IFFT_PRECOMP*)t, i);
        dbl(bufs[i], 2 * m);
      }
      R.freeze();
      for (uint32_t i = nbuf; i-- > 0;) {
        if (which == 0) reim_fft((REIM_FFT_PRECOMP*)t, bufs[i]);
        else if (which == 1) reim_ifft((REIM_IFFT_PRECOMP*)t, bufs[i]);
        else if (which == 2) cplx_fft((CPLX_FFT_PRECOMP*)t, bufs[i]);
        else cplx_ifft((CPLX_IFFT_PRECOMP*)t, bufs[i]);
      }
      for (uint32_t i = 0; i < nbuf; ++i) R.result(bufs[i], 2 * m * 8);
      free(t);
      break;
    }
    case K_REIM4_DOT: {
      const uint64_t rows = ell;  // 0..40
      double *u = (double*)R.in(rows * 64), *v1 = (double*)R.in(rows * 64), *v2 = (double*)R.in(rows * 128);
      dbl(u, rows * 8); dbl(v1, rows * 8); dbl(v2, rows * 16);
      double *r1 = (double*)R.out(64), *r2 = (double*)R.out(128);
      R.freeze();
      (avx ? reim4_vec_mat1col_product_avx2 : reim4_vec_mat1col_product_ref)(rows, r1, u, v1);
      (avx ? reim4_vec_mat2cols_product_avx2 : reim4_vec_mat2cols_product_ref)(rows, r2, u, v2);
      R.result(r1, 64);
      R.result(r2, 128);
      break;
    }
    default: {
      int64_t* x = (int64_t*)R.out(m * 8);
      fill64(x, m, 62, R.data);
      int64_t p = (int64_t)(R.data.next() >> 2) | 1;
      R.freeze();
      if (kf == K_ROT_INPLACE) znx_rotate_inplace_i64(m, p, x); else znx_automorphism_inplace_i64(m, p, x);
      R.result(x, m * 8);
    }
  }
}

std::vector<Sub> vh_subs() {
  std::vector<Sub> subs;
  {
    Sub s;
    s.name = "vec";  // element-wise API on exactly-sized, misaligned buffers, zero sizes, with the C08 model (result still correct)
    s.fields = {{"k", 1, 12}, {"op", 0, vecops::NOPS - 1}, {"res_size", 0, 3}, {"a_size", 0, 3}, {"b_size", 0, 3}, {"res_pad", 0, 3}, {"a_pad", 0, 3}, {"b_pad", 0, 3},
                {"alias", 0, 4}, {"misalign", 0, 7}, {"amode", 0, 1}, {"mtype", 0, 1}, {"cfg", 0, 1}, {"pu", 0, INT64_MAX - 1}, {"prefill", 0, 3}, {"seed", 0, INT64_MAX - 1}};
    s.run = [](const Vals& v, Ctx& ctx) {
      vecops::Case c;
      c.k = v[0]; c.op = (int)v[1]; c.rs = v[2]; c.as = v[3]; c.bs = v[4];
      c.rpad = v[5]; c.apad = v[6]; c.bpad = v[7];
      c.alias = (int)v[8];
      const auto& o = vecops::OPS[c.op];
      if (o.res_big && c.alias) c.rpad = c.apad = c.bpad = 0;
      c.misalign = 8 * v[9];
      c.amode = v[10] ? 2 : -1;
      c.mtype = (int)v[11];
      c.mask = v[12] ? spq::GENERIC : spq::FULL;
      c.p = ring::make_p(1 + (int)(v[13] % 3), c.k, (int64_t)(v[13] >> 8) % 18, (uint64_t)v[13] >> 16, (int)(v[13] & 1), o.arith == 'a');
      c.prefill = (int)v[14]; c.seed = (uint64_t)v[15];
      vecops::run(ctx, c);
      ctx.nontrivial = c.rs <= 1 || (o.nin >= 1 && c.as <= 1) || (o.nin >= 2 && c.bs <= 1) || (c.amode == 2 && c.misalign) || c.rpad || c.apad || c.bpad;
      ctx.cls(std::string("entry:") + o.name);
      if (c.rs == 0 || (o.nin >= 1 && c.as == 0) || (o.nin >= 2 && c.bs == 0)) ctx.cls(std::string("zero_size:") + o.name);
      if (c.amode == 2 && c.misalign) ctx.cls(std::string("offset:") + o.name);
    };
    subs.push_back(s);
  }
  {
    Sub s;
    s.name = "entry";  // module-level entry points: exact extents, exact scratch, prefill differential
    s.fields = {{"k", 1, 16}, {"e", 0, E_COUNT - 1}, {"mtype", 0, 1}, {"cfg", 0, 1}, {"s1", 0, 4}, {"s2", 0, 4}, {"nrows", 1, 32}, {"ncols", 1, 32}, {"pad", 0, 3},
                {"kk", 1, 62}, {"begin", 0, 2}, {"step", 1, 3}, {"bits", 1, 18}, {"pf1", 0, 3}, {"pf2", 0, 3}, {"seed", 0, INT64_MAX - 1}};
    s.run = [](const Vals& v, Ctx& ctx) {
      Shape sh;
      sh.k = v[0]; sh.n = 1ull << sh.k;
      const int e = (int)v[1];
      const bool ntt_ok = e == E_NORM || e == E_DFT || e == E_IDFT || e == E_IDFT_TMPA;
      sh.mt = (v[2] && ntt_ok) ? NTT120 : FFT64;
      sh.mask = (v[3] && sh.mt == FFT64) ? spq::GENERIC : spq::FULL;
      sh.s1 = v[4]; sh.s2 = v[5]; sh.nrows = v[6]; sh.ncols = v[7]; sh.pad = v[8]; sh.kk = v[9]; sh.begin = v[10]; sh.step = v[11];
      sh.bits = (unsigned)std::min<int64_t>(v[12], (44 - (int64_t)sh.k) / 2);
      if (sh.k >= 10) { sh.s1 %= 3; sh.s2 %= 3; sh.nrows = 1 + sh.nrows % 2; sh.ncols = 1 + sh.ncols % 2; }
      int pf2 = (int)v[14];
      if (pf2 == v[13]) pf2 = (pf2 + 1) & 3;
      MODULE* mod = spq::modules().get(sh.n, sh.mt, sh.mask);
      // one case in two (N <= 2048) gives each run its own freshly created module, built from heap memory with different contents
      const bool fresh = sh.k <= 11 && ((v[15] >> 9) & 1);
      auto with_module = [&](int pf, Run& R) {
        if (!fresh) return exec_entry(e, sh, mod, R);
        at::set_fill(HEAP_FILLS[pf & 3]);
        MODULE* fm;
        { spq::MaskGuard g(sh.mask); fm = new_module_info(sh.n, sh.mt); }
        exec_entry(e, sh, fm, R);
        { spq::MaskGuard g(sh.mask); delete_module_info(fm); }
        at::set_fill(-1);
      };
      ctx.notef("%s N=%llu %s cfg=%s s1=%llu s2=%llu %llux%llu pad=%llu k=%llu range=(%llu,step %llu) prefills %d/%d", ENAMES[e], (unsigned long long)sh.n,
                sh.mt == FFT64 ? "FFT64" : "NTT120", sh.mask ? "generic" : "full", (unsigned long long)sh.s1, (unsigned long long)sh.s2, (unsigned long long)sh.nrows,
                (unsigned long long)sh.ncols, (unsigned long long)sh.pad, (unsigned long long)sh.kk, (unsigned long long)sh.begin, (unsigned long long)sh.step, (int)v[13], pf2);
      Run r1((uint64_t)v[15] * 3 + 1, (uint64_t)v[15], (int)v[13]);
      with_module((int)v[13], r1);
      if (!r1.inputs_intact()) return ctx.failf("%s: a source operand was modified", ENAMES[e]);
      if (r1.ar.check_canaries() >= 0) return ctx.failf("%s N=%llu: write outside a declared extent / beyond *_tmp_bytes", ENAMES[e], (unsigned long long)sh.n);
      Run r2((uint64_t)v[15] * 7 + 5, (uint64_t)v[15], pf2);
      with_module(pf2, r2);
      if (r2.ar.check_canaries() >= 0) return ctx.failf("%s N=%llu: write outside a declared extent / beyond *_tmp_bytes (2nd run)", ENAMES[e], (unsigned long long)sh.n);
      if (r1.outs != r2.outs) {
        size_t w = 0, off = 0;
        for (; w < r1.outs.size(); ++w) if (r1.outs[w] != r2.outs[w]) { for (off = 0; off < r1.outs[w].size() && r1.outs[w][off] == r2.outs[w][off]; ++off) {} break; }
        return ctx.failf("%s N=%llu %s s1=%llu s2=%llu %llux%llu: result depends on the previous contents of output/scratch, on buffer placement%s (output %zu byte %zu differs between two runs on identical inputs)",
                         ENAMES[e], (unsigned long long)sh.n, sh.mt == FFT64 ? "FFT64" : "NTT120", (unsigned long long)sh.s1, (unsigned long long)sh.s2,
                         (unsigned long long)sh.nrows, (unsigned long long)sh.ncols, fresh ? " or on the initial contents of the heap memory the module was built from" : "", w, off);
      }
      if (fresh) ctx.cls("fresh-module,heap-fill-differential");
      const bool small = sh.s1 <= 1 || sh.s2 <= 1;
      ctx.nontrivial = small || r1.any_offset || r2.any_offset || sh.pad;
      ctx.cls(std::string("entry:") + ENAMES[e]);
      if (sh.s1 == 0 || sh.s2 == 0) ctx.cls(std::string("zero_size:") + ENAMES[e]);
      if (r1.any_offset || r2.any_offset) ctx.cls(std::string("offset:") + ENAMES[e]);
      ctx.cls(sh.mt == FFT64 ? "module:FFT64" : "module:NTT120");
      ctx.cls(sh.mask ? "cfg:generic" : "cfg:full");
    };
    subs.push_back(s);
  }
  {
    Sub s;
    s.name = "kernels";
    s.fields = {{"logm", 0, 16}, {"kf", 0, K_COUNT - 1}, {"cfg", 0, 1}, {"ell", 0, 40}, {"avx", 0, 1}, {"pf1", 0, 3}, {"pf2", 0, 3}, {"seed", 0, INT64_MAX - 1}};
    s.run = [](const Vals& v, Ctx& ctx) {
      uint64_t logm = v[0];
      const int kf = (int)v[1];
      if ((kf == K_REIM4_MUL || kf == K_REIM4_ADDMUL) && logm < 2) logm = 2;
      if (kf >= K_SIMPLE_PAIR_TO_ZNX64 && logm > 14) logm = 14;
      if (kf >= K_REIM4_CONV && logm > 10) logm = 10;  // m only seeds the window parameters of the table-free reim4 kernels
      const uint64_t m = 1ull << logm;
      unsigned mask = v[2] ? spq::GENERIC : spq::FULL;
      if (kf >= K_Q120_NTT) mask = spq::FULL;  // q120 kernels and the *_simple caches: default dispatch only
      int pf2 = (int)v[6];
      if (pf2 == v[5]) pf2 = (pf2 + 1) & 3;
      ctx.notef("%s m=%llu cfg=%s ell=%lld avx=%lld", KNAMES[kf], (unsigned long long)m, mask ? "generic" : "full", (long long)v[3], (long long)v[4]);
      Run r1((uint64_t)v[7] * 3 + 1, (uint64_t)v[7], (int)v[5]);
      at::set_fill(HEAP_FILLS[v[5] & 3]);  // the tables of run 1 and run 2 are built from differently filled heap memory
      exec_kernel(kf, m, mask, (uint64_t)v[3], (int)v[4], r1);
      at::set_fill(-1);
      if (!r1.inputs_intact()) return ctx.failf("%s m=%llu: a source operand was modified", KNAMES[kf], (unsigned long long)m);
      if (r1.ar.check_canaries() >= 0) return ctx.failf("%s m=%llu: write outside a declared extent", KNAMES[kf], (unsigned long long)m);
      Run r2((uint64_t)v[7] * 7 + 5, (uint64_t)v[7], pf2);
      at::set_fill(HEAP_FILLS[pf2 & 3]);
      exec_kernel(kf, m, mask, (uint64_t)v[3], (int)v[4], r2);
      at::set_fill(-1);
      if (r2.ar.check_canaries() >= 0) return ctx.failf("%s m=%llu: write outside a declared extent (2nd run)", KNAMES[kf], (unsigned long long)m);
      if (r1.outs != r2.outs) return ctx.failf("%s m=%llu: result depends on previous output contents, on buffer placement/alignment or on the initial contents of the heap memory its table was built from", KNAMES[kf], (unsigned long long)m);
      ctx.nontrivial = true;
      ctx.cls(std::string("kernel:") + KNAMES[kf]);
      if (r1.any_offset || r2.any_offset) ctx.cls(std::string("offset:") + KNAMES[kf]);
    };
    subs.push_back(s);
  }
  {
    Sub s;
    s.name = "objects";  // new_*/delete_* pairs release everything they allocated
    s.fields = {{"logn", 1, 14}, {"kind", 0, 17}, {"cfg", 0, 1}, {"size", 0, 6}, {"nrows", 1, 6}, {"ncols", 1, 6}};
    s.run = [](const Vals& v, Ctx& ctx) {
      const uint64_t n = 1ull << v[0], m = n / 2;
      const int kind = (int)v[1];
      unsigned mask = v[2] ? spq::GENERIC : spq::FULL;
      static const char* names[] = {"module_info:FFT64", "module_info:NTT120", "vec_znx_dft", "vec_znx_big", "svp_ppol", "vmp_pmat", "reim_fft_precomp", "reim_ifft_precomp",
                                    "cplx_fft_precomp", "cplx_ifft_precomp", "reim_fftvec_mul/addmul_precomp", "reim conversions precomp", "cplx conversions precomp",
                                    "q120_ntt_bb_precomp", "q120_intt_bb_precomp", "q120 product precomps", "reim4 precomps", "spqlios_alloc/free"};
      MODULE* mod = spq::modules().get(n, FFT64, 0);
      spq::MaskGuard g(mask);
      at::begin();
      size_t peak = 0;
      switch (kind) {
        case 0: { MODULE* x = new_module_info(n, FFT64); peak = at::live(); delete_module_info(x); break; }
        case 1: { MODULE* x = new_module_info(n, NTT120); peak = at::live(); delete_module_info(x); break; }
        case 2: { auto* x = new_vec_znx_dft(mod, v[3]); peak = at::live(); delete_vec_znx_dft(x); break; }
        case 3: { auto* x = new_vec_znx_big(mod, v[3]); peak = at::live(); delete_vec_znx_big(x); break; }
        case 4: { auto* x = new_svp_ppol(mod); peak = at::live(); delete_svp_ppol(x); break; }
        case 5: { auto* x = new_vmp_pmat(mod, v[4], v[5]); peak = at::live(); delete_vmp_pmat(x); break; }
        case 6: { auto* x = new_reim_fft_precomp(m, (uint32_t)v[3] % 3); peak = at::live(); delete_reim_fft_precomp(x); break; }
        case 7: { auto* x = new_reim_ifft_precomp(m, (uint32_t)v[3] % 3); peak = at::live(); delete_reim_ifft_precomp(x); break; }
        case 8: { auto* x = new_cplx_fft_precomp(m, (uint32_t)v[3] % 3); peak = at::live(); free(x); break; }
        case 9: { auto* x = new_cplx_ifft_precomp(m, (uint32_t)v[3] % 3); peak = at::live(); free(x); break; }
        case 10: { auto* x = new_reim_fftvec_mul_precomp(m); auto* y = new_reim_fftvec_addmul_precomp(m); peak = at::live(); delete_reim_fftvec_mul_precomp(x); delete_reim_fftvec_addmul_precomp(y); break; }
        case 11: { auto* x = new_reim_from_znx64_precomp(m, 50); auto* y = new_reim_to_znx64_precomp(m, 2.0, 63); auto* z = new_reim_to_tnx_precomp(m, 2.0, 18); peak = at::live(); free(x); free(y); free(z); break; }
        case 12: { auto* x = new_cplx_from_znx32_precomp(m); auto* y = new_cplx_from_tnx32_precomp(m); auto* z = new_cplx_to_tnx32_precomp(m, 2.0, 18); peak = at::live(); free(x); free(y); free(z); break; }
        case 13: { auto* x = q120_new_ntt_bb_precomp(n); peak = at::live(); q120_del_ntt_bb_precomp(x); break; }
        case 14: { auto* x = q120_new_intt_bb_precomp(n); peak = at::live(); q120_del_intt_bb_precomp(x); break; }
        case 15: { auto* x = q120_new_vec_mat1col_product_baa_precomp(); auto* y = q120_new_vec_mat1col_product_bbb_precomp(); auto* z = q120_new_vec_mat1col_product_bbc_precomp(); peak = at::live();
                   q120_delete_vec_mat1col_product_baa_precomp(x); q120_delete_vec_mat1col_product_bbb_precomp(y); q120_delete_vec_mat1col_product_bbc_precomp(z); break; }
        case 16: { auto* x = new_reim4_fftvec_mul_precomp(m < 4 ? 4 : m); auto* y = new_reim4_fftvec_addmul_precomp(m < 4 ? 4 : m); auto* z = new_reim4_from_cplx_precomp(m < 4 ? 4 : m); auto* w = new_reim4_to_cplx_precomp(m < 4 ? 4 : m);
                   peak = at::live(); free(x); free(y); free(z); free(w); break; }
        default: { void* x = spqlios_alloc(n * 8); void* y = spqlios_alloc_custom_align(64, (n * 8 + 63) & ~(uint64_t)63); peak = at::live(); spqlios_free(x); spqlios_free(y); }
      }
      const size_t left = at::live();
      at::end();
      ctx.notef("new/delete %s N=%llu cfg=%s: %zu blocks at peak, %zu left", names[kind], (unsigned long long)n, mask ? "generic" : "full", peak, left);
      if (left != 0) return ctx.failf("new/delete pair of %s (N=%llu, cfg=%s) leaks %zu of %zu heap blocks", names[kind], (unsigned long long)n, mask ? "generic" : "full", left, peak);
      ctx.nontrivial = peak >= 1;
      ctx.cls(std::string("object:") + names[kind]);
    };
    subs.push_back(s);
  }
  return subs;
}
