"""Per-property job plans: strata (one harness process per job), case counts, required classes.

Each props/plan_cXX.py defines PLAN (a dict, see plan_c09.py for the fields).
A job = dict(sub=..., count=N | enum=True, fix={field: value | (lo,hi)}, flavour=..., split=n).
Budgets are case counts, never wall-clock limits (DESIGN 2.4).
"""
import glob
import importlib
import os

PLANS = {}
for _f in sorted(glob.glob(os.path.join(os.path.dirname(os.path.abspath(__file__)), "plan_c*.py"))):
    _m = importlib.import_module(os.path.splitext(os.path.basename(_f))[0])
    PLANS[_m.PLAN_ID] = _m.PLAN
