// C14 — numeric layout conversions are exact or correctly rounded on their whole domain.
//
// Oracles (all exact, no tolerance is added for the oracle itself):
//  * from_znx64 / cplx_from_znx32 / cplx_from_tnx32: (double)x and (double)x * 2^-32 are exact for |x| < 2^53.
//  * to_znx64 / cplx_to_tnx32: z = x/d (resp. x*2^32/d) is an exact power-of-two rescaling of a double;
//    a = |z| < 2^52, f = floor(a) and a - f are exact doubles (a - f keeps the low bits of a and is < 1), so
//    "integer within 1/2 of z" is decided exactly: sign*f if a-f < 1/2, sign*(f+1) if a-f > 1/2, either at a-f == 1/2.
//  * reim_to_tnx: t = sign * (a - floor(a)) is an exact double congruent to x/d modulo 1; out - t is evaluated as an
//    unevaluated long-double sum s + e (TwoSum, error free) and compared exactly against k +- 2^(ovh-50), k in
//    {-1,0,1} (the three representatives cover out in [-1/2,1/2], t in (-1,1)): torus distance, no rounding allowance.
// Non-trivial: the vector contains a value with |x/d| >= bound/4 or within 2^-20 of a half-integer (of the rounding grid).
#include <algorithm>
#include <cmath>
#include <cstring>
#include <thread>

#include "arena.hpp"
#include "harness.hpp"
#include "spq.hpp"

using namespace vh;
const char* vh_property_id = "C14";

// exported by reim_to_tnx_ref.c but not declared in any header
extern "C" void reim_to_tnx_basic_ref(const REIM_TO_TNX_PRECOMP* tables, double* r, const double* x);

typedef unsigned long long ull;
typedef long long ll;

// ------------------------------------------------------------------------------------------ domains and values
struct Dom {
  int b;      // |y| < 2^b ...
  bool incl;  // ... or <= 2^b
  int g;      // rounding grid 2^g of the conversion (0: integers; -32: torus32); ties are (k+1/2)*2^g
};

static double clampdom(double y, const Dom& D) {
  const double B = std::ldexp(1.0, D.b);
  double a = std::fabs(y);
  if (a > B || (a == B && !D.incl)) a = D.incl ? B : std::nextafter(B, 0.0);
  return std::copysign(a, y);
}

enum { F_EDGE = 0, F_TIE, F_NEARTIE, F_SPECIAL, F_BINADE, F_INT, F_UPPER, F_MIXED, F_COUNT };
static const char* fam_name[] = {"edge", "tie", "neartie", "special", "binade", "int", "upperquarter", "mixed"};

// an exact tie of the grid: (k + 1/2) * 2^g with k < 2^(b-g) (b-g <= 52 for every conversion: representable)
static double gen_tie(Rng& r, const Dom& D) {
  int w = D.b - D.g;  // number of integer bits available on the grid
  if (w > 52) w = 52;
  unsigned e = (unsigned)r.below((uint64_t)w + 1);
  uint64_t k = 0;
  if (e >= 1) k = (1ull << (e - 1)) + (r.next() & ((1ull << (e - 1)) - 1));
  if (r.below(8) == 0 && w >= 1) k = (1ull << w) - 1 - r.below(3 < (1ull << w) ? 3 : 1);  // right below the bound
  return std::ldexp((double)k + 0.5, D.g);
}

static double gen_y(Rng& r, int fam, const Dom& D) {
  const double B = std::ldexp(1.0, D.b);
  const double u = std::ldexp(1.0, D.g);
  const bool neg = r.next() & 1;
  double y = 0;
  if (fam == F_MIXED) fam = (int)r.below(F_MIXED);
  switch (fam) {
    case F_EDGE:
      switch (r.below(10)) {
        case 0: y = B - u; break;                              // largest grid point inside (2^50-1, 2^52-1, 2^18-2^-32)
        case 1: y = std::nextafter(B, 0.0); break;             // largest double inside
        case 2: y = D.incl ? B : std::nextafter(B, 0.0); break;
        case 3: y = B - u / 2; break;                          // tie right below the bound
        case 4: y = B - u - u / 2; break;
        case 5: y = B / 2; break;
        case 6: y = B / 4; break;
        case 7: y = std::nextafter(B / 2, 0.0); break;
        case 8: y = B - u / 8; break;                          // 2^18-2^-35 for torus32
        default: y = std::nextafter(B - u / 2, (r.next() & 1) ? 0.0 : B); break;
      }
      break;
    case F_TIE: y = gen_tie(r, D); break;
    case F_NEARTIE: {
      double t = gen_tie(r, D);
      switch (r.below(6)) {
        case 0: y = std::nextafter(t, 0.0); break;
        case 1: y = std::nextafter(t, HUGE_VAL); break;
        case 2: y = t + std::ldexp(1.0, D.g - 21); break;
        case 3: y = t - std::ldexp(1.0, D.g - 21); break;
        case 4: y = t + std::ldexp(r.sunit(), D.g - 20 - (int)r.below(30)); break;
        default: y = std::nextafter(std::nextafter(t, (r.next() & 1) ? 0.0 : HUGE_VAL), (r.next() & 1) ? 0.0 : HUGE_VAL);
      }
      break;
    }
    case F_SPECIAL: {
      const double sp[] = {0.0, 0.0, 0x1p-60, 0x1p-200, 0.25, 0.5, std::nextafter(0.5, 0.0), std::nextafter(0.5, 1.0), 1.0,
                           std::nextafter(1.0, 0.0), 1.5, std::nextafter(1.5, 0.0), std::nextafter(1.5, 2.0), 2.5, 0.75,
                           std::nextafter(0.25, 0.0), 3.0, 0x1p-53, 0x1p-52};
      y = sp[r.below(sizeof sp / sizeof sp[0])] * ((r.next() & 1) ? u : 1.0);
      break;
    }
    case F_BINADE: {
      int lo = D.g - 8, e = lo + (int)r.below((uint64_t)(D.b - lo));  // lo <= e < b
      y = std::ldexp(1.0 + r.unit(), e);
      break;
    }
    case F_INT: {
      int w = D.b - D.g;
      if (w > 52) w = 52;
      unsigned bits = (unsigned)r.below((uint64_t)w + 1);
      uint64_t k = bits ? (r.next() & ((1ull << bits) - 1)) | (1ull << (bits - 1)) : 0;
      if (r.below(4) == 0 && bits >= 2) k = (1ull << (bits - 1)) + r.below(2);  // 2^e, 2^e+1
      if (r.below(4) == 0 && bits >= 2) k = (1ull << bits) - 1;                  // 2^e-1
      y = std::ldexp((double)k, D.g);
      break;
    }
    default:  // upper three quarters of the domain
      y = (0.25 + 0.75 * r.unit()) * B;
      if (r.below(3) == 0) y = std::ldexp(std::floor(std::ldexp(y, -D.g)), D.g);  // on the grid
      break;
  }
  return clampdom(neg ? -y : y, D);
}

// statement's non-trivial rule for one value
// (bq = log2 of a quarter of the statement's bound, g = log2 of the rounding grid)
static bool nontrivial_y(double y, int bq, int g) {
  double a = std::fabs(y);
  if (a >= std::ldexp(1.0, bq)) return true;
  double z = std::ldexp(a, -g);
  if (z >= 0x1p52) return false;
  double fr = z - std::floor(z);
  return std::fabs(fr - 0.5) <= 0x1p-20;
}

// exact: is `out` an integer within 1/2 of z (|z| < 2^53)?  (ties: either neighbour)
static bool nearest_ok(double z, int64_t out, int64_t* lo, int64_t* hi) {
  double a = std::fabs(z), f = std::floor(a), fr = a - f;  // exact
  int64_t n = (int64_t)f, n0 = n, n1 = n;
  if (fr > 0.5) n0 = n1 = n + 1;
  else if (fr == 0.5) n1 = n + 1;
  if (z < 0) { int64_t t = -n0; n0 = -n1; n1 = t; }
  *lo = n0; *hi = n1;
  return out == n0 || out == n1;
}

// exact comparison of (a - b) with representable bounds, a,b doubles: a - b = s + e exactly (TwoSum in long double)
struct XDiff { long double s, e; };
static XDiff xdiff(double a, double b) {
  volatile long double x = a, y = -(long double)b;
  volatile long double s = x + y;
  volatile long double bb = s - x;
  volatile long double e = (x - (s - bb)) + (y - bb);
  return XDiff{s, e};
}
static bool x_le(const XDiff& d, long double B) { return d.s < B || (d.s == B && d.e <= 0); }
static bool x_ge(const XDiff& d, long double B) { return d.s > B || (d.s == B && d.e >= 0); }

// torus distance(out, t) <= tol, for out in [-1/2,1/2], t in (-1,1), tol = 2^q >= 2^-50 (k +- tol exact in long double)
static bool torus_close(double out, double t, long double tol) {
  XDiff d = xdiff(out, t);
  for (int k = -1; k <= 1; ++k)
    if (x_ge(d, (long double)k - tol) && x_le(d, (long double)k + tol)) return true;
  return false;
}

// ------------------------------------------------------------------------------------------ shared descriptor bits
static int map_j(int64_t jj, uint64_t k) {  // 0 -> d=1 ; 1..40 -> 2^j ; 41..44 -> 2^-1..2^-4 ; 45 -> d = m
  if (jj <= 40) return (int)jj;
  if (jj <= 44) return -(int)(jj - 40);
  return (int)k;
}
static void cls_common(Ctx& c, const char* fn, uint64_t k, unsigned mask, int fam) {
  c.cls(std::string("fn:") + fn);
  c.cls("k:" + std::to_string(k));
  c.cls(mask ? "cfg:generic" : "cfg:full");
  if (k < 3) c.cls(std::string(fn) + ":m<8");
  c.cls(std::string("fam:") + fam_name[fam]);
}
struct IO {
  Arena ar;
  Buf in, out;
  uint64_t hin = 0;
  IO(size_t inbytes, size_t outbytes, Rng& r) {
    int im = (int)r.below(3), om = (int)r.below(3);
    in = ar.alloc(inbytes, im, 8 * r.below(8), 0);
    out = ar.alloc(outbytes, om, 8 * r.below(8), (int)r.below(4), r.next());
  }
  void seal() { hin = hash_bytes(in.p, in.len); }
  bool intact(Ctx& c, const char* what) {
    if (hash_bytes(in.p, in.len) != hin) { c.failf("%s modified its input", what); return false; }
    size_t w;
    int bad = ar.check_canaries(&w);
    if (bad >= 0) { c.failf("%s wrote outside its buffers (buffer %d byte %zu)", what, bad, w); return false; }
    return true;
  }
};

static const int LB_FROM[] = {50, 50, 49, 32, 20, 1, 0};           // log2bound choices for from_znx64 (<= 50)
static const int LB_TO[] = {50, 63, 52, 51, 64, 50, 49, 30, 10, 0};  // log2bound choices for to_znx64

std::vector<Sub> vh_subs() {
  std::vector<Sub> subs;

  // =========================================================================================== reim_from_znx64
  {
    Sub s;
    s.name = "from_znx64";
    s.fields = {{"k", 0, 16}, {"variant", 0, 3}, {"cfg", 0, 1}, {"lb", 0, 6}, {"fam", 0, F_COUNT - 1}, {"seed", 0, INT64_MAX - 1}};
    s.run = [](const Vals& v, Ctx& c) {
      const uint64_t k = v[0], m = 1ull << k, n = 2 * m;
      int variant = (int)v[1];
      if (variant == 3 && k < 3) variant = 2;  // the library selects the fma kernel only for m >= 8
      const unsigned mask = v[2] ? spq::GENERIC : spq::FULL;
      const int L = LB_FROM[v[3]];
      const int fam = (int)v[4];
      Rng r((uint64_t)v[5]);
      const Dom D{L, false, 0};
      static const char* vn[] = {"api", "simple", "ref", "bnd50_fma"};
      cls_common(c, "from_znx64", k, mask, fam);
      c.cls(std::string("from_znx64:") + vn[variant]);
      c.notef("reim_from_znx64[%s] m=%llu log2bound=%d cfg=%s fam=%s", vn[variant], (ull)m, L, mask ? "generic" : "full", fam_name[fam]);
      REIM_FROM_ZNX64_PRECOMP* p;
      {
        spq::MaskGuard g(mask);
        p = new_reim_from_znx64_precomp((uint32_t)m, (uint32_t)L);
      }
      if (!p) return c.failf("new_reim_from_znx64_precomp(%llu,%d) failed", (ull)m, L);
      if (variant == 0) c.cls(p->function == reim_from_znx64_ref ? "from_znx64:sel:ref" : p->function == reim_from_znx64_bnd50_fma ? "from_znx64:sel:bnd50_fma" : "from_znx64:sel:other");
      IO io(n * 8, n * 8, r);
      int64_t* x = io.in.as<int64_t>();
      double* o = io.out.as<double>();
      bool nt = false;
      for (uint64_t i = 0; i < n; ++i) {
        double y = gen_y(r, fam, D);
        x[i] = (int64_t)std::trunc(y);  // |y| < 2^50: exact integer part
        if (std::llabs(x[i]) >= (1ll << 48)) nt = true;
      }
      c.nontrivial = nt;
      io.seal();
      switch (variant) {
        case 0: reim_from_znx64(p, o, x); break;
        case 1: reim_from_znx64_simple((uint32_t)m, (uint32_t)L, o, x); break;
        case 2: reim_from_znx64_ref(p, o, x); break;
        default: reim_from_znx64_bnd50_fma(p, o, x);
      }
      delete_reim_from_znx64_precomp(p);
      for (uint64_t i = 0; i < n; ++i)
        if (!(o[i] == (double)x[i]))
          return c.failf("reim_from_znx64[%s] m=%llu: out[%llu]=%a for x=%lld (expected %a)", vn[variant], (ull)m, (ull)i, o[i], (ll)x[i], (double)x[i]);
      io.intact(c, "reim_from_znx64");
    };
    subs.push_back(s);
  }

  // =========================================================================================== reim_to_znx64
  {
    Sub s;
    s.name = "to_znx64";
    s.fields = {{"k", 0, 16}, {"variant", 0, 4}, {"cfg", 0, 1}, {"lb", 0, 9}, {"jj", 0, 45}, {"fam", 0, F_COUNT - 1}, {"seed", 0, INT64_MAX - 1}};
    s.run = [](const Vals& v, Ctx& c) {
      const uint64_t k = v[0], m = 1ull << k, n = 2 * m;
      int variant = (int)v[1];
      if (variant >= 3 && k < 3) variant = 2;  // avx kernels only where the library selects them (m >= 8)
      const unsigned mask = v[2] ? spq::GENERIC : spq::FULL;
      int L = LB_TO[v[3]];
      if (variant == 3) L = 50;
      if (variant == 4 && L <= 50) L = 63;
      const int j = map_j(v[4], k);
      const int fam = (int)v[5];
      Rng r((uint64_t)v[6]);
      // fast variant (log2bound <= 50): |x/d| < 2^min(log2bound,50); wide variant and reference: < 2^min(log2bound,52)
      int b = variant == 2 ? 52 : (L <= 50 ? L : (L < 52 ? L : 52));
      const Dom D{b, false, 0};
      const double d = std::ldexp(1.0, j);
      static const char* vn[] = {"api", "simple", "ref", "avx2_bnd50_fma", "avx2_bnd63_fma"};
      cls_common(c, "to_znx64", k, mask, fam);
      c.cls(std::string("to_znx64:") + vn[variant]);
      if (j == (int)k) c.cls("divisor==m");
      if (j < 0) c.cls("divisor<1");
      if (variant <= 1) c.cls(L <= 50 ? "to_znx64:log2bound<=50" : "to_znx64:log2bound>50");
      c.notef("reim_to_znx64[%s] m=%llu divisor=2^%d log2bound=%d (|x/d|<2^%d) cfg=%s fam=%s", vn[variant], (ull)m, j, L, b,
              mask ? "generic" : "full", fam_name[fam]);
      REIM_TO_ZNX64_PRECOMP* p;
      {
        spq::MaskGuard g(mask);
        p = new_reim_to_znx64_precomp((uint32_t)m, d, (uint32_t)L);
      }
      if (!p) return c.failf("new_reim_to_znx64_precomp(%llu,2^%d,%d) failed", (ull)m, j, L);
      if (variant == 0)
        c.cls(p->function == reim_to_znx64_ref ? "to_znx64:sel:ref" : p->function == reim_to_znx64_avx2_bnd50_fma ? "to_znx64:sel:bnd50"
              : p->function == reim_to_znx64_avx2_bnd63_fma ? "to_znx64:sel:bnd63" : "to_znx64:sel:other");
      IO io(n * 8, n * 8, r);
      double* x = io.in.as<double>();
      int64_t* o = io.out.as<int64_t>();
      bool nt = false;
      for (uint64_t i = 0; i < n; ++i) {
        double y = gen_y(r, fam, D);
        x[i] = std::ldexp(y, j);  // exact
        nt = nt || nontrivial_y(y, (variant == 2 || L > 50) ? 50 : 48, 0);
      }
      c.nontrivial = nt;
      io.seal();
      switch (variant) {
        case 0: reim_to_znx64(p, o, x); break;
        case 1: reim_to_znx64_simple((uint32_t)m, d, (uint32_t)L, o, x); break;
        case 2: reim_to_znx64_ref(p, o, x); break;
        case 3: reim_to_znx64_avx2_bnd50_fma(p, o, x); break;
        default: reim_to_znx64_avx2_bnd63_fma(p, o, x);
      }
      delete_reim_to_znx64_precomp(p);
      bool tie_lo = false, tie_hi = false;  // evidence that exact ties occur and that both neighbours are accepted
      for (uint64_t i = 0; i < n; ++i) {
        double z = std::ldexp(x[i], -j);  // x/d exactly
        int64_t lo, hi;
        bool ok = nearest_ok(z, o[i], &lo, &hi);
        if (ok && lo != hi) (std::llabs(o[i]) == std::min(std::llabs(lo), std::llabs(hi)) ? tie_lo : tie_hi) = true;
        if (!ok)
          return c.failf("reim_to_znx64[%s] m=%llu divisor=2^%d log2bound=%d: out[%llu]=%lld for x=%a, x/d=%a (%.20g): not within 1/2 (expected %lld%s%lld)",
                         vn[variant], (ull)m, j, L, (ull)i, (ll)o[i], x[i], z, z, (ll)lo, lo == hi ? " = " : " or ", (ll)hi);
      }
      if (tie_lo) c.cls("to_znx64:tie->towards-zero");
      if (tie_hi) c.cls("to_znx64:tie->away-from-zero");
      io.intact(c, "reim_to_znx64");
    };
    subs.push_back(s);
  }

  // =========================================================================================== D7 regression probe
  // reim_to_znx64, wide variant, x/d = +-pred(1/2): before fix deb5afa the rounded add of the d/2 offset gave +-1
  // (|out - x/d| = 1/2 + 2^-54).  The general sub generates this value too (family "special"); this sub feeds it always.
  {
    Sub s;
    s.name = "to_znx64_wide_predhalf";
    s.fields = {{"k", 3, 16}, {"variant", 0, 2}, {"jj", 0, 45}, {"neg", 0, 1}, {"pos", 0, INT64_MAX - 1}, {"seed", 0, INT64_MAX - 1}};
    s.run = [](const Vals& v, Ctx& c) {
      const uint64_t k = v[0], m = 1ull << k, n = 2 * m;
      const int variant = (int)v[1];  // 0 api, 1 simple, 2 kernel
      const int j = map_j(v[2], k);
      const double d = std::ldexp(1.0, j);
      const uint32_t L = 63;
      Rng r((uint64_t)v[5]);
      static const char* vn[] = {"api", "simple", "avx2_bnd63_fma"};
      c.cls("fn:to_znx64");
      c.cls("to_znx64:probe:pred(1/2)");
      c.nontrivial = true;
      c.notef("reim_to_znx64[%s] m=%llu divisor=2^%d log2bound=63, one coefficient x/d=%spred(1/2)", vn[variant], (ull)m, j, v[3] ? "-" : "+");
      REIM_TO_ZNX64_PRECOMP* p = new_reim_to_znx64_precomp((uint32_t)m, d, L);
      if (!p) return c.failf("new_reim_to_znx64_precomp failed");
      IO io(n * 8, n * 8, r);
      double* x = io.in.as<double>();
      int64_t* o = io.out.as<int64_t>();
      for (uint64_t i = 0; i < n; ++i) x[i] = std::ldexp((double)r.sbits(40) + 0.25, j);
      x[(uint64_t)v[4] % n] = std::ldexp(v[3] ? -std::nextafter(0.5, 0.0) : std::nextafter(0.5, 0.0), j);
      switch (variant) {
        case 0: reim_to_znx64(p, o, x); break;
        case 1: reim_to_znx64_simple((uint32_t)m, d, L, o, x); break;
        default: reim_to_znx64_avx2_bnd63_fma(p, o, x);
      }
      delete_reim_to_znx64_precomp(p);
      for (uint64_t i = 0; i < n; ++i) {
        double z = std::ldexp(x[i], -j);
        int64_t lo, hi;
        if (!nearest_ok(z, o[i], &lo, &hi))
          return c.failf("to_znx64_wide_predhalf: reim_to_znx64[%s] m=%llu divisor=2^%d log2bound=63: out[%llu]=%lld for x=%a, x/d=%a (%.20g): not within 1/2 (expected %lld)",
                         vn[variant], (ull)m, j, (ull)i, (ll)o[i], x[i], z, z, (ll)lo);
      }
    };
    subs.push_back(s);
  }

  // reim_to_znx64_simple called several times in a row on one (fresh) thread with two dimensions, two divisors and both bound classes:
  // the contract of each call is the one of its own arguments, whatever table an earlier call left behind.  The sequence runs on a
  // thread of its own, so the front end's thread-local state starts empty and the case replays exactly.
  {
    Sub s;
    s.name = "to_znx64_simple_seq";
    s.fields = {{"kA", 0, 12}, {"kB", 0, 12}, {"len", 2, 6}, {"lf", 5, 8}, {"lw", 1, 4}, {"jj", 0, 45}, {"fam", 0, F_COUNT - 1}, {"seed", 0, INT64_MAX - 1}};
    s.run = [](const Vals& v, Ctx& c) {
      const uint64_t kk[2] = {(uint64_t)v[0], (uint64_t)v[1]};
      const int len = (int)v[2], Lf = LB_TO[v[3]], Lw = LB_TO[v[4]];  // Lf in {50,49,30,10}, Lw in {63,52,51,64}
      const int jd[2] = {map_j(v[5], kk[0]), map_j((v[5] * 7 + 3) % 46, kk[0])};
      const int fam = (int)v[6];
      std::string err, trace;
      bool cross = false;
      std::thread th([&] {
        Rng r((uint64_t)v[7]);
        int prevL = -1; uint64_t prevk = ~0ull;
        for (int t = 0; t < len && err.empty(); ++t) {
          const uint64_t k = kk[r.below(2)], m = 1ull << k, n = 2 * m;
          const int L = r.below(2) ? Lw : Lf, j = jd[r.below(3) == 0];
          if (prevL >= 0 && (k != prevk) && ((L > 50) != (prevL > 50))) cross = true;
          prevL = L; prevk = k;
          const Dom D{L <= 50 ? L : (L < 52 ? L : 52), false, 0};
          std::vector<double> x(n);
          std::vector<int64_t> o(n, 0x5a5a5a5a5a5a5a5all);
          for (uint64_t i = 0; i < n; ++i) x[i] = std::ldexp(gen_y(r, fam, D), j);
          char buf[96];
          snprintf(buf, sizeof buf, " (m=%llu,d=2^%d,log2bound=%d)", (ull)m, j, L);
          trace += buf;
          reim_to_znx64_simple((uint32_t)m, std::ldexp(1.0, j), (uint32_t)L, o.data(), x.data());
          for (uint64_t i = 0; i < n; ++i) {
            double z = std::ldexp(x[i], -j);
            int64_t lo, hi;
            if (!nearest_ok(z, o[i], &lo, &hi)) {
              char e[400];
              snprintf(e, sizeof e, "call %d of the sequence%s: out[%llu]=%lld for x/d=%a (%.20g): not within 1/2 (expected %lld)", t + 1, trace.c_str(), (ull)i, (ll)o[i], z, z, (ll)lo);
              err = e;
              break;
            }
          }
        }
      });
      th.join();
      c.cls("fn:to_znx64");
      c.cls("to_znx64:simple sequence");
      if (cross) c.cls("to_znx64:simple sequence changes dimension and bound class together");
      c.nontrivial = kk[0] != kk[1];
      c.notef("reim_to_znx64_simple sequence:%s", trace.c_str());
      if (!err.empty()) return c.failf("to_znx64_simple_seq: %s", err.c_str());
    };
    subs.push_back(s);
  }

  // =========================================================================================== cplx_from_znx32 / cplx_from_tnx32
  {
    Sub s;
    s.name = "cplx_from32";
    s.fields = {{"k", 0, 16}, {"fn", 0, 1}, {"variant", 0, 3}, {"cfg", 0, 1}, {"fam", 0, F_COUNT - 1}, {"seed", 0, INT64_MAX - 1}};
    s.run = [](const Vals& v, Ctx& c) {
      const uint64_t k = v[0], m = 1ull << k, n = 2 * m;
      const bool tnx = v[1];
      int variant = (int)v[2];
      if (variant == 3 && k < 3) variant = 2;
      const unsigned mask = v[3] ? spq::GENERIC : spq::FULL;
      const int fam = (int)v[4];
      Rng r((uint64_t)v[5]);
      const Dom D{31, true, 0};
      static const char* vn[] = {"api", "simple", "ref", "avx2_fma"};
      const char* fn = tnx ? "cplx_from_tnx32" : "cplx_from_znx32";
      cls_common(c, fn, k, mask, fam);
      c.cls(std::string(fn) + ":" + vn[variant]);
      c.notef("%s[%s] m=%llu cfg=%s fam=%s", fn, vn[variant], (ull)m, mask ? "generic" : "full", fam_name[fam]);
      CPLX_FROM_ZNX32_PRECOMP* pz = nullptr;
      CPLX_FROM_TNX32_PRECOMP* pt = nullptr;
      {
        spq::MaskGuard g(mask);
        if (tnx) pt = new_cplx_from_tnx32_precomp((uint32_t)m);
        else pz = new_cplx_from_znx32_precomp((uint32_t)m);
      }
      if (!pt && !pz) return c.failf("new_%s_precomp(%llu) failed", fn, (ull)m);
      if (variant == 0) {
        bool isref = tnx ? pt->function == cplx_from_tnx32_ref : pz->function == cplx_from_znx32_ref;
        c.cls(std::string(fn) + (isref ? ":sel:ref" : ":sel:avx2_fma"));
      }
      IO io(n * 4, n * 8, r);
      int32_t* x = io.in.as<int32_t>();
      double* o = io.out.as<double>();
      bool nt = false, ext = false;
      for (uint64_t i = 0; i < n; ++i) {
        double y = std::trunc(gen_y(r, fam, D));  // integer in [-2^31, 2^31]
        if (y >= 0x1p31) y = 0x1p31 - 1;          // INT32_MAX
        if (r.below(16) == 0) y = (r.next() & 1) ? -0x1p31 : 0x1p31 - 1;
        x[i] = (int32_t)y;
        if (x[i] == INT32_MIN || x[i] == INT32_MAX) ext = true;
        if (std::fabs(y) >= 0x1p29) nt = true;
      }
      if (ext) c.cls("int32:min/max");
      c.nontrivial = nt;
      io.seal();
      if (tnx) switch (variant) {
          case 0: cplx_from_tnx32(pt, o, x); break;
          case 1: cplx_from_tnx32_simple((uint32_t)m, o, x); break;
          case 2: cplx_from_tnx32_ref(pt, o, x); break;
          default: cplx_from_tnx32_avx2_fma(pt, o, x);
        }
      else switch (variant) {
          case 0: cplx_from_znx32(pz, o, x); break;
          case 1: cplx_from_znx32_simple((uint32_t)m, o, x); break;
          case 2: cplx_from_znx32_ref(pz, o, x); break;
          default: cplx_from_znx32_avx2_fma(pz, o, x);
        }
      free(pt);
      free(pz);
      const double sc = tnx ? 0x1p-32 : 1.0;
      for (uint64_t i = 0; i < m; ++i)
        for (int h = 0; h < 2; ++h) {
          int32_t xi = x[h * m + i];
          double e = (double)xi * sc, got = o[2 * i + h];  // exact
          if (!(got == e))
            return c.failf("%s[%s] m=%llu: %s part of complex %llu = %a for x=%d (expected %a)", fn, vn[variant], (ull)m, h ? "imaginary" : "real",
                           (ull)i, got, xi, e);
        }
      io.intact(c, fn);
    };
    subs.push_back(s);
  }

  // =========================================================================================== cplx_to_tnx32
  {
    Sub s;
    s.name = "cplx_to_tnx32";
    s.fields = {{"k", 0, 16}, {"variant", 0, 3}, {"cfg", 0, 1}, {"ovh", 0, 52}, {"jj", 0, 45}, {"fam", 0, F_COUNT - 1}, {"seed", 0, INT64_MAX - 1}};
    s.run = [](const Vals& v, Ctx& c) {
      const uint64_t k = v[0], m = 1ull << k, n = 2 * m;
      int variant = (int)v[1];
      if (variant == 3 && k < 3) variant = 2;
      const unsigned mask = v[2] ? spq::GENERIC : spq::FULL;
      // descriptor 0 and 19..36 -> 18 (the documented fast setting: the whole statement domain |x/d| < 2^18), 18 -> 0
      int ovh = (int)v[3] == 0 ? 18 : (int)v[3] == 18 ? 0 : ((int)v[3] >= 19 && (int)v[3] <= 36) ? 18 : (int)v[3];
      if (variant == 3 && ovh > 18) ovh = 18;  // the library selects the avx kernel only for log2overhead <= 18
      const int j = map_j(v[4], k);
      const int fam = (int)v[5];
      Rng r((uint64_t)v[6]);
      // statement: |x/d| < 2^18; documentation: |x| within divisor*2^log2overhead
      const Dom D{ovh < 18 ? ovh : 18, ovh < 18, -32};
      const double d = std::ldexp(1.0, j);
      static const char* vn[] = {"api", "simple", "ref", "avx2_fma"};
      cls_common(c, "cplx_to_tnx32", k, mask, fam);
      c.cls(std::string("cplx_to_tnx32:") + vn[variant]);
      c.cls(ovh <= 18 ? "cplx_to_tnx32:ovh<=18" : "cplx_to_tnx32:ovh>18");
      if (j == (int)k) c.cls("divisor==m");
      c.notef("cplx_to_tnx32[%s] m=%llu divisor=2^%d log2overhead=%d cfg=%s fam=%s", vn[variant], (ull)m, j, ovh, mask ? "generic" : "full", fam_name[fam]);
      CPLX_TO_TNX32_PRECOMP* p;
      {
        spq::MaskGuard g(mask);
        p = new_cplx_to_tnx32_precomp((uint32_t)m, d, (uint32_t)ovh);
      }
      if (!p) return c.failf("new_cplx_to_tnx32_precomp(%llu,2^%d,%d) failed", (ull)m, j, ovh);
      if (variant == 0) c.cls(p->function == cplx_to_tnx32_ref ? "cplx_to_tnx32:sel:ref" : "cplx_to_tnx32:sel:avx2_fma");
      IO io(n * 8, n * 4, r);
      double* x = io.in.as<double>();
      int32_t* o = io.out.as<int32_t>();
      bool nt = false;
      for (uint64_t i = 0; i < n; ++i) {
        double y = gen_y(r, fam, D);
        x[i] = std::ldexp(y, j);
        nt = nt || nontrivial_y(y, 16, -32);
      }
      c.nontrivial = nt;
      io.seal();
      switch (variant) {
        case 0: cplx_to_tnx32(p, o, x); break;
        case 1: cplx_to_tnx32_simple((uint32_t)m, d, (uint32_t)ovh, o, x); break;
        case 2: cplx_to_tnx32_ref(p, o, x); break;
        default: cplx_to_tnx32_avx2_fma(p, o, x);
      }
      delete_cplx_to_tnx32_precomp(p);
      for (uint64_t i = 0; i < m; ++i)
        for (int h = 0; h < 2; ++h) {
          double xi = x[2 * i + h];
          double z = std::ldexp(xi, 32 - j);  // x*2^32/d exactly, |z| <= 2^50
          int64_t lo, hi;
          nearest_ok(z, 0, &lo, &hi);
          uint32_t got = (uint32_t)o[h * m + i];
          if (got != (uint32_t)(uint64_t)lo && got != (uint32_t)(uint64_t)hi)
            return c.failf("cplx_to_tnx32[%s] m=%llu divisor=2^%d log2overhead=%d: %s part %llu = 0x%08x for x=%a, x*2^32/d=%a: expected 0x%08x%s",
                           vn[variant], (ull)m, j, ovh, h ? "imaginary" : "real", (ull)i, got, xi, z, (uint32_t)(uint64_t)lo,
                           lo == hi ? "" : " (or +1: exact tie)");
        }
      io.intact(c, "cplx_to_tnx32");
    };
    subs.push_back(s);
  }

  // =========================================================================================== reim_to_tnx
  {
    Sub s;
    s.name = "reim_to_tnx";
    s.fields = {{"k", 0, 16}, {"variant", 0, 3}, {"cfg", 0, 1}, {"ovh", 0, 48}, {"jj", 0, 45}, {"fam", 0, F_COUNT - 1}, {"seed", 0, INT64_MAX - 1}};
    s.run = [](const Vals& v, Ctx& c) {
      const uint64_t k = v[0], m = 1ull << k, n = 2 * m;
      int variant = (int)v[1];
      if (variant == 2 && k < 3) variant = 1;  // avx kernel only where the library selects it (m >= 8)
      const unsigned mask = v[2] ? spq::GENERIC : spq::FULL;
      const int ovh = (int)v[3];
      const int j = map_j(v[4], k);
      const int fam = (int)v[5];
      Rng r((uint64_t)v[6]);
      const Dom D0{ovh, true, 0};          // half-integers
      const Dom D1{ovh, true, ovh - 50};   // ties of the output grid 2^(ovh-50)
      const double d = std::ldexp(1.0, j);
      static const char* vn[] = {"api", "ref", "avx", "basic_ref"};
      cls_common(c, "reim_to_tnx", k, mask, fam);
      c.cls(std::string("reim_to_tnx:") + vn[variant]);
      c.cls("ovh:" + std::to_string(ovh));
      if (j == (int)k) c.cls("divisor==m");
      c.notef("reim_to_tnx[%s] m=%llu divisor=2^%d log2overhead=%d cfg=%s fam=%s", vn[variant], (ull)m, j, ovh, mask ? "generic" : "full", fam_name[fam]);
      REIM_TO_TNX_PRECOMP* p;
      {
        spq::MaskGuard g(mask);
        p = new_reim_to_tnx_precomp((uint32_t)m, d, (uint32_t)ovh);
      }
      if (!p) return c.failf("new_reim_to_tnx_precomp(%llu,2^%d,%d) failed", (ull)m, j, ovh);
      if (variant == 0) c.cls(p->function == reim_to_tnx_ref ? "reim_to_tnx:sel:ref" : p->function == reim_to_tnx_avx ? "reim_to_tnx:sel:avx" : "reim_to_tnx:sel:other");
      IO io(n * 8, n * 8, r);
      double* x = io.in.as<double>();
      double* o = io.out.as<double>();
      bool nt = false, atbound = false;
      for (uint64_t i = 0; i < n; ++i) {
        double y = gen_y(r, fam, (r.next() & 3) ? D0 : D1);
        x[i] = std::ldexp(y, j);
        nt = nt || nontrivial_y(y, ovh - 2, 0);
        if (std::fabs(y) == std::ldexp(1.0, ovh)) atbound = true;
      }
      if (atbound) c.cls("reim_to_tnx:|x/d|==2^ovh");
      c.nontrivial = nt;
      io.seal();
      switch (variant) {
        case 0: reim_to_tnx(p, o, x); break;
        case 1: reim_to_tnx_ref(p, o, x); break;
        case 2: reim_to_tnx_avx(p, o, x); break;
        default: reim_to_tnx_basic_ref(p, o, x);
      }
      delete_reim_to_tnx_precomp(p);
      const long double tol = std::ldexp(1.0L, ovh - 50);
      for (uint64_t i = 0; i < n; ++i) {
        double y = std::ldexp(x[i], -j);  // x/d exactly
        double a = std::fabs(y), fr = a - std::floor(a);
        double t = y < 0 ? -fr : fr;  // exact, congruent to x/d mod 1, |t| < 1
        double got = o[i];
        if (!(got >= -0.5 && got <= 0.5))
          return c.failf("reim_to_tnx[%s] m=%llu divisor=2^%d log2overhead=%d: out[%llu]=%a (%.17g) outside [-1/2,1/2] for x=%a, x/d=%a",
                         vn[variant], (ull)m, j, ovh, (ull)i, got, got, x[i], y);
        if (!torus_close(got, t, tol))
          return c.failf("reim_to_tnx[%s] m=%llu divisor=2^%d log2overhead=%d: out[%llu]=%a (%.17g) for x=%a, x/d=%a (mod 1: %a = %.17g): torus distance %.3Lg > 2^%d",
                         vn[variant], (ull)m, j, ovh, (ull)i, got, got, x[i], y, t, t,
                         std::fmin(std::fabs((long double)got - t), std::fmin(std::fabs((long double)got - t - 1), std::fabs((long double)got - t + 1))), ovh - 50);
      }
      io.intact(c, "reim_to_tnx");
    };
    subs.push_back(s);
  }
  return subs;
}
