// C09 — rotation, automorphism and (X^p-1) product are the ring maps for every p.
// Oracle: index arithmetic modulo 2nn on unsigned __int128; in-place == out-of-place == model;
// composition laws.  Non-trivial: nn >= 4 and p mod 2nn not in {0,1}.
#include <cmath>

#include "arena.hpp"
#include "harness.hpp"
#include "ringmaps.hpp"
#include "spq.hpp"

using namespace vh;
const char* vh_property_id = "C09";

using namespace ring;
typedef unsigned __int128 u128;

template <class T>
static void fill_data(T* a, uint64_t nn, int dfam, Rng& r);
template <>
void fill_data<int64_t>(int64_t* a, uint64_t nn, int dfam, Rng& r) {
  if (dfam == 0) {  // injective probe (determines the signed permutation)
    int64_t c = 1 + (int64_t)r.below(1000), d = (int64_t)r.below(1000);
    for (uint64_t i = 0; i < nn; ++i) a[i] = (int64_t)(i + 1) * c + d;
  } else {
    // random values; one limb in four has a structure that a value-dependent shortcut would test for: multiples of 2^32 (distinct,
    // so still an injective probe), a single non-zero coefficient, or the zero polynomial
    const uint64_t st = r.below(12);
    for (uint64_t i = 0; i < nn; ++i) a[i] = r.sbits(62);
    if (st == 0) for (uint64_t i = 0; i < nn; ++i) a[i] = (int64_t)((i + 1) * (1 + r.below(1000))) << 32;
    else if (st == 1) { const uint64_t keep = r.below(3) == 0 ? nn - 1 : r.below(nn); for (uint64_t i = 0; i < nn; ++i) if (i != keep) a[i] = 0; }
    else if (st == 2) for (uint64_t i = 0; i < nn; ++i) a[i] = 0;
  }
}
template <>
void fill_data<double>(double* a, uint64_t nn, int dfam, Rng& r) {
  if (dfam == 0) {
    double c = 1 + (double)r.below(1000), d = (double)r.below(1000) + 0.5;
    for (uint64_t i = 0; i < nn; ++i) a[i] = (double)(i + 1) * c + d;
  } else {
    for (uint64_t i = 0; i < nn; ++i) a[i] = std::ldexp(r.sunit(), (int)r.below(80) - 40);
    if (nn > 2) a[r.below(nn)] = 0.0, a[r.below(nn)] = -0.0;
  }
}

template <class T>
static bool same(const T* a, const T* b, uint64_t nn, uint64_t* idx) {
  for (uint64_t i = 0; i < nn; ++i)
    if (memcmp(&a[i], &b[i], sizeof(T)) != 0) {
      *idx = i;
      return false;
    }
  return true;
}

static const char* opname(int op) { return op == ROT ? "rotate" : op == AUT ? "automorphism" : "mul_xp_minus_one"; }

// runs one (nn, p, op) triple on znx and rnx kernels
static void check_kernels(Ctx& c, uint64_t k, int64_t p, int op, int dfam, uint64_t seed) {
  const uint64_t nn = 1ull << k;
  Rng r(seed);
  Arena ar;
  const size_t B = nn * 8;
  // ---- int64
  {
    Buf in = ar.alloc(B, OVER), out = ar.alloc(B, OVER, 0, 1), ip = ar.alloc(B, UNDER), mod = ar.alloc(B, MID);
    int64_t *a = in.as<int64_t>(), *o = out.as<int64_t>(), *q = ip.as<int64_t>(), *m = mod.as<int64_t>();
    fill_data<int64_t>(a, nn, dfam, r);
    memcpy(q, a, B);
    uint64_t hin = hash_bytes(a, B);
    model<int64_t>(op, nn, p, m, a);
    bool has_ip = true;
    switch (op) {
      case ROT:
        znx_rotate_i64(nn, p, o, a);
        znx_rotate_inplace_i64(nn, p, q);
        break;
      case AUT:
        znx_automorphism_i64(nn, p, o, a);
        znx_automorphism_inplace_i64(nn, p, q);
        break;
      default:
        znx_mul_xp_minus_one(nn, p, o, a);
        has_ip = false;
    }
    uint64_t idx;
    if (!same(o, m, nn, &idx))
      return c.failf("znx_%s nn=%llu p=%lld: out[%llu]=%lld, model %lld", opname(op), (unsigned long long)nn,
                     (long long)p, (unsigned long long)idx, (long long)o[idx], (long long)m[idx]);
    if (has_ip && !same(q, m, nn, &idx))
      return c.failf("znx_%s_inplace nn=%llu p=%lld: res[%llu]=%lld, model %lld", opname(op), (unsigned long long)nn,
                     (long long)p, (unsigned long long)idx, (long long)q[idx], (long long)m[idx]);
    if (hash_bytes(a, B) != hin) return c.failf("znx_%s modified its input", opname(op));
  }
  // ---- double
  {
    Buf in = ar.alloc(B, UNDER), out = ar.alloc(B, OVER, 0, 2), ip = ar.alloc(B, OVER), mod = ar.alloc(B, MID);
    double *a = in.as<double>(), *o = out.as<double>(), *q = ip.as<double>(), *m = mod.as<double>();
    fill_data<double>(a, nn, dfam, r);
    memcpy(q, a, B);
    model<double>(op, nn, p, m, a);
    switch (op) {
      case ROT:
        rnx_rotate_f64(nn, p, o, a);
        rnx_rotate_inplace_f64(nn, p, q);
        break;
      case AUT:
        rnx_automorphism_f64(nn, p, o, a);
        rnx_automorphism_inplace_f64(nn, p, q);
        break;
      default:
        rnx_mul_xp_minus_one(nn, p, o, a);
        rnx_mul_xp_minus_one_inplace(nn, p, q);
    }
    uint64_t idx;
    if (!same(o, m, nn, &idx))
      return c.failf("rnx_%s nn=%llu p=%lld: out[%llu]=%a, model %a", opname(op), (unsigned long long)nn, (long long)p,
                     (unsigned long long)idx, o[idx], m[idx]);
    if (!same(q, m, nn, &idx))
      return c.failf("rnx_%s_inplace nn=%llu p=%lld: res[%llu]=%a, model %a", opname(op), (unsigned long long)nn,
                     (long long)p, (unsigned long long)idx, q[idx], m[idx]);
  }
  size_t w;
  int bad = ar.check_canaries(&w);
  if (bad >= 0) return c.failf("%s nn=%llu p=%lld wrote outside its buffers (buffer %d, byte %zu)", opname(op),
                               (unsigned long long)nn, (long long)p, bad, w);
}

static void classify(Ctx& c, uint64_t k, int64_t p, int op) {
  const uint64_t nn = 1ull << k;
  uint64_t pr = pmod(p, 2 * nn);
  c.nontrivial = nn >= 4 && pr != 0 && pr != 1;
  c.cls(std::string("op:") + opname(op));
  c.cls("k:" + std::to_string(k));
  if (p < 0) c.cls("p<0");
  if (p >= (int64_t)(2 * nn) || p < -(int64_t)(2 * nn)) c.cls("p_outside_[-2nn,2nn)");
  if (op == AUT && nn >= 8) {
    // orbit-shape classes of the in-place automorphism
    if (pr == 1) c.cls("aut:p==1");
    else if (pr == 2 * nn - 1) c.cls("aut:p==-1");
    else if (pr == nn + 1) c.cls("aut:p==n+1");
    else if (pr == nn - 1) c.cls("aut:p==n-1");
    else {
      // first level at which the walk special-cases
      uint64_t vp = pr, bv = 1;
      const char* shape = "aut:generic-to-the-end";
      for (; bv < nn; bv <<= 1, vp = (vp << 1) & (2 * nn - 1)) {
        if (vp == bv) { shape = "aut:identity-at-depth"; break; }
        if (((vp + bv) & (2 * nn - 1)) == 0) { shape = "aut:negamirror-at-depth"; break; }
        if (((vp - bv) & (nn - 1)) == 0) { shape = "aut:negate-at-depth"; break; }
      }
      c.cls(shape);
    }
  }
}

std::vector<Sub> vh_subs() {
  std::vector<Sub> subs;
  // ---------------- generated (nn, p, op)
  {
    Sub s;
    s.name = "kernel";
    s.fields = {{"k", 0, 16}, {"op", 0, 2}, {"pmode", 0, 3}, {"pj", 0, 17}, {"pu", 0, INT64_MAX - 1},
                {"neg", 0, 1}, {"dfam", 0, 1}, {"seed", 0, INT64_MAX - 1}};
    Sub* sp = &s;
    s.run = [](const Vals& v, Ctx& c) {
      uint64_t k = v[0];
      int op = (int)v[1];
      int64_t p = make_p((int)v[2], k, v[3], (uint64_t)v[4], (int)v[5], op == AUT);
      classify(c, k, p, op);
      c.cls("pmode:" + std::to_string(v[2]));
      c.notef("nn=%llu op=%s p=%lld data=%s", 1ull << k, opname(op), (long long)p, v[6] ? "random62" : "injective");
      check_kernels(c, k, p, op, (int)v[6], (uint64_t)v[7]);
    };
    (void)sp;
    subs.push_back(s);
  }
  // ---------------- exhaustive over residues: driver runs --enum --fix k=K --fix r=0..(2nn-1 | nn-1)
  {
    Sub s;
    s.name = "residues";
    s.fields = {{"k", 0, 16}, {"op", 0, 2}, {"r", 0, 131071}, {"neg", 0, 1}};
    s.run = [](const Vals& v, Ctx& c) {
      uint64_t k = v[0], nn = 1ull << k;
      int op = (int)v[1];
      int64_t r = v[2];
      if (op == AUT) {
        if ((uint64_t)r >= nn) { c.discard = true; return; }
        r = 2 * r + 1;
      } else if ((uint64_t)r >= 2 * nn) { c.discard = true; return; }
      int64_t p = v[3] ? r - (int64_t)(2 * nn) * 3 : r;  // same residue, negative representative
      classify(c, k, p, op);
      c.notef("nn=%llu op=%s p=%lld (exhaustive residue sweep)", (unsigned long long)nn, opname(op), (long long)p);
      check_kernels(c, k, p, op, 0, (uint64_t)(r * 7919 + k));
    };
    subs.push_back(s);
  }
  // ---------------- the same p at two dimensions in a row (a map cached on p alone, or state left by the first call, shows only then)
  {
    Sub s;
    s.name = "sequence";
    s.fields = {{"k1", 0, 14}, {"k2", 0, 14}, {"op", 0, 2}, {"pmode", 0, 3}, {"pj", 0, 17}, {"pu", 0, INT64_MAX - 1}, {"neg", 0, 1}, {"seed", 0, INT64_MAX - 1}};
    s.run = [](const Vals& v, Ctx& c) {
      const uint64_t k1 = v[0], k2 = v[1];
      const int op = (int)v[2];
      const int64_t p = make_p((int)v[3], k1, v[4], (uint64_t)v[5], (int)v[6], op == AUT);
      classify(c, k2, p, op);
      c.cls("sequence");
      if (k1 != k2) c.cls("sequence:different-N-same-p");
      c.notef("%s with p=%lld at nn=%llu and then at nn=%llu", opname(op), (long long)p, 1ull << k1, 1ull << k2);
      check_kernels(c, k1, p, op, 1, (uint64_t)v[7]);
      if (c.failed()) return;
      check_kernels(c, k2, p, op, 0, (uint64_t)v[7] + 1);
    };
    subs.push_back(s);
  }
  // ---------------- composition laws
  {
    Sub s;
    s.name = "compose";
    s.fields = {{"k", 0, 14}, {"op", 0, 1}, {"pmode", 0, 3}, {"pj", 0, 17}, {"pu", 0, INT64_MAX - 1},
                {"qmode", 0, 3}, {"qj", 0, 17}, {"qu", 0, INT64_MAX - 1}, {"seed", 0, INT64_MAX - 1}};
    s.run = [](const Vals& v, Ctx& c) {
      uint64_t k = v[0], nn = 1ull << k;
      int op = (int)v[1];
      // keep |p|,|q| < 2^61 so that p+q does not overflow int64 (pq is reduced mod 2nn by the oracle)
      int64_t p = make_p((int)v[2], k, v[3], (uint64_t)v[4] >> 3, 0, op == AUT);
      int64_t q = make_p((int)v[5], k, v[6], (uint64_t)v[7] >> 3, 0, op == AUT);
      if (v[4] & 1) p = -p;
      if (v[7] & 1) q = -q;
      int64_t pq = op == ROT ? p + q : (int64_t)(uint64_t)(((u128)pmod(p, 2 * nn) * pmod(q, 2 * nn)) % (2 * nn));
      classify(c, k, pq, op);
      c.nontrivial = nn >= 4 && pmod(p, 2 * nn) > 1 && pmod(q, 2 * nn) > 1;
      c.notef("nn=%llu %s p=%lld q=%lld", (unsigned long long)nn, opname(op), (long long)p, (long long)q);
      Rng r((uint64_t)v[8]);
      Arena ar;
      Buf A = ar.alloc(nn * 8, OVER), T = ar.alloc(nn * 8, OVER), U = ar.alloc(nn * 8, OVER), W = ar.alloc(nn * 8, OVER);
      int64_t *a = A.as<int64_t>(), *t = T.as<int64_t>(), *u = U.as<int64_t>(), *w = W.as<int64_t>();
      fill_data<int64_t>(a, nn, 1, r);
      if (op == ROT) {
        znx_rotate_i64(nn, q, t, a);
        znx_rotate_i64(nn, p, u, t);
        znx_rotate_i64(nn, pq, w, a);
        znx_rotate_inplace_i64(nn, p, t);  // in-place second step
      } else {
        znx_automorphism_i64(nn, q, t, a);
        znx_automorphism_i64(nn, p, u, t);
        znx_automorphism_i64(nn, pq, w, a);
        znx_automorphism_inplace_i64(nn, p, t);
      }
      uint64_t idx;
      if (!same(u, w, nn, &idx)) return c.failf("%s(p)∘%s(q) != %s(p%sq) at coefficient %llu (nn=%llu p=%lld q=%lld)",
                                              opname(op), opname(op), opname(op), op == ROT ? "+" : "*",
                                              (unsigned long long)idx, (unsigned long long)nn, (long long)p, (long long)q);
      if (!same(t, w, nn, &idx)) return c.failf("in-place %s(p)∘%s(q) != %s(p%sq) at coefficient %llu (nn=%llu p=%lld q=%lld)",
                                              opname(op), opname(op), opname(op), op == ROT ? "+" : "*",
                                              (unsigned long long)idx, (unsigned long long)nn, (long long)p, (long long)q);
    };
    subs.push_back(s);
  }
  // ---------------- vector and big wrappers (sizes from C08), both module types
  {
    Sub s;
    s.name = "vec";
    s.fields = {{"k", 1, 16}, {"op", 0, 1}, {"pmode", 0, 3}, {"pj", 0, 17}, {"pu", 0, INT64_MAX - 1}, {"neg", 0, 1},
                {"mtype", 0, 1}, {"big", 0, 1}, {"inplace", 0, 1}, {"res_size", 0, 4}, {"a_size", 0, 4},
                {"res_pad", 0, 3}, {"a_pad", 0, 3}, {"cfg", 0, 1}, {"seed", 0, INT64_MAX - 1}};
    s.run = [](const Vals& v, Ctx& c) {
      uint64_t k = v[0], nn = 1ull << k;
      int op = (int)v[1];
      int64_t p = make_p((int)v[2], k, v[3], (uint64_t)v[4], (int)v[5], op == AUT);
      MODULE_TYPE mt = v[6] ? NTT120 : FFT64;
      bool big = v[7] && mt == FFT64;  // NTT120 has no big ops
      bool inplace = v[8];
      uint64_t rs = v[9], as = v[10];
      uint64_t rsl = big ? nn : nn + v[11], asl = big ? nn : nn + v[12];
      if (inplace) asl = rsl;
      unsigned mask = v[13] ? spq::GENERIC : spq::FULL;
      if (k > 12) { rs = std::min<uint64_t>(rs, 3); as = std::min<uint64_t>(as, 3); }  // large rings: at most 3 limbs, multi-limb calls stay frequent
      classify(c, k, p, op);
      c.cls(mt == FFT64 ? "module:FFT64" : "module:NTT120");
      c.cls(big ? "wrapper:big" : "wrapper:vec");
      c.cls(inplace ? "inplace" : "outofplace");
      c.cls(mask ? "cfg:generic" : "cfg:full");
      c.nontrivial = c.nontrivial && rs >= 1 && as >= 1;
      c.notef("nn=%llu %s%s p=%lld res_size=%llu a_size=%llu res_sl=%llu a_sl=%llu %s %s", (unsigned long long)nn,
              big ? "vec_znx_big_" : "vec_znx_", opname(op), (long long)p, (unsigned long long)rs,
              (unsigned long long)as, (unsigned long long)rsl, (unsigned long long)asl, inplace ? "inplace" : "",
              mt == FFT64 ? "FFT64" : "NTT120");
      MODULE* mod = spq::modules().get(nn, mt, mask);
      Rng r((uint64_t)v[14]);
      Arena ar;
      // extents: (size-1)*sl + nn coefficients (0 if size==0); in place: one buffer of the larger extent
      auto ext = [&](uint64_t sz, uint64_t sl) { return sz ? ((sz - 1) * sl + nn) * 8 : 0; };
      size_t ea = ext(as, asl), er = ext(rs, rsl);
      size_t eio = inplace ? std::max(ea, er) : er;
      Buf R = ar.alloc(eio, OVER, 0, 3, v[14]);
      Buf A = inplace ? R : ar.alloc(ea, UNDER);
      int64_t *res = R.as<int64_t>(), *a = A.as<int64_t>();
      std::vector<int64_t> acopy(eio > ea ? eio / 8 : ea / 8);
      for (uint64_t i = 0; i < as; ++i) fill_data<int64_t>(a + i * asl, nn, 1, r);
      memcpy(acopy.data(), a, inplace ? eio : ea);
      std::vector<int64_t> expect(eio / 8);
      memcpy(expect.data(), res, eio);  // padding and limbs >= res_size must stay as they were
      std::vector<int64_t> tmp(nn);
      for (uint64_t i = 0; i < rs; ++i) {
        if (i < as) {
          model<int64_t>(op, nn, p, tmp.data(), acopy.data() + i * asl);
          memcpy(expect.data() + i * rsl, tmp.data(), nn * 8);
        } else
          memset(expect.data() + i * rsl, 0, nn * 8);
      }
      if (big) {
        if (op == ROT) vec_znx_big_rotate(mod, p, (VEC_ZNX_BIG*)res, rs, (VEC_ZNX_BIG*)a, as);
        else vec_znx_big_automorphism(mod, p, (VEC_ZNX_BIG*)res, rs, (VEC_ZNX_BIG*)a, as);
      } else {
        if (op == ROT) vec_znx_rotate(mod, p, res, rs, rsl, a, as, asl);
        else vec_znx_automorphism(mod, p, res, rs, rsl, a, as, asl);
      }
      for (uint64_t i = 0; i < eio / 8; ++i)
        if (res[i] != expect[i])
          return c.failf("%s%s nn=%llu p=%lld res_size=%llu a_size=%llu: word %llu (limb %llu, coeff %llu) = %lld, expected %lld",
                         big ? "vec_znx_big_" : "vec_znx_", opname(op), (unsigned long long)nn, (long long)p,
                         (unsigned long long)rs, (unsigned long long)as, (unsigned long long)i,
                         (unsigned long long)(i / rsl), (unsigned long long)(i % rsl), (long long)res[i], (long long)expect[i]);
      if (!inplace && memcmp(a, acopy.data(), ea) != 0) return c.failf("source operand modified");
      if (ar.check_canaries() >= 0) return c.failf("write outside the declared extents");
    };
    subs.push_back(s);
  }
  return subs;
}
