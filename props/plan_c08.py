from planlib import geo, desc_fuzz

OPS = ["vec_znx_zero", "vec_znx_copy", "vec_znx_negate", "vec_znx_add", "vec_znx_sub", "vec_znx_rotate", "vec_znx_automorphism",
       "vec_znx_big_add", "vec_znx_big_add_small", "vec_znx_big_add_small2", "vec_znx_big_sub", "vec_znx_big_sub_small_a",
       "vec_znx_big_sub_small_b", "vec_znx_big_sub_small2", "vec_znx_big_rotate", "vec_znx_big_automorphism"]


def _jobs(tier):
    mult = 1 if tier == "quick" else 300
    jobs = []
    for k in range(1, 17):
        jobs.append(dict(sub="vec", count=geo(k, 6000, 7, 40) * mult, fix=dict(k=k)))
        jobs.append(dict(sub="vec", count=geo(k, 1500, 6, 10) * mult, fix=dict(k=k), flavour="asan"))
    jobs.append(dict(sub="kernels", count=8000 * mult, fix=dict(logn=(0, 6))))
    jobs.append(dict(sub="kernels", count=1500 * mult, fix=dict(logn=(7, 12))))
    return jobs


# all 13 orderings of three sizes (weak orders on 3 elements) must be hit
_ORD3 = []
for ra in "<=>":
    for ab in "<=>":
        for rb in "<=>":
            # consistent triples only
            import itertools
            ok = any((("<" if r < a else ">" if r > a else "=") == ra and ("<" if a < b else ">" if a > b else "=") == ab and
                      ("<" if r < b else ">" if r > b else "=") == rb) for r, a, b in itertools.product(range(3), repeat=3))
            if ok:
                _ORD3.append("order:r%sa,a%sb,r%sb" % (ra, ab, rb))

PLAN_ID = "C08"
PLAN = dict(
    src="props/c08.cpp", flavour="rel",
    rule="cases = (N=2^k, op in the 16 element-wise vec_znx / vec_znx_big (incl. mixed small/big) entry points, res/a/b limb counts 0..5 "
         "independently, strides N..N+3 and N+4096 per operand, 0..2 extra limbs allocated past res_size, module type, CPU cfg, p, prefill, "
         "operands up to 61 bits) + coefficient kernels at nn=1,2,4,..; oracle = limb-wise model with zero extension over the WHOLE output "
         "buffer (padding and limbs past res_size must keep their prefill), source snapshots, guard pages/canaries. "
         "Non-trivial: res_size>=1 and the sizes are not all equal.",
    assumptions=["operands below 2^61 so add/sub stay inside int64 (documented 2^62 operand range)"],
    quick=_jobs("quick"), thorough=_jobs("thorough"),
    fuzz=desc_fuzz("C08", fix=dict(k=(1, 10), logn=(0, 10))),
    required_classes=dict(all=["op:" + o for o in OPS] + _ORD3 + ["order:r<a", "order:r>a", "order:r=a", "res_size=0", "a_size=0", "b_size=0",
                                                                  "stride>N", "stride:huge", "module:NTT120", "cfg:generic", "extra_limbs", "alias:1", "alias:2", "alias:3", "alias:4"]
                          + ["k:%d" % k for k in range(1, 17)]),
)
