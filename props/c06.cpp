// C06 — reim/cplx FFT and iFFT equal the mathematical transform, in documented order.
// Oracle: long double twist + textbook radix-2 DFT + bit reversal (engine/oracle_fft.hpp), re-verified at two outputs per
// case by Horner's rule (which is also compared with the library output directly).
//   forward:  out[j] = P(omega^(1+4 bitrev_k(j))), omega = exp(i pi/2m);   inverse: m * F^-1(input)
//   || out - exact ||_2 <= (8 log2(2m) 2^-53 + 4 log2(2m) 2^-63) || exact ||_2      (m = 1: identity, exact equality)
//   the same call on a copy of the input gives bit-identical output; tables are not written.
// Non-trivial: m >= 2 and the input is not a multiple of a single impulse.
#include <algorithm>
#include <cmath>
#include <map>
#include <tuple>

#include "arena.hpp"
#include "harness.hpp"
#include "oracle_fft.hpp"
#include "spq.hpp"

using namespace vh;
const char* vh_property_id = "C06";

// not declared in the library's headers (defined in cplx_fft_ref.c / cplx_ifft_ref.c, used by the table fillers)
extern "C" void cplx_fft16_precomp(const double entry_pwr, CPLX** omg);
extern "C" void cplx_ifft16_precomp(const double entry_pwr, CPLX** omg);

typedef long double ld;
enum Layout { REIM = 0, CPLXL = 1 };
enum Dir { FWD = 0, INV = 1 };
enum Fam { IMPULSE = 0, CONSTANT, RESONANT, DYNRANGE, RANDOM, NFAM };
static const char* fam_name(int f) {
  static const char* n[] = {"impulse", "constant", "resonant", "dynrange", "random"};
  return n[f % NFAM];
}

static bool host_fma() { return __builtin_cpu_supports("fma") && __builtin_cpu_supports("avx2"); }

// ------------------------------------------------------------------------------------------------ statistics
// worst error/bound ratio per implementation (printed at exit when C06_STATS is set; diagnostics only)
static std::map<std::string, double>& worst_map() {
  static std::map<std::string, double> m;
  return m;
}
static void dump_stats() {
  for (auto& kv : worst_map()) fprintf(stderr, "C06STAT %-28s max(err/bound)=%.4f\n", kv.first.c_str(), kv.second);
}
static void note_ratio(const std::string& impl, unsigned k, double ratio) {
  static bool on = getenv("C06_STATS") != nullptr;
  if (!on) return;
  std::map<std::string, double>& wm = worst_map();  // constructed before the atexit registration: destroyed after it ran
  static bool reg = (atexit(dump_stats), true);
  (void)reg;
  double& a = wm[impl];
  a = std::max(a, ratio);
  char b[96];
  snprintf(b, sizeof b, "%s k=%02u", impl.c_str(), k);
  double& q = wm[b];
  q = std::max(q, ratio);
}
static const char* ratio_bucket(double r) {
  if (r <= 0.02) return "<=0.02";
  if (r <= 0.04) return "<=0.04";
  if (r <= 0.06) return "<=0.06";
  if (r <= 0.08) return "<=0.08";
  if (r <= 0.10) return "<=0.10";
  if (r <= 0.15) return "<=0.15";
  if (r <= 0.25) return "<=0.25";
  if (r <= 0.50) return "<=0.50";
  if (r <= 1.00) return "<=1.00";
  return ">1";
}

// ------------------------------------------------------------------------------------------------ precomp cache
// Tables are immutable after creation (that is part of the property and is checked by hashing them around every
// call), so one object per (layout, direction, m, CPU mask) serves the whole process.  The dispatch is decided at
// creation time, hence the MaskGuard.  delete_*_precomp is free(): no mask needed; left to process exit.
struct Precomp {
  void* p = nullptr;
  double* powomegas = nullptr;
  size_t struct_len = 0, table_len = 0;
  bool is_avx = false;
};
static const Precomp& get_precomp(int layout, int dir, uint64_t m, unsigned mask) {
  static std::map<std::tuple<int, int, uint64_t, unsigned>, Precomp> cache;
  auto key = std::make_tuple(layout, dir, m, mask);
  auto it = cache.find(key);
  if (it != cache.end()) { spq::maybe_bystander(); return it->second; }
  Precomp pc;
  spq::MaskGuard g(mask);
  if (layout == REIM) {
    pc.table_len = 2 * m * sizeof(double);  // <= OMG_SPACE of new_reim_(i)fft_precomp
    if (dir == FWD) {
      REIM_FFT_PRECOMP* t = new_reim_fft_precomp((uint32_t)m, 0);
      pc.p = t, pc.powomegas = t->powomegas, pc.struct_len = sizeof *t, pc.is_avx = t->function == reim_fft_avx2_fma;
    } else {
      REIM_IFFT_PRECOMP* t = new_reim_ifft_precomp((uint32_t)m, 0);
      pc.p = t, pc.powomegas = t->powomegas, pc.struct_len = sizeof *t, pc.is_avx = t->function == reim_ifft_avx2_fma;
    }
  } else {
    pc.table_len = 2 * m * sizeof(CPLX);  // <= OMG_SPACE of new_cplx_(i)fft_precomp
    if (dir == FWD) {
      CPLX_FFT_PRECOMP* t = new_cplx_fft_precomp((uint32_t)m, 0);
      pc.p = t, pc.powomegas = t->powomegas, pc.struct_len = sizeof *t, pc.is_avx = t->function == cplx_fft_avx2_fma;
    } else {
      CPLX_IFFT_PRECOMP* t = new_cplx_ifft_precomp((uint32_t)m, 0);
      pc.p = t, pc.powomegas = t->powomegas, pc.struct_len = sizeof *t, pc.is_avx = t->function == cplx_ifft_avx2_fma;
    }
  }
  return cache[key] = pc;
}

static std::string impl_name(int layout, int dir, bool avx) {
  return std::string(layout == REIM ? "reim_" : "cplx_") + (dir == FWD ? "fft_" : "ifft_") + (avx ? "avx2_fma" : "ref");
}

// ------------------------------------------------------------------------------------------------ inputs
struct Case {
  unsigned k;
  int layout, dir, fam, cexp;
  uint64_t idx, seed;
  int amode;
  int xscale = 0;     // 0: scale 2^cexp with |cexp|<=400; 1: unit impulse at 2^-1018..2^-960; 2: at 2^+960..2^+1024 ("every finite input")
  uint64_t tnum = 1;  // entry power tnum / 2^tlog (1/4: the full transform)
  unsigned tlog = 2;
};

// the five families of the design; every non-zero magnitude lies in [2^-500, 2^500]
static void gen_input(const Case& cs, Rng& r, std::vector<double>& re, std::vector<double>& im) {
  const unsigned k = cs.k;
  const uint64_t m = 1ull << k;
  re.assign(m, 0.0);
  im.assign(m, 0.0);
  auto comp = [&]() {
    double x = 0.5 + 0.5 * r.unit();
    return (r.next() & 1) ? -x : x;
  };
  double a = comp(), b = comp();
  switch (r.below(4)) {
    case 0: b = 0; break;
    case 1: a = 0; break;
    default: break;
  }
  int e = cs.cexp;
  // extreme scales only for the impulse family: every partial sum of the transform is then a single term, so the exact outputs and all
  // intermediates stay finite and (at the small end) normal or nearly so -- the 2^-53 relative model is then still meaningful up to the
  // absolute underflow floor that run_case adds
  if (cs.fam == IMPULSE && cs.xscale == 1) e = -1018 + (int)(cs.idx % 59);
  if (cs.fam == IMPULSE && cs.xscale == 2) {
    e = 960 + (int)(cs.idx % 65);  // up to 2^1024 * [0.5,1): the top of the double range
    if (e >= 1022) { if (fabs(a) >= fabs(b)) b = 0; else a = 0; }  // keep the modulus (= every exact output's modulus) below DBL_MAX
  }
  switch (cs.fam) {
    case IMPULSE: {
      uint64_t i = cs.idx % m;
      re[i] = std::ldexp(a, e);
      im[i] = std::ldexp(b, e);
      break;
    }
    case CONSTANT:
      for (uint64_t n = 0; n < m; ++n) re[n] = std::ldexp(a, e), im[n] = std::ldexp(b, e);
      break;
    case RESONANT: {
      // forward: c_n = A conj(x_r)^n  -> all the energy in output r;  inverse: y_j = A x_j^n -> all in coefficient n
      const uint64_t q = cs.idx % m;
      const unsigned L = k + cs.tlog;
      for (uint64_t n = 0; n < m; ++n) {
        fo::C w;
        if (cs.dir == FWD)
          w = fo::cconj(fo::root((cs.tnum + (fo::bitrev(q, k) << cs.tlog)) * n, L));
        else
          w = fo::root((cs.tnum + (fo::bitrev(n, k) << cs.tlog)) * q, L);
        fo::C v = fo::cmul({(ld)a, (ld)b}, w);
        re[n] = std::ldexp((double)v.re, e);
        im[n] = std::ldexp((double)v.im, e);
      }
      break;
    }
    case DYNRANGE: {
      auto one = [&]() {
        if (r.below(32) == 0) return 0.0;
        double x = std::ldexp(1.0 + r.unit(), e + (int)r.below(81) - 40);
        return (r.next() & 1) ? -x : x;
      };
      for (uint64_t n = 0; n < m; ++n) re[n] = one(), im[n] = one();
      break;
    }
    default:
      for (uint64_t n = 0; n < m; ++n) re[n] = std::ldexp(r.sunit(), e), im[n] = std::ldexp(r.sunit(), e);
  }
}

static inline void pack(int layout, uint64_t m, const std::vector<double>& re, const std::vector<double>& im, double* d) {
  if (layout == REIM)
    for (uint64_t n = 0; n < m; ++n) d[n] = re[n], d[m + n] = im[n];
  else
    for (uint64_t n = 0; n < m; ++n) d[2 * n] = re[n], d[2 * n + 1] = im[n];
}
static inline fo::C at(int layout, uint64_t m, const double* d, uint64_t n) {
  return layout == REIM ? fo::C{(ld)d[n], (ld)d[m + n]} : fo::C{(ld)d[2 * n], (ld)d[2 * n + 1]};
}

// ------------------------------------------------------------------------------------------------ the check
struct ConstRegion {
  const void* p;
  size_t len;
};
struct Call {
  std::function<void(double*)> fn;
  std::vector<ConstRegion> tables;  // memory that the call must not modify
};

static int oracle_selftest_code() {
  static int code = fo::self_test(6);
  return code;
}

// runs cs through `call`; implementation label `impl` (for classes/messages); `what` = entry point description
static void run_case(Ctx& c, const Case& cs, const std::string& impl, const std::string& what, const Call& call) {
  const unsigned k = cs.k;
  const uint64_t m = 1ull << k;
  const size_t B = 2 * m * sizeof(double);
  if (int st = oracle_selftest_code()) return c.failf("ORACLE SELF-TEST FAILED (code %d): harness defect, not a library finding", st);

  Rng r(cs.seed);
  std::vector<double> re, im;
  gen_input(cs, r, re, im);
  uint64_t nz = 0;
  for (uint64_t n = 0; n < m; ++n) nz += (re[n] != 0.0 || im[n] != 0.0);
  c.nontrivial = m >= 2 && nz >= 2;
  c.cls("k:" + std::to_string(k));
  c.cls(std::string("fam:") + fam_name(cs.fam));
  if (cs.fam == IMPULSE && cs.xscale == 1) c.cls("scale:2^-1018..2^-960");
  if (cs.fam == IMPULSE && cs.xscale == 2) c.cls("scale:2^960..2^1024");
  c.cls("impl:" + impl);
  c.cls("at:" + impl + ":k" + std::to_string(k));
  c.cls(cs.dir == FWD ? "dir:fft" : "dir:ifft");
  c.cls(cs.layout == REIM ? "layout:reim" : "layout:cplx");
  c.notef("%s m=%llu %s input=%s scale=2^%d idx=%llu entry_pwr=%llu/2^%u (%llu non-zero coefficients)", what.c_str(),
          (unsigned long long)m, impl.c_str(), fam_name(cs.fam), cs.cexp, (unsigned long long)(cs.idx % m),
          (unsigned long long)cs.tnum, cs.tlog, (unsigned long long)nz);

  Arena ar;
  const int mode1 = cs.amode == 0 ? OVER : cs.amode == 1 ? UNDER : MID;
  Buf D1 = ar.alloc(B, mode1, 0, 1);
  Buf D2 = ar.alloc(B, mode1 == OVER ? UNDER : OVER, 0, 2);
  double *d1 = D1.as<double>(), *d2 = D2.as<double>();
  pack(cs.layout, m, re, im, d1);
  memcpy(d2, d1, B);
  std::vector<double> in(d1, d1 + 2 * m);

  std::vector<uint64_t> th;
  for (auto& t : call.tables) th.push_back(hash_bytes(t.p, t.len));
  call.fn(d1);
  call.fn(d2);
  for (size_t i = 0; i < call.tables.size(); ++i)
    if (hash_bytes(call.tables[i].p, call.tables[i].len) != th[i])
      return c.failf("%s m=%llu: the call modified its precomputed table (region %zu of %zu bytes)", what.c_str(),
                     (unsigned long long)m, i, call.tables[i].len);
  if (memcmp(d1, d2, B) != 0) {
    uint64_t i = 0;
    while (memcmp(&d1[i], &d2[i], 8) == 0) ++i;
    return c.failf("%s m=%llu: the same call on a copy of the input is not bit-identical: double %llu is %a then %a", what.c_str(),
                   (unsigned long long)m, (unsigned long long)i, d1[i], d2[i]);
  }
  size_t w;
  int bad = ar.check_canaries(&w);
  if (bad >= 0) return c.failf("%s m=%llu wrote outside its 2m doubles (buffer %d, byte %zu)", what.c_str(), (unsigned long long)m, bad, w);

  if (m == 1) {  // identity
    if (memcmp(d1, in.data(), B) != 0)
      return c.failf("%s m=1: the transform must be the identity, (%a,%a) became (%a,%a)", what.c_str(), in[0], in[1], d1[0], d1[1]);
    return;
  }

  // ---- oracle
  std::vector<fo::C> x(m), exact;
  for (uint64_t n = 0; n < m; ++n) x[n] = {(ld)re[n], (ld)im[n]};
  if (cs.dir == FWD)
    fo::forward(k, x, exact, cs.tnum, cs.tlog);
  else
    fo::inverse(k, x, exact, cs.tnum, cs.tlog);
  const ld nin = fo::norm2(x), nex = fo::norm2(exact);
  const ld npars = sqrtl((ld)m) * nin;  // Parseval: both maps are sqrt(m) times a unitary map
  const ld L2 = (ld)(k + 1);            // log2(2m)
  const ld tol_stmt = 8 * L2 * 0x1p-53L, tol_orc = 4 * L2 * 0x1p-63L;
  if (!(fabsl(nex - npars) <= tol_orc * npars))
    return c.failf("ORACLE SELF-CHECK FAILED (Parseval): |exact|=%.20Lg sqrt(m)|in|=%.20Lg; harness defect", nex, npars);

  // two outputs re-evaluated by Horner's rule: validates the oracle and, independently of it, the library output
  uint64_t spots[2] = {r.below(m), r.below(m)};
  if (cs.fam == RESONANT) spots[1] = cs.idx % m;
  fo::C hv[2];
  ld he[2];
  for (int s = 0; s < 2; ++s) {
    hv[s] = cs.dir == FWD ? fo::forward_at(k, x, spots[s], &he[s], cs.tnum, cs.tlog)
                          : fo::inverse_at(k, x, spots[s], &he[s], cs.tnum, cs.tlog);
    ld d = fo::cabsl_(fo::csub(hv[s], exact[spots[s]]));
    if (d > tol_orc * npars + he[s])
      return c.failf("ORACLE SELF-CHECK FAILED: transform and Horner disagree at output %llu by %.3Lg (allowed %.3Lg); harness defect",
                     (unsigned long long)spots[s], d, tol_orc * npars + he[s]);
  }

  // ---- library vs exact, 2-norm
  ld worst = -1;
  uint64_t wj = 0;
  std::vector<fo::C> diff(m);
  for (uint64_t j = 0; j < m; ++j) {
    fo::C o = at(cs.layout, m, d1, j);
    diff[j] = fo::csub(o, exact[j]);
    ld q = diff[j].re * diff[j].re + diff[j].im * diff[j].im;
    if (!(q <= worst)) worst = q, wj = j;  // also catches NaN
  }
  const ld err = fo::norm2(diff);
  // absolute floor: each of the <= 8*log2(2m) roundings per output may be a subnormal rounding of up to 2^-1075 (only matters at 2^-1000 scales)
  const ld tol_abs = sqrtl((ld)m) * 8 * L2 * 0x1p-1074L;
  const ld bound = (tol_stmt + tol_orc) * nex + tol_abs;
  const double ratio = (double)(err / (tol_stmt * nex));
  if (!(err <= bound)) {
    fo::C o = at(cs.layout, m, d1, wj);
    return c.failf("%s m=%llu (%s, input %s*2^%d): ||out-exact||_2 = %.4Lg > bound %.4Lg = 8*log2(2m)*2^-53*||exact||_2 "
                   "(||exact||_2=%.6Lg, ratio %.3g); worst output j=%llu: got (%.17g, %.17g), exact (%.20Lg, %.20Lg)",
                   what.c_str(), (unsigned long long)m, impl.c_str(), fam_name(cs.fam), cs.cexp, err, bound, nex, ratio,
                   (unsigned long long)wj, (double)o.re, (double)o.im, exact[wj].re, exact[wj].im);
  }
  for (int s = 0; s < 2; ++s) {
    fo::C o = at(cs.layout, m, d1, spots[s]);
    ld d = fo::cabsl_(fo::csub(o, hv[s]));
    if (!(d <= tol_stmt * npars + he[s] + 8 * L2 * 0x1p-1074L))
      return c.failf("%s m=%llu (%s): output %llu = (%.17g, %.17g) but Horner evaluation of the input polynomial gives "
                     "(%.20Lg, %.20Lg): |diff| %.4Lg > %.4Lg",
                     what.c_str(), (unsigned long long)m, impl.c_str(), (unsigned long long)spots[s], (double)o.re, (double)o.im,
                     hv[s].re, hv[s].im, d, tol_stmt * npars + he[s]);
  }
  c.cls("ratio:" + impl + ":" + ratio_bucket(ratio));
  note_ratio(impl, k, ratio);
}

// ------------------------------------------------------------------------------------------------ entry points
static Call api_call(int layout, int dir, const Precomp& pc) {
  Call cl;
  void* p = pc.p;
  if (layout == REIM) {
    if (dir == FWD) cl.fn = [p](double* d) { reim_fft((const REIM_FFT_PRECOMP*)p, d); };
    else cl.fn = [p](double* d) { reim_ifft((const REIM_IFFT_PRECOMP*)p, d); };
  } else {
    if (dir == FWD) cl.fn = [p](double* d) { cplx_fft((const CPLX_FFT_PRECOMP*)p, d); };
    else cl.fn = [p](double* d) { cplx_ifft((const CPLX_IFFT_PRECOMP*)p, d); };
  }
  cl.tables = {{pc.p, pc.struct_len}, {pc.powomegas, pc.table_len}};
  return cl;
}

static Call driver_call(int layout, int dir, bool avx, const Precomp& pc) {
  Call cl;
  void* p = pc.p;
  if (layout == REIM) {
    if (dir == FWD) {
      if (avx) cl.fn = [p](double* d) { reim_fft_avx2_fma((const REIM_FFT_PRECOMP*)p, d); };
      else cl.fn = [p](double* d) { reim_fft_ref((const REIM_FFT_PRECOMP*)p, d); };
    } else {
      if (avx) cl.fn = [p](double* d) { reim_ifft_avx2_fma((const REIM_IFFT_PRECOMP*)p, d); };
      else cl.fn = [p](double* d) { reim_ifft_ref((const REIM_IFFT_PRECOMP*)p, d); };
    }
  } else {
    if (dir == FWD) {
      if (avx) cl.fn = [p](double* d) { cplx_fft_avx2_fma((const CPLX_FFT_PRECOMP*)p, d); };
      else cl.fn = [p](double* d) { cplx_fft_ref((const CPLX_FFT_PRECOMP*)p, d); };
    } else {
      if (avx) cl.fn = [p](double* d) { cplx_ifft_avx2_fma((const CPLX_IFFT_PRECOMP*)p, d); };
      else cl.fn = [p](double* d) { cplx_ifft_ref((const CPLX_IFFT_PRECOMP*)p, d); };
    }
  }
  cl.tables = {{pc.p, pc.struct_len}, {pc.powomegas, pc.table_len}};
  return cl;
}

// leaf kernels: {name, layout, N, avx}
struct Leaf {
  const char* fwd;
  const char* inv;
  int layout;
  unsigned logn;
  bool avx;
};
static const Leaf LEAVES[] = {
    {"reim_fft2_ref", "reim_ifft2_ref", REIM, 1, false},       {"reim_fft4_ref", "reim_ifft4_ref", REIM, 2, false},
    {"reim_fft8_ref", "reim_ifft8_ref", REIM, 3, false},       {"reim_fft16_ref", "reim_ifft16_ref", REIM, 4, false},
    {"reim_fft4_avx_fma", "reim_ifft4_avx_fma", REIM, 2, true}, {"reim_fft8_avx_fma", "reim_ifft8_avx_fma", REIM, 3, true},
    {"reim_fft16_avx_fma", "reim_ifft16_avx_fma", REIM, 4, true}, {"cplx_fft16_ref", "cplx_ifft16_ref", CPLXL, 4, false},
    {"cplx_fft16_avx_fma", "cplx_ifft16_avx_fma", CPLXL, 4, true},
};
static const int NLEAVES = sizeof(LEAVES) / sizeof(LEAVES[0]);

typedef void (*REIM_LEAF)(double*, double*, const void*);
typedef void (*REIM_FILL)(const double, double**);
typedef void (*CPLX_LEAF)(void*, const void*);

std::vector<Sub> vh_subs() {
  std::vector<Sub> subs;
  const Field F_SEED = {"seed", 0, INT64_MAX - 1};
  // ------------------------------------------------------------ (a) reim_fft / reim_ifft through the precomp, both cfgs
  // ------------------------------------------------------------ (b) cplx_fft / cplx_ifft likewise
  for (int layout = 0; layout < 2; ++layout) {
    Sub s;
    s.name = layout == REIM ? "reim_api" : "cplx_api";
    s.fields = {{"k", 0, 16}, {"dir", 0, 1}, {"cfg", 0, 1}, {"fam", 0, NFAM - 1}, {"cexp", -400, 400}, {"idx", 0, 65535},
                {"amode", 0, 2}, F_SEED, {"xscale", 0, 5}};
    s.run = [layout](const Vals& v, Ctx& c) {
      Case cs;
      cs.k = (unsigned)v[0], cs.layout = layout, cs.dir = (int)v[1], cs.fam = (int)v[3], cs.cexp = (int)v[4];
      cs.idx = (uint64_t)v[5], cs.amode = (int)v[6], cs.seed = (uint64_t)v[7];
      cs.xscale = v[8] >= 4 ? (int)v[8] - 3 : 0;
      const unsigned mask = v[2] ? spq::GENERIC : spq::FULL;
      const Precomp& pc = get_precomp(layout, cs.dir, 1ull << cs.k, mask);
      c.cls(mask ? "cfg:generic" : "cfg:full");
      c.cls("entry:api");
      std::string what = std::string(layout == REIM ? "reim_" : "cplx_") + (cs.dir == FWD ? "fft" : "ifft") +
                         "(new_precomp under cfg=" + (mask ? "generic" : "full") + ")";
      run_case(c, cs, impl_name(layout, cs.dir, pc.is_avx), what, api_call(layout, cs.dir, pc));
    };
    subs.push_back(s);
  }
  // ------------------------------------------------------------ (c) the _ref and _avx2_fma drivers called directly on the table
  {
    Sub s;
    s.name = "drivers";
    s.fields = {{"k", 0, 16}, {"layout", 0, 1}, {"dir", 0, 1}, {"drv", 0, 1}, {"tcfg", 0, 1}, {"fam", 0, NFAM - 1},
                {"cexp", -400, 400}, {"idx", 0, 65535}, {"amode", 0, 2}, F_SEED};
    s.run = [](const Vals& v, Ctx& c) {
      Case cs;
      cs.k = (unsigned)v[0], cs.layout = (int)v[1], cs.dir = (int)v[2], cs.fam = (int)v[5], cs.cexp = (int)v[6];
      cs.idx = (uint64_t)v[7], cs.amode = (int)v[8], cs.seed = (uint64_t)v[9];
      const uint64_t m = 1ull << cs.k;
      bool avx = v[3] && host_fma();
      // the library's dispatcher never selects the cplx AVX driver for m <= 4: stay inside its domain
      if (cs.layout == CPLXL && m <= 4) avx = false;
      const unsigned mask = v[4] ? spq::GENERIC : spq::FULL;
      const Precomp& pc = get_precomp(cs.layout, cs.dir, m, mask);
      c.cls("entry:direct");
      c.cls(mask ? "tablecfg:generic" : "tablecfg:full");
      std::string impl = impl_name(cs.layout, cs.dir, avx);
      run_case(c, cs, impl, impl + "(table created under cfg=" + (mask ? "generic" : "full") + ")",
               driver_call(cs.layout, cs.dir, avx, pc));
    };
    subs.push_back(s);
  }
  // ------------------------------------------------------------ (d) leaf kernels with tables from the library's fill routines
  {
    Sub s;
    s.name = "leaf";
    s.fields = {{"kern", 0, NLEAVES - 1}, {"dir", 0, 1}, {"epl", 0, 12}, {"epu", 0, 4095}, {"fam", 0, NFAM - 1},
                {"cexp", -400, 400}, {"idx", 0, 15}, {"amode", 0, 2}, F_SEED};
    s.run = [](const Vals& v, Ctx& c) {
      int kern = (int)v[0];
      if (LEAVES[kern].avx && !host_fma()) kern = LEAVES[kern].layout == CPLXL ? 7 : (int)LEAVES[kern].logn - 1;
      const Leaf& lf = LEAVES[kern];
      Case cs;
      cs.k = lf.logn, cs.layout = lf.layout, cs.dir = (int)v[1], cs.fam = (int)v[4], cs.cexp = (int)v[5];
      cs.idx = (uint64_t)v[6], cs.amode = (int)v[7], cs.seed = (uint64_t)v[8];
      const uint64_t N = 1ull << cs.k;
      // entry power: 1/4 for the 2/4/8-point kernels (only ever used as the whole transform); the 16-point kernels are
      // the leaves of every larger transform m = 16*2^e, where block i gets (1+4*rev)/(4*2^e): generate exactly those
      unsigned e = N == 16 ? (unsigned)v[2] : 0;
      cs.tlog = 2 + e;
      cs.tnum = 1 + 4 * ((uint64_t)v[3] & ((1ull << e) - 1));
      const double entry_pwr = std::ldexp((double)cs.tnum, -(int)cs.tlog);
      const char* name = cs.dir == FWD ? lf.fwd : lf.inv;
      c.cls(std::string("leaf:") + name);
      c.cls("entry:leaf");
      c.cls(e == 0 ? "entry_pwr:1/4" : "entry_pwr:inner_block");
      // table filled by the library's own routine, in an arena buffer of exactly the documented size
      Arena tar;
      const size_t tbytes = lf.layout == REIM ? N * sizeof(double) : 8 * sizeof(CPLX);
      Buf T = tar.alloc(tbytes, OVER, 0, 1);
      if (lf.layout == REIM) {
        static const REIM_FILL ffill[] = {nullptr, fill_reim_fft2_omegas, fill_reim_fft4_omegas, fill_reim_fft8_omegas, fill_reim_fft16_omegas};
        static const REIM_FILL ifill[] = {nullptr, fill_reim_ifft2_omegas, fill_reim_ifft4_omegas, fill_reim_ifft8_omegas, fill_reim_ifft16_omegas};
        double* omg = T.as<double>();
        (cs.dir == FWD ? ffill : ifill)[cs.k](entry_pwr, &omg);
        if (omg != T.as<double>() + N) return c.failf("fill routine of %s advanced the table pointer by %td doubles, expected %llu", name,
                                                      omg - T.as<double>(), (unsigned long long)N);
      } else {
        CPLX* omg = T.as<CPLX>();
        (cs.dir == FWD ? cplx_fft16_precomp : cplx_ifft16_precomp)(entry_pwr, &omg);
        if (omg != T.as<CPLX>() + 8) return c.failf("precomp routine of %s advanced the table pointer by %td complexes, expected 8", name,
                                                    omg - T.as<CPLX>());
      }
      if (tar.check_canaries() >= 0) return c.failf("fill routine of %s wrote outside the table", name);
      Call cl;
      const void* tab = T.p;
      if (lf.layout == REIM) {
        static const REIM_LEAF fr[] = {nullptr, reim_fft2_ref, reim_fft4_ref, reim_fft8_ref, reim_fft16_ref};
        static const REIM_LEAF fa[] = {nullptr, nullptr, reim_fft4_avx_fma, reim_fft8_avx_fma, reim_fft16_avx_fma};
        static const REIM_LEAF ir[] = {nullptr, reim_ifft2_ref, reim_ifft4_ref, reim_ifft8_ref, reim_ifft16_ref};
        static const REIM_LEAF ia[] = {nullptr, nullptr, reim_ifft4_avx_fma, reim_ifft8_avx_fma, reim_ifft16_avx_fma};
        REIM_LEAF f = (cs.dir == FWD ? (lf.avx ? fa : fr) : (lf.avx ? ia : ir))[cs.k];
        cl.fn = [f, tab, N](double* d) { f(d, d + N, tab); };
      } else {
        CPLX_LEAF f = cs.dir == FWD ? (lf.avx ? cplx_fft16_avx_fma : cplx_fft16_ref) : (lf.avx ? cplx_ifft16_avx_fma : cplx_ifft16_ref);
        cl.fn = [f, tab](double* d) { f(d, tab); };
      }
      cl.tables = {{T.p, tbytes}};
      run_case(c, cs, name, std::string(name) + "(table from the library's fill routine)", cl);
      if (!c.failed() && tar.check_canaries() >= 0) c.failf("%s wrote next to its table", name);
    };
    subs.push_back(s);
  }
  // ------------------------------------------------------------ (d') the table-free recursive implementations (exported, used as oracles by the
  // library's own tests): reim_naive_(i)fft / cplx_(i)fft_naive "mod X^m - exp(2i.pi.entry_pwr)", entry powers (1+4r)/2^(2+e)
  {
    Sub s;
    s.name = "naive";
    s.fields = {{"k", 0, 12}, {"layout", 0, 1}, {"dir", 0, 1}, {"epl", 0, 6}, {"epu", 0, 63}, {"fam", 0, NFAM - 1}, {"cexp", -400, 400}, {"idx", 0, 65535}, {"amode", 0, 2}, F_SEED};
    s.run = [](const Vals& v, Ctx& c) {
      Case cs;
      cs.k = (unsigned)v[0], cs.layout = (int)v[1], cs.dir = (int)v[2], cs.fam = (int)v[5], cs.cexp = (int)v[6];
      cs.idx = (uint64_t)v[7], cs.amode = (int)v[8], cs.seed = (uint64_t)v[9];
      const uint64_t m = 1ull << cs.k;
      const unsigned e = (unsigned)v[3];
      cs.tlog = 2 + e;
      cs.tnum = 1 + 4 * ((uint64_t)v[4] & ((1ull << e) - 1));
      const double entry_pwr = std::ldexp((double)cs.tnum, -(int)cs.tlog);
      Call cl;
      const int layout = cs.layout, dir = cs.dir;
      cl.fn = [=](double* d) {
        if (layout == REIM) (dir == FWD ? reim_naive_fft : reim_naive_ifft)(m, entry_pwr, d, d + m);
        else if (dir == FWD) cplx_fft_naive((uint32_t)m, entry_pwr, (CPLX*)d);
        else cplx_ifft_naive((uint32_t)m, entry_pwr, (CPLX*)d);
      };
      const std::string name = std::string(layout == REIM ? (dir == FWD ? "reim_naive_fft" : "reim_naive_ifft") : (dir == FWD ? "cplx_fft_naive" : "cplx_ifft_naive"));
      c.cls("entry:naive");
      c.cls(e == 0 ? "entry_pwr:1/4" : "entry_pwr:inner_block");
      run_case(c, cs, name, name, cl);
    };
    subs.push_back(s);
  }
  // ------------------------------------------------------------ (e) the *_simple entry points (process-wide cached tables)
  // ------------------------------------------------------------ (f) data living in the table's own built-in buffers
  // new_*_precomp(m, num_buffers) appends num_buffers scratch vectors to the table ("contiguous to the constant tables"): a
  // transform run inside buffer b must equal the same transform in a caller array, leave the table and the other buffers intact.
  {
    Sub s;
    s.name = "precomp_buffers";
    s.fields = {{"k", 0, 16}, {"layout", 0, 1}, {"dir", 0, 1}, {"cfg", 0, 1}, {"nbuf", 1, 3}, {"b", 0, 2}, {"fam", 0, NFAM - 1}, {"cexp", -40, 40},
                {"idx", 0, 65535}, F_SEED};
    s.run = [](const Vals& v, Ctx& c) {
      Case cs;
      cs.k = (unsigned)v[0], cs.layout = (int)v[1], cs.dir = (int)v[2], cs.fam = (int)v[6], cs.cexp = (int)v[7];
      cs.idx = (uint64_t)v[8], cs.amode = 0, cs.seed = (uint64_t)v[9];
      const uint64_t m = 1ull << cs.k;
      const unsigned mask = v[3] ? spq::GENERIC : spq::FULL;
      const uint32_t nbuf = (uint32_t)v[4], b = (uint32_t)(v[5] % v[4]);
      const size_t B = 2 * m * sizeof(double);
      Rng r(cs.seed);
      std::vector<double> re, im;
      gen_input(cs, r, re, im);
      std::vector<double> in(2 * m), ext(2 * m);
      pack(cs.layout, m, re, im, in.data());
      ext = in;
      void* t;
      std::vector<double*> bufs(nbuf);
      {
        spq::MaskGuard g(mask);
        if (cs.layout == REIM) t = cs.dir == FWD ? (void*)new_reim_fft_precomp((uint32_t)m, nbuf) : (void*)new_reim_ifft_precomp((uint32_t)m, nbuf);
        else t = cs.dir == FWD ? (void*)new_cplx_fft_precomp((uint32_t)m, nbuf) : (void*)new_cplx_ifft_precomp((uint32_t)m, nbuf);
      }
      for (uint32_t i = 0; i < nbuf; ++i) {
        if (cs.layout == REIM) bufs[i] = cs.dir == FWD ? reim_fft_precomp_get_buffer((REIM_FFT_PRECOMP*)t, i) : reim_ifft_precomp_get_buffer((REIM_IFFT_PRECOMP*)t, i);
        else bufs[i] = (double*)(cs.dir == FWD ? cplx_fft_precomp_get_buffer((CPLX_FFT_PRECOMP*)t, i) : cplx_ifft_precomp_get_buffer((CPLX_IFFT_PRECOMP*)t, i));
      }
      auto run = [&](double* d) {
        if (cs.layout == REIM) { if (cs.dir == FWD) reim_fft((REIM_FFT_PRECOMP*)t, d); else reim_ifft((REIM_IFFT_PRECOMP*)t, d); }
        else { if (cs.dir == FWD) cplx_fft((CPLX_FFT_PRECOMP*)t, d); else cplx_ifft((CPLX_IFFT_PRECOMP*)t, d); }
      };
      std::string what = std::string(cs.layout == REIM ? "reim_" : "cplx_") + (cs.dir == FWD ? "fft" : "ifft") + " in precomp buffer " + std::to_string(b) + "/" +
                         std::to_string(nbuf) + " (cfg=" + (mask ? "generic" : "full") + ")";
      c.notef("%s m=%llu input=%s", what.c_str(), (unsigned long long)m, fam_name(cs.fam));
      // 1. reference: transform in a caller array BEFORE any buffer is touched
      run(ext.data());
      // 2. fill every buffer with a pattern, the chosen one with the input; transform inside it
      for (uint32_t i = 0; i < nbuf; ++i) for (uint64_t q = 0; q < 2 * m; ++q) bufs[i][q] = 1000.0 + i + q;
      memcpy(bufs[b], in.data(), B);
      run(bufs[b]);
      bool ok = memcmp(bufs[b], ext.data(), B) == 0;
      // 3. the same transform in a caller array afterwards must still give the same result (table intact)
      std::vector<double> ext2 = in;
      run(ext2.data());
      bool ok2 = memcmp(ext2.data(), ext.data(), B) == 0;
      bool others = true;
      for (uint32_t i = 0; i < nbuf; ++i) if (i != b) for (uint64_t q = 0; q < 2 * m; ++q) if (bufs[i][q] != 1000.0 + i + q) others = false;
      free(t);
      c.nontrivial = m >= 2;
      c.cls("entry:precomp_buffer");
      c.cls(cs.layout == REIM ? "pbuf:reim" : "pbuf:cplx");
      c.cls("pbuf:k" + std::to_string(cs.k));
      if (!ok) return c.failf("%s m=%llu: result differs from the same transform in a caller-provided array", what.c_str(), (unsigned long long)m);
      if (!ok2) return c.failf("%s m=%llu: after using the built-in buffer the table gives a different result (storing data in the buffer damaged the precomputed table)", what.c_str(), (unsigned long long)m);
      if (!others) return c.failf("%s m=%llu: another built-in buffer was modified", what.c_str(), (unsigned long long)m);
    };
    subs.push_back(s);
  }
  {
    Sub s;
    s.name = "simple";
    s.fields = {{"k", 0, 16}, {"which", 0, 3}, {"fam", 0, NFAM - 1}, {"cexp", -400, 400}, {"idx", 0, 65535}, {"amode", 0, 2}, F_SEED, {"kprev", 0, 17}};
    s.run = [](const Vals& v, Ctx& c) {
      Case cs;
      cs.k = (unsigned)v[0], cs.layout = (int)(v[1] >> 1), cs.dir = (int)(v[1] & 1), cs.fam = (int)v[2], cs.cexp = (int)v[3];
      cs.idx = (uint64_t)v[4], cs.amode = (int)v[5], cs.seed = (uint64_t)v[6];
      const uint32_t m = 1u << cs.k;
      // the tables of the *_simple API are cached per dimension: first use the same function at ANOTHER dimension (kprev; 17 = none), so that
      // every pair of dimensions meets in some process (a cache slot shared by two dimensions shows up only then)
      if (v[7] <= 16 && (unsigned)v[7] != cs.k) {
        const uint32_t mp = 1u << v[7];
        std::vector<double> scratch(2 * (size_t)mp, 0.25);
        if (cs.layout == REIM) { if (cs.dir == FWD) reim_fft_simple(mp, scratch.data()); else reim_ifft_simple(mp, scratch.data()); }
        else { if (cs.dir == FWD) cplx_fft_simple(mp, scratch.data()); else cplx_ifft_simple(mp, scratch.data()); }
        c.cls("simple:after-other-dimension");
      }
      // the cached table is created at first use under whatever CPU mask is active: always the unmasked host here, so
      // that a case does not depend on the cases before it
      Call cl;
      const char* name;
      if (cs.layout == REIM) {
        if (cs.dir == FWD) name = "reim_fft_simple", cl.fn = [m](double* d) { reim_fft_simple(m, d); };
        else name = "reim_ifft_simple", cl.fn = [m](double* d) { reim_ifft_simple(m, d); };
      } else {
        if (cs.dir == FWD) name = "cplx_fft_simple", cl.fn = [m](double* d) { cplx_fft_simple(m, d); };
        else name = "cplx_ifft_simple", cl.fn = [m](double* d) { cplx_ifft_simple(m, d); };
      }
      bool avx = host_fma() && !(cs.layout == CPLXL && m <= 4);
      c.cls("entry:simple");
      c.cls(std::string("simple:") + name);
      c.cls("cfg:full");
      run_case(c, cs, impl_name(cs.layout, cs.dir, avx), name, cl);
    };
    subs.push_back(s);
  }
  return subs;
}
