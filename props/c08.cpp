// C08 — vec_znx size/stride semantics: zero-extend, truncate, write only res limbs.
#include "vecops.hpp"

using namespace vh;
const char* vh_property_id = "C08";

std::vector<Sub> vh_subs() {
  std::vector<Sub> subs;
  {
    Sub s;
    s.name = "vec";
    s.fields = {{"k", 1, 16}, {"op", 0, vecops::NOPS - 1}, {"res_size", 0, 5}, {"a_size", 0, 5}, {"b_size", 0, 5}, {"res_pad", 0, 4}, {"a_pad", 0, 4},
                {"b_pad", 0, 4}, {"extra", 0, 2}, {"mtype", 0, 1}, {"cfg", 0, 1}, {"pmode", 0, 3}, {"pj", 0, 17}, {"pu", 0, INT64_MAX - 1},
                {"neg", 0, 1}, {"prefill", 0, 3}, {"bits", 1, 61}, {"alias", 0, 6}, {"seed", 0, INT64_MAX - 1}};
    s.run = [](const Vals& v, Ctx& ctx) {
      vecops::Case c;
      c.k = v[0];
      c.op = (int)v[1];
      c.rs = v[2]; c.as = v[3]; c.bs = v[4];
      auto pad = [](int64_t x) -> uint64_t { return x == 4 ? 4096 : (uint64_t)x; };  // one huge stride class
      c.rpad = pad(v[5]); c.apad = pad(v[6]); c.bpad = pad(v[7]);
      if (c.k >= 13) { c.rs %= 3; c.as %= 3; c.bs %= 3; }
      c.extra = v[8];
      c.mtype = (int)v[9];
      c.mask = v[10] ? spq::GENERIC : spq::FULL;
      char ar = vecops::OPS[c.op].arith;
      c.p = ring::make_p((int)v[11], c.k, v[12], (uint64_t)v[13], (int)v[14], ar == 'a');
      c.prefill = (int)v[15];
      c.bits = (int)v[16];
      c.seed = (uint64_t)v[18];
      // the statement covers aliased calls too ("unless aliased with the output"): half of the cases alias the output with an operand
      { static const int amap[7] = {0, 0, 0, 1, 2, 3, 4}; c.alias = amap[v[17]]; }  // 4: a and b are two views (sizes may differ) of one input buffer
      if (vecops::OPS[c.op].res_big && c.alias) { c.rpad = c.apad = c.bpad = 0; }
      vecops::run(ctx, c);
      const auto& o = vecops::OPS[c.op];
      bool alleq = (o.nin == 0) ? false : (o.nin == 1 ? c.rs == c.as : (c.rs == c.as && c.as == c.bs));
      ctx.nontrivial = c.rs >= 1 && !alleq;
    };
    subs.push_back(s);
  }
  {
    // coefficient kernels: exactly nn words are written, result = elementwise op (nn = 1,2,4,...)
    Sub s;
    s.name = "kernels";
    s.fields = {{"logn", 0, 12}, {"fn", 0, 7}, {"prefill", 0, 3}, {"bits", 1, 61}, {"seed", 0, INT64_MAX - 1}};
    s.run = [](const Vals& v, Ctx& ctx) {
      const uint64_t n = 1ull << v[0];
      const int fn = (int)v[1];
      static const char* names[] = {"znx_add_i64_ref", "znx_add_i64_avx", "znx_sub_i64_ref", "znx_sub_i64_avx", "znx_negate_i64_ref", "znx_negate_i64_avx",
                                    "znx_copy_i64_ref", "znx_zero_i64_ref"};
      Rng r((uint64_t)v[4]);
      Arena ar;
      Buf A = ar.alloc(n * 8, OVER), B = ar.alloc(n * 8, UNDER), R = ar.alloc(n * 8, (v[4] & 1) ? OVER : UNDER, 0, (int)v[2], v[4]);
      int64_t *a = A.as<int64_t>(), *b = B.as<int64_t>(), *res = R.as<int64_t>();
      for (uint64_t i = 0; i < n; ++i) { a[i] = r.sbits((unsigned)v[3]); b[i] = r.sbits((unsigned)v[3]); }
      std::vector<int64_t> as(a, a + n), bs(b, b + n), ex(n);
      switch (fn) {
        case 0: znx_add_i64_ref(n, res, a, b); break;
        case 1: znx_add_i64_avx(n, res, a, b); break;
        case 2: znx_sub_i64_ref(n, res, a, b); break;
        case 3: znx_sub_i64_avx(n, res, a, b); break;
        case 4: znx_negate_i64_ref(n, res, a); break;
        case 5: znx_negate_i64_avx(n, res, a); break;
        case 6: znx_copy_i64_ref(n, res, a); break;
        default: znx_zero_i64_ref(n, res);
      }
      for (uint64_t i = 0; i < n; ++i) {
        int64_t e = fn < 2 ? as[i] + bs[i] : fn < 4 ? as[i] - bs[i] : fn < 6 ? -as[i] : fn == 6 ? as[i] : 0;
        if (res[i] != e) return ctx.failf("%s nn=%llu: res[%llu]=%lld expected %lld", names[fn], (unsigned long long)n, (unsigned long long)i, (long long)res[i], (long long)e);
      }
      if (memcmp(a, as.data(), n * 8) || memcmp(b, bs.data(), n * 8)) return ctx.failf("%s modified an input", names[fn]);
      if (ar.check_canaries() >= 0) return ctx.failf("%s nn=%llu wrote outside its nn words", names[fn], (unsigned long long)n);
      ctx.notef("%s nn=%llu bits=%d", names[fn], (unsigned long long)n, (int)v[3]);
      ctx.nontrivial = n >= 1;
      ctx.cls(std::string("kernel:") + names[fn]);
      ctx.cls("kn:" + std::to_string(v[0]));
    };
    subs.push_back(s);
  }
  return subs;
}
