// C13 — supported in-place calls give the same result as out-of-place calls.
// Oracle: the aliased call == the same call on private copies with a separate output, bitwise (plus the C08 model for
// the element-wise API).
#include <cmath>

#include "vecops.hpp"

using namespace vh;
const char* vh_property_id = "C13";

static bool bits_equal(const void* a, const void* b, size_t n, size_t* idx) {
  const unsigned char *x = (const unsigned char*)a, *y = (const unsigned char*)b;
  for (size_t i = 0; i < n; ++i)
    if (x[i] != y[i]) { *idx = i; return false; }
  return true;
}

std::vector<Sub> vh_subs() {
  std::vector<Sub> subs;
  {
    Sub s;
    s.name = "vec";
    s.fields = {{"k", 1, 16}, {"op", 1, vecops::NOPS - 1}, {"res_size", 0, 5}, {"a_size", 0, 5}, {"b_size", 0, 5}, {"res_pad", 0, 3}, {"alias", 1, 3},
                {"extra", 0, 1}, {"mtype", 0, 1}, {"cfg", 0, 1}, {"pmode", 0, 3}, {"pj", 0, 17}, {"pu", 0, INT64_MAX - 1}, {"neg", 0, 1},
                {"prefill", 0, 3}, {"bits", 1, 61}, {"seed", 0, INT64_MAX - 1}};
    s.run = [](const Vals& v, Ctx& ctx) {
      vecops::Case c;
      c.k = v[0]; c.op = (int)v[1];
      c.rs = v[2]; c.as = v[3]; c.bs = v[4];
      c.rpad = v[5]; c.apad = v[5]; c.bpad = v[5];
      if (c.k >= 13) { c.rs %= 3; c.as %= 3; c.bs %= 3; }
      const auto& o = vecops::OPS[c.op];
      c.alias = (int)v[6];
      if (o.nin == 1) c.alias = 1;
      // a big result can only be aliased with an operand of the same kind or a small one whose stride is N
      if (o.res_big) { c.rpad = c.apad = c.bpad = 0; }
      c.extra = v[7];
      c.mtype = (int)v[8];
      c.mask = v[9] ? spq::GENERIC : spq::FULL;
      c.p = ring::make_p((int)v[10], c.k, v[11], (uint64_t)v[12], (int)v[13], o.arith == 'a');
      c.prefill = (int)v[14]; c.bits = (int)v[15]; c.seed = (uint64_t)v[16];
      vecops::run(ctx, c);
      uint64_t aliased_size = (c.alias & 1) ? c.as : c.bs;
      bool pz = (o.arith == 'r' || o.arith == 'a') && ring::pmod(c.p, 2ull << c.k) > 1;
      ctx.nontrivial = c.rs >= 1 && (c.rs != aliased_size || pz);
      if (c.rs != aliased_size) ctx.cls("res_size!=aliased_size");
    };
    subs.push_back(s);
  }
  {
    Sub s;
    s.name = "normalize";
    s.fields = {{"kN", 1, 12}, {"k", 1, 62}, {"big", 0, 1}, {"res_size", 0, 6}, {"a_size", 0, 6}, {"pad", 0, 3}, {"prefill", 0, 3}, {"bits", 1, 62},
                {"seed", 0, INT64_MAX - 1}};
    s.run = [](const Vals& v, Ctx& ctx) {
      const uint64_t n = 1ull << v[0];
      const unsigned k = (unsigned)v[1];
      const bool big = v[2];
      const uint64_t rs = v[3], as = v[4], sl = big ? n : n + v[5];
      MODULE* mod = spq::modules().get(n, FFT64, 0);
      Rng r((uint64_t)v[8]);
      const uint64_t limbs = std::max(rs, as);
      const size_t len = limbs ? ((limbs - 1) * sl + n) * 8 : 0;
      Arena ar;
      Buf X = ar.alloc(len, OVER, 0, (int)v[6], v[8]);      // aliased: res == a
      Buf A2 = ar.alloc(len, OVER), R2 = ar.alloc(len, OVER, 0, (int)v[6], v[8]);
      int64_t* x = X.as<int64_t>();
      for (uint64_t i = 0; i < as; ++i)
        for (uint64_t q = 0; q < n; ++q) x[i * sl + q] = (r.next() % 7 == 0) ? ((r.next() & 1) ? ((int64_t)1 << 62) : -((int64_t)1 << 62)) : r.sbits((unsigned)v[7]);
      if (len) memcpy(A2.p, X.p, len);
      Buf T1 = ar.alloc(vec_znx_normalize_base2k_tmp_bytes(mod), OVER, 0, 1), T2 = ar.alloc(vec_znx_normalize_base2k_tmp_bytes(mod), OVER, 0, 2);
      if (big) {
        vec_znx_big_normalize_base2k(mod, k, x, rs, sl, (VEC_ZNX_BIG*)x, as, T1.p);
        vec_znx_big_normalize_base2k(mod, k, R2.as<int64_t>(), rs, sl, (VEC_ZNX_BIG*)A2.p, as, T2.p);
      } else {
        vec_znx_normalize_base2k(mod, k, x, rs, sl, x, as, sl, T1.p);
        vec_znx_normalize_base2k(mod, k, R2.as<int64_t>(), rs, sl, A2.as<int64_t>(), as, sl, T2.p);
      }
      ctx.notef("%s N=%llu k=%u res_size=%llu a_size=%llu sl=%llu res==a", big ? "vec_znx_big_normalize_base2k" : "vec_znx_normalize_base2k",
                (unsigned long long)n, k, (unsigned long long)rs, (unsigned long long)as, (unsigned long long)sl);
      for (uint64_t i = 0; i < rs; ++i)
        for (uint64_t q = 0; q < n; ++q)
          if (x[i * sl + q] != R2.as<int64_t>()[i * sl + q])
            return ctx.failf("%s in place (res==a) N=%llu k=%u res_size=%llu a_size=%llu: limb %llu coeff %llu = %lld, out-of-place call gives %lld",
                             big ? "vec_znx_big_normalize_base2k" : "vec_znx_normalize_base2k", (unsigned long long)n, k, (unsigned long long)rs,
                             (unsigned long long)as, (unsigned long long)i, (unsigned long long)q, (long long)x[i * sl + q], (long long)R2.as<int64_t>()[i * sl + q]);
      // limbs of a beyond res_size are not outputs: they must be unchanged
      for (uint64_t i = rs; i < as; ++i)
        if (memcmp(x + i * sl, A2.as<int64_t>() + i * sl, n * 8) != 0) return ctx.failf("normalize in place modified input limb %llu >= res_size", (unsigned long long)i);
      if (ar.check_canaries() >= 0) return ctx.failf("normalize in place wrote outside its buffers");
      ctx.nontrivial = rs >= 1 && as >= 1 && rs != as;
      ctx.cls(big ? "op:vec_znx_big_normalize_base2k" : "op:vec_znx_normalize_base2k");
      if (rs != as) ctx.cls("res_size!=aliased_size");
    };
    subs.push_back(s);
  }
  {
    Sub s;
    s.name = "idft";  // inverse DFT writing over its own input
    s.fields = {{"k", 1, 16}, {"mtype", 0, 1}, {"tmp_a", 0, 1}, {"res_size", 0, 5}, {"a_size", 0, 4}, {"cfg", 0, 1}, {"bits", 1, 40}, {"seed", 0, INT64_MAX - 1}, {"dpad", 0, 2}};
    s.run = [](const Vals& v, Ctx& ctx) {
      const uint64_t n = 1ull << v[0];
      MODULE_TYPE mt = v[1] ? NTT120 : FFT64;
      const bool tmp_a = v[2];
      uint64_t rs = v[3], as = v[4];
      if (v[0] >= 13) { rs %= 3; as %= 3; }
      // the aliased DFT vector has ds >= a_size limbs: the extra ones are the exact zero limbs that vec_znx_dft writes as padding (a
      // value-dependent "this limb is zero" shortcut of the in-place inverse sees its trigger), and one input limb in four is zero
      const uint64_t ds = as + (uint64_t)v[8];
      unsigned mask = (v[5] && mt == FFT64) ? spq::GENERIC : spq::FULL;  // NTT120 dft exists only with avx2
      MODULE* mod = spq::modules().get(n, mt, mask);
      Rng r((uint64_t)v[7]);
      const size_t dl = spq::dft_limb_bytes(mt, n), bl = spq::big_limb_bytes(mt, n);
      const size_t len = std::max(rs * bl, ds * dl);
      Arena ar;
      Buf A = ar.alloc(as * n * 8, OVER);
      int64_t* a = A.as<int64_t>();
      // FFT64: keep dft->idft inside the exact regime of C01 (E < 1/2 for a * 1): N*2^bits*2^-46 < 1/2; NTT120 is exact on all of int64
      const unsigned bits = mt == FFT64 ? (unsigned)std::min<int64_t>(v[6], 44 - (int64_t)v[0]) : (unsigned)std::min<int64_t>(v[6] + 22, 62);
      for (uint64_t i = 0; i < as * n; ++i) a[i] = r.sbits(bits);
      for (uint64_t i = 0; i < as; ++i)
        if (r.below(4) == 0) memset(a + i * n, 0, n * 8);
      Buf X = ar.alloc(len, OVER, 0, 3, v[7]);  // aliased buffer: holds a_dft, receives res
      Buf D2 = ar.alloc(ds * dl, OVER), R2 = ar.alloc(rs * bl, OVER, 0, 1);
      vec_znx_dft(mod, (VEC_ZNX_DFT*)X.p, ds, a, as, n);
      if (ds * dl) memcpy(D2.p, X.p, ds * dl);
      Buf T1 = ar.alloc(vec_znx_idft_tmp_bytes(mod), OVER, 0, 1), T2 = ar.alloc(vec_znx_idft_tmp_bytes(mod), OVER, 0, 2);
      if (tmp_a) {
        vec_znx_idft_tmp_a(mod, (VEC_ZNX_BIG*)X.p, rs, (VEC_ZNX_DFT*)X.p, ds);
        vec_znx_idft_tmp_a(mod, (VEC_ZNX_BIG*)R2.p, rs, (VEC_ZNX_DFT*)D2.p, ds);
      } else {
        vec_znx_idft(mod, (VEC_ZNX_BIG*)X.p, rs, (VEC_ZNX_DFT*)X.p, ds, T1.p);
        vec_znx_idft(mod, (VEC_ZNX_BIG*)R2.p, rs, (VEC_ZNX_DFT*)D2.p, ds, T2.p);
      }
      ctx.notef("vec_znx_idft%s res==a_dft N=%llu %s res_size=%llu a_size=%llu", tmp_a ? "_tmp_a" : "", (unsigned long long)n, mt == FFT64 ? "FFT64" : "NTT120",
                (unsigned long long)rs, (unsigned long long)as);
      size_t idx;
      if (!bits_equal(X.p, R2.p, rs * bl, &idx))
        return ctx.failf("vec_znx_idft%s with res==a_dft (%s N=%llu res_size=%llu a_size=%llu) differs from the out-of-place call at byte %zu (limb %zu)",
                         tmp_a ? "_tmp_a" : "", mt == FFT64 ? "FFT64" : "NTT120", (unsigned long long)n, (unsigned long long)rs, (unsigned long long)as, idx, idx / bl);
      // and both equal the exact integers (round trip), so a consistent corruption is caught too
      for (uint64_t i = 0; i < rs; ++i)
        for (uint64_t q = 0; q < n; ++q) {
          __int128 got = mt == FFT64 ? (__int128)((int64_t*)X.p)[i * n + q] : ((__int128*)X.p)[i * n + q];
          __int128 ex = i < as ? (__int128)a[i * n + q] : 0;
          if (got != ex) return ctx.failf("vec_znx_idft%s in place: limb %llu coeff %llu = %lld, expected %lld", tmp_a ? "_tmp_a" : "", (unsigned long long)i,
                                          (unsigned long long)q, (long long)got, (long long)ex);
        }
      if (ar.check_canaries() >= 0) return ctx.failf("vec_znx_idft in place wrote outside its buffers");
      ctx.nontrivial = rs >= 1 && as >= 1;
      ctx.cls(std::string("op:vec_znx_idft") + (tmp_a ? "_tmp_a" : "") + (mt == FFT64 ? ":FFT64" : ":NTT120"));
      if (rs != ds) ctx.cls("res_size!=aliased_size");
      if (ds > as) ctx.cls("idft:zero-padded dft limbs");
    };
    subs.push_back(s);
  }
  {
    Sub s;
    s.name = "fftvec";  // pointwise products with r==a, r==b, r==a==b
    s.fields = {{"logm", 0, 14}, {"layout", 0, 2}, {"addmul", 0, 1}, {"alias", 1, 3}, {"cfg", 0, 1}, {"simple", 0, 1}, {"expo", 0, 60}, {"seed", 0, INT64_MAX - 1}};
    s.run = [](const Vals& v, Ctx& ctx) {
      uint64_t logm = v[0];
      const int layout = (int)v[1];  // 0 reim, 1 reim4, 2 cplx
      if (layout == 1 && logm < 2) logm = 2;  // reim4 needs m multiple of 4
      const uint64_t m = 1ull << logm;
      const bool addmul = v[2];
      const int alias = (int)v[3];
      const unsigned mask = v[4] ? spq::GENERIC : spq::FULL;
      const bool simple = v[5] && !mask;  // *_simple caches the dispatch of its first use: only with the full configuration
      Rng r((uint64_t)v[7]);
      const size_t len = 2 * m * 8;
      Arena ar;
      Buf Rb = ar.alloc(len, OVER), Ab = ar.alloc(len, UNDER), Bb = ar.alloc(len, OVER);
      Buf R2 = ar.alloc(len, OVER), A2 = ar.alloc(len, OVER), B2 = ar.alloc(len, OVER);
      auto fill = [&](double* p) { for (uint64_t i = 0; i < 2 * m; ++i) p[i] = std::ldexp(r.sunit(), (int)r.below(v[6] + 1) - (int)v[6] / 2); };
      fill(Rb.as<double>()); fill(Ab.as<double>()); fill(Bb.as<double>());
      double* rr = Rb.as<double>();
      const double* aa = (alias & 1) ? rr : Ab.as<double>();
      const double* bb = (alias & 2) ? rr : Bb.as<double>();
      memcpy(R2.p, rr, len); memcpy(A2.p, aa, len); memcpy(B2.p, bb, len);
      spq::MaskGuard g(mask);
      static const char* ln[] = {"reim", "reim4", "cplx"};
      ctx.notef("%s_fftvec_%s%s m=%llu alias=%d cfg=%s", ln[layout], addmul ? "addmul" : "mul", simple ? "_simple" : "", (unsigned long long)m, alias, mask ? "generic" : "full");
      auto call = [&](double* R, const double* A, const double* B) {
        if (layout == 0) {
          if (simple) { addmul ? reim_fftvec_addmul_simple(m, R, A, B) : reim_fftvec_mul_simple(m, R, A, B); return; }
          if (addmul) { auto* t = new_reim_fftvec_addmul_precomp(m); reim_fftvec_addmul(t, R, A, B); free(t); }
          else { auto* t = new_reim_fftvec_mul_precomp(m); reim_fftvec_mul(t, R, A, B); free(t); }
        } else if (layout == 1) {
          if (simple) { addmul ? reim4_fftvec_addmul_simple(m, R, A, B) : reim4_fftvec_mul_simple(m, R, A, B); return; }
          if (addmul) { auto* t = new_reim4_fftvec_addmul_precomp(m); reim4_fftvec_addmul(t, R, A, B); free(t); }
          else { auto* t = new_reim4_fftvec_mul_precomp(m); reim4_fftvec_mul(t, R, A, B); free(t); }
        } else {
          if (simple) { addmul ? cplx_fftvec_addmul_simple(m, R, A, B) : cplx_fftvec_mul_simple(m, R, A, B); return; }
          if (addmul) { auto* t = new_cplx_fftvec_addmul_precomp(m); cplx_fftvec_addmul(t, R, A, B); free(t); }
          else { auto* t = new_cplx_fftvec_mul_precomp(m); cplx_fftvec_mul(t, R, A, B); free(t); }
        }
      };
      call(rr, aa, bb);
      call(R2.as<double>(), A2.as<double>(), B2.as<double>());
      size_t idx;
      if (!bits_equal(rr, R2.p, len, &idx))
        return ctx.failf("%s_fftvec_%s m=%llu with %s differs from the out-of-place call at double %zu: %a vs %a", ln[layout], addmul ? "addmul" : "mul",
                         (unsigned long long)m, alias == 1 ? "r==a" : alias == 2 ? "r==b" : "r==a==b", idx / 8, rr[idx / 8], R2.as<double>()[idx / 8]);
      if (!(alias & 1) && memcmp(aa, A2.p, len)) return ctx.failf("fftvec modified source a");
      if (!(alias & 2) && memcmp(bb, B2.p, len)) return ctx.failf("fftvec modified source b");
      if (ar.check_canaries() >= 0) return ctx.failf("fftvec wrote outside its buffers");
      ctx.nontrivial = m >= 2;
      ctx.cls(std::string("op:") + ln[layout] + "_fftvec_" + (addmul ? "addmul" : "mul"));
      ctx.cls("alias:" + std::to_string(alias));
      ctx.cls(mask ? "cfg:generic" : "cfg:full");
    };
    subs.push_back(s);
  }
  return subs;
}
