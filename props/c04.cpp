// C04 — q120 lazy modular arithmetic never wraps 64 bits on any in-range operand.
// A wrap adds 2^64 mod q != 0 to a lane, so it is observable as incongruence of the *final* result with the exact
// value modulo the prime.  This check drives the products and the NTT/iNTT with extremal operands (all-maximal,
// max/min alternating, single maximal, top-bit random, arbitrary 32-bit c-words), with operand pairs that maximise
// the low or the high part of the 64-bit word for every split point h = 1..63, at ell in {0,1,2,9999,10000} and
// generated ell, and compares ref == avx2 == oracle modulo each prime (engine/oracle_modq.hpp).
// No stage-trace hook is used: intermediate levels of the NTT are not observed, only the final result.
#include <algorithm>
#include <map>

#include "arena.hpp"
#include "harness.hpp"
#include "spq.hpp"
#include "oracle_modq.hpp"

using namespace vh;
const char* vh_property_id = "C04";

typedef unsigned __int128 u128;
#define LLU(x) ((unsigned long long)(x))

static bool oracle_ok(Ctx& c) {
  if (mq::selftest().empty()) return true;
  c.failf("ORACLE SELF-CHECK FAILED: %s", mq::selftest().c_str());
  return false;
}

// ------------------------------------------------------------------------------------------ products
enum { K_BAA = 0, K_BBB, K_BBC, K_X2_1COL, K_X2_2COLS, K_N };
static const char* kern_name(int k) {
  static const char* n[] = {"q120_vec_mat1col_product_baa", "q120_vec_mat1col_product_bbb", "q120_vec_mat1col_product_bbc",
                            "q120x2_vec_mat1col_product_bbc", "q120x2_vec_mat2cols_product_bbc"};
  return n[k];
}
struct Precomps {
  q120_mat1col_product_baa_precomp* baa = q120_new_vec_mat1col_product_baa_precomp();
  q120_mat1col_product_bbb_precomp* bbb = q120_new_vec_mat1col_product_bbb_precomp();
  q120_mat1col_product_bbc_precomp* bbc = q120_new_vec_mat1col_product_bbc_precomp();
};
static Precomps& precomps() {
  static Precomps p;
  return p;
}
struct Shape {
  uint64_t xw, yw32, nres;
  bool ycl;
};
static Shape shape_of(int kern) {
  Shape s;
  s.ycl = kern >= K_BBC;
  s.xw = kern >= K_X2_1COL ? 8 : 4;
  s.yw32 = kern == K_X2_2COLS ? 32 : kern == K_X2_1COL ? 16 : 8;
  s.nres = kern == K_X2_2COLS ? 4 : kern == K_X2_1COL ? 2 : 1;
  return s;
}

// runs ref and avx2 on (x, y) already placed in arena buffers, compares both with the oracle modulo each prime
static void call_and_check(Ctx& c, Arena& ar, int kern, uint64_t ell, Buf& X, Buf& Y, const char* what) {
  const Shape sh = shape_of(kern);
  uint64_t* x = X.as<uint64_t>();
  uint64_t* y64 = Y.as<uint64_t>();
  uint32_t* y32 = Y.as<uint32_t>();
  Buf R1 = ar.alloc(sh.nres * 32, OVER, 0, 1), R2 = ar.alloc(sh.nres * 32, OVER, 0, 2);
  const uint64_t hx = hash_bytes(X.p, X.len), hy = hash_bytes(Y.p, Y.len);
  uint64_t expect[4][4];
  switch (kern) {
    case K_BAA:
    case K_BBB: mq::dot_ww(ell, x, 4, y64, 4, expect[0]); break;
    case K_BBC: mq::dot_bc(ell, x, 4, y32, 8, expect[0]); break;
    case K_X2_1COL:
      mq::dot_bc(ell, x, 8, y32, 16, expect[0]);
      mq::dot_bc(ell, x + 4, 8, y32 + 8, 16, expect[1]);
      break;
    default:
      mq::dot_bc(ell, x, 8, y32, 32, expect[0]);
      mq::dot_bc(ell, x + 4, 8, y32 + 8, 32, expect[1]);
      mq::dot_bc(ell, x, 8, y32 + 16, 32, expect[2]);
      mq::dot_bc(ell, x + 4, 8, y32 + 24, 32, expect[3]);
  }
  Precomps& P = precomps();
  q120b *r1 = (q120b*)R1.p, *r2 = (q120b*)R2.p;
  switch (kern) {
    case K_BAA:
      q120_vec_mat1col_product_baa_ref(P.baa, ell, r1, (q120a*)x, (q120a*)y64);
      q120_vec_mat1col_product_baa_avx2(P.baa, ell, r2, (q120a*)x, (q120a*)y64);
      break;
    case K_BBB:
      q120_vec_mat1col_product_bbb_ref(P.bbb, ell, r1, (q120b*)x, (q120b*)y64);
      q120_vec_mat1col_product_bbb_avx2(P.bbb, ell, r2, (q120b*)x, (q120b*)y64);
      break;
    case K_BBC:
      q120_vec_mat1col_product_bbc_ref(P.bbc, ell, r1, (q120b*)x, (q120c*)y32);
      q120_vec_mat1col_product_bbc_avx2(P.bbc, ell, r2, (q120b*)x, (q120c*)y32);
      break;
    case K_X2_1COL:
      q120x2_vec_mat1col_product_bbc_ref(P.bbc, ell, r1, (q120b*)x, (q120c*)y32);
      q120x2_vec_mat1col_product_bbc_avx2(P.bbc, ell, r2, (q120b*)x, (q120c*)y32);
      break;
    default:
      q120x2_vec_mat2cols_product_bbc_ref(P.bbc, ell, r1, (q120b*)x, (q120c*)y32);
      q120x2_vec_mat2cols_product_bbc_avx2(P.bbc, ell, r2, (q120b*)x, (q120c*)y32);
  }
  const uint64_t *a1 = R1.as<uint64_t>(), *a2 = R2.as<uint64_t>();
  for (uint64_t e = 0; e < sh.nres; ++e)
    for (int k = 0; k < 4; ++k) {
      const uint64_t q = mq::QS[k], g1 = a1[4 * e + k] % q, g2 = a2[4 * e + k] % q;
      if (g1 != expect[e][k] || g2 != expect[e][k])
        return c.failf("%s ell=%llu %s: result element %llu lane %d: ref %llu = %llu mod q%d, avx2 %llu = %llu mod q%d, exact sum = %llu mod q%d (first term x=%llu)", kern_name(kern),
                       LLU(ell), what, LLU(e), k, LLU(a1[4 * e + k]), LLU(g1), k + 1, LLU(a2[4 * e + k]), LLU(g2), k + 1, LLU(expect[e][k]), k + 1, LLU(ell ? x[k] : 0));
    }
  if (hash_bytes(X.p, X.len) != hx || hash_bytes(Y.p, Y.len) != hy) return c.failf("%s modified a source operand", kern_name(kern));
  if (ar.check_canaries() >= 0) return c.failf("%s wrote outside its result", kern_name(kern));
}

// fraction of operand words whose top bit (of the layout's word size) is set, in percent
static unsigned topbit_percent(int kern, uint64_t ell, const Buf& X, const Buf& Y) {
  const Shape sh = shape_of(kern);
  uint64_t tot = 0, top = 0;
  const uint64_t* x = X.as<uint64_t>();
  for (uint64_t i = 0; i < ell * sh.xw; ++i) ++tot, top += kern == K_BAA ? (x[i] >> 31) & 1 : x[i] >> 63;
  if (sh.ycl) {
    const uint32_t* y = Y.as<uint32_t>();
    for (uint64_t i = 0; i < ell * sh.yw32; ++i) ++tot, top += y[i] >> 31;
  } else {
    const uint64_t* y = Y.as<uint64_t>();
    for (uint64_t i = 0; i < ell * 4; ++i) ++tot, top += kern == K_BAA ? (y[i] >> 31) & 1 : y[i] >> 63;
  }
  return tot ? (unsigned)(100 * top / tot) : 0;
}

static uint64_t ell_of_class(int ellc, Rng& r) {
  switch (ellc) {
    case 0: return 0;
    case 1: return 1;
    case 2: return 2;
    case 3: return 9999;
    case 4: return 10000;
    case 5: return 1000 + r.below(8999);  // 1000..9998
    case 6: return 3 + r.below(997);      // 3..999
    default: return 8000 + r.below(2001);  // 8000..10000
  }
}
static const char* ell_class_name(int ellc) {
  static const char* n[] = {"ell:0", "ell:1", "ell:2", "ell:9999", "ell:10000", "ell:1000..9998", "ell:3..999", "ell:8000..10000"};
  return n[ellc];
}

enum { OF_ALLMAX = 0, OF_MAX_X_TOPBIT_Y, OF_ALTERNATING, OF_SINGLE, OF_TOPBIT, OF_NEARMAX_DISTINCT, OF_MAX_X_PROPER_C, OF_LANE_MIX, OF_CARRY, OF_N };
static const char* opfam_name(int f) {
  static const char* n[] = {"all-maximal", "max-x-topbit-y", "max/min-alternating", "single-maximal", "topbit-random", "near-max-distinct", "max-x-proper-c", "per-lane zero/maximal mix", "accumulators on a 32-bit carry boundary"};
  return n[f];
}
static uint64_t maxw(int kern) { return kern == K_BAA ? 0xFFFFFFFFull : UINT64_MAX; }
static uint64_t topw(int kern, Rng& r) { return kern == K_BAA ? (r.next() & 0xFFFFFFFFull) | 0x80000000ull : r.next() | (1ull << 63); }
static uint64_t nearmaxw(int kern, Rng& r) { return maxw(kern) - r.below(1024); }

static void run_product(Ctx& c, int kern, int ellc, int opfam, uint64_t seed) {
  if (!oracle_ok(c)) return;
  Rng r(seed);
  const uint64_t ell = ell_of_class(ellc, r);
  const Shape sh = shape_of(kern);
  Arena ar;
  Buf X = ar.alloc(ell * sh.xw * 8, (seed & 1) ? OVER : UNDER), Y = ar.alloc(ell * sh.yw32 * 4, (seed & 2) ? OVER : UNDER);
  uint64_t *x = X.as<uint64_t>(), *y64 = Y.as<uint64_t>();
  uint32_t* y32 = Y.as<uint32_t>();
  const uint64_t pos = ell ? r.below(ell) : 0;
  const int altmode = (int)r.below(3);  // alternating: 0 both operands, 1 only x, 2 x even / y odd
  for (uint64_t i = 0; i < ell; ++i) {
    bool xl = true, yl = true;  // live (non-minimal) term
    if (opfam == OF_SINGLE) xl = yl = i == pos;
    if (opfam == OF_ALTERNATING) {
      xl = !(i & 1);
      yl = altmode == 0 ? !(i & 1) : altmode == 1 ? true : (i & 1);
    }
    for (uint64_t w = 0; w < sh.xw; ++w) {
      uint64_t v = maxw(kern);
      if (opfam == OF_TOPBIT) v = topw(kern, r);
      if (opfam == OF_NEARMAX_DISTINCT) v = nearmaxw(kern, r);
      x[i * sh.xw + w] = xl ? v : 0;
    }
    if (!sh.ycl) {
      for (uint64_t w = 0; w < 4; ++w) {
        uint64_t v = maxw(kern);
        if (opfam == OF_TOPBIT || opfam == OF_MAX_X_TOPBIT_Y) v = topw(kern, r);
        if (opfam == OF_NEARMAX_DISTINCT) v = nearmaxw(kern, r);
        y64[i * 4 + w] = yl ? v : 0;
      }
    } else {
      for (uint64_t w = 0; w < sh.yw32 / 2; ++w) {
        uint32_t c0 = 0xFFFFFFFFu, c1 = 0xFFFFFFFFu;
        if (opfam == OF_TOPBIT || opfam == OF_MAX_X_TOPBIT_Y) c0 = (uint32_t)r.next() | 0x80000000u, c1 = (uint32_t)r.next() | 0x80000000u;
        if (opfam == OF_NEARMAX_DISTINCT) c0 -= (uint32_t)r.below(1024), c1 -= (uint32_t)r.below(1024);
        if (opfam == OF_MAX_X_PROPER_C) mq::c_encode((r.next() & 1) ? mq::QS[w & 3] - 1 - r.below(4) : r.next(), (int)(w & 3), c0, c1);
        y32[i * sh.yw32 + 2 * w] = yl ? c0 : 0;
        y32[i * sh.yw32 + 2 * w + 1] = yl ? c1 : 0;
      }
    }
  }
  if (opfam == OF_LANE_MIX) {
    // the four lanes of a term are independent residues: zero some LANES of a term (never whole terms only) -- a fixed lane mask,
    // a mask alternating from term to term, or a random mask per term; the surviving lanes stay maximal / top-bit random
    const int mode = (int)r.below(4);
    const unsigned fixed = 1 + (unsigned)r.below(14);
    for (uint64_t i = 0; i < ell; ++i) {
      // 8 mask bits: the x2 kernels carry two coefficients (2 x 4 lanes) per row, and a whole coefficient may be zero while the other is not
      unsigned mx = mode == 0 ? (fixed | (((fixed * 7) & 0xF) << 4)) : mode == 1 ? ((i & 1) ? 0xF0 : 0x0F) : mode == 2 ? (unsigned)r.below(256) : (i == pos ? fixed : 0xFF);
      if (mode == 1 && (seed & 64)) mx ^= 0xFF;  // both phases of the alternation
      unsigned my = mode == 3 ? 0xF : (unsigned)r.below(3) == 0 ? (unsigned)r.below(16) : 0xF;
      for (uint64_t w = 0; w < sh.xw; ++w) {
        uint64_t v = (r.next() & 1) ? maxw(kern) : topw(kern, r);
        x[i * sh.xw + w] = ((mx >> (w & 7)) & 1) ? v : 0;
      }
      if (!sh.ycl)
        for (uint64_t w = 0; w < 4; ++w) y64[i * 4 + w] = ((my >> w) & 1) ? ((r.next() & 1) ? maxw(kern) : topw(kern, r)) : 0;
      else
        for (uint64_t w = 0; w < sh.yw32 / 2; ++w)
          if (!((my >> (w & 3)) & 1)) y32[i * sh.yw32 + 2 * w] = y32[i * sh.yw32 + 2 * w + 1] = 0;
    }
  }
  if (opfam == OF_CARRY && ell >= 1) {
    // Carry boundaries of the lazy accumulators.  The b x c kernels add up the 32-bit halves of the 64-bit partial products
    // xl*c0 and xh*c1 separately; the last row is chosen so that the sum of the HIGH halves is congruent to 2^32-1-d (d < 2^14)
    // modulo 2^32 for every x word (first column), i.e. the accumulator sits just below a carry into its next 32-bit word.  For the
    // kernels without c-layout operand the family is top-bit random data.
    for (uint64_t i = 0; i < ell; ++i) {
      for (uint64_t w = 0; w < sh.xw; ++w) x[i * sh.xw + w] = topw(kern, r);
      if (!sh.ycl) for (uint64_t w = 0; w < 4; ++w) y64[i * 4 + w] = topw(kern, r);
      else for (uint64_t w = 0; w < sh.yw32; ++w) y32[i * sh.yw32 + w] = (uint32_t)r.next() | 0x80000000u;
    }
    if (sh.ycl) {
      const uint64_t L = ell - 1;
      for (uint64_t w = 0; w < sh.xw; ++w) {
        uint64_t hi = 0;
        for (uint64_t i = 0; i < L; ++i) {
          const uint64_t xl = x[i * sh.xw + w] & 0xFFFFFFFFull, xh = x[i * sh.xw + w] >> 32;
          hi += ((xl * y32[i * sh.yw32 + 2 * w]) >> 32) + ((xh * y32[i * sh.yw32 + 2 * w + 1]) >> 32);
        }
        const uint64_t c0 = y32[L * sh.yw32 + 2 * w];
        const uint64_t c1 = 0xFFFFFFFFull - r.below(1024);
        y32[L * sh.yw32 + 2 * w + 1] = (uint32_t)c1;
        const uint64_t xl = r.next() & 0xFFFFFFFFull;
        uint64_t xh = r.next() >> 32;
        for (int attempt = 0; attempt < 8; ++attempt) {
          const uint64_t target = 0xFFFFFFFFull - r.below(1 << 14);
          const uint64_t h = (target - hi - ((xl * c0) >> 32)) & 0xFFFFFFFFull;
          if (h + 2 >= c1) continue;
          const uint64_t cand = ((h << 32) + c1 - 1) / c1;  // ceil(h * 2^32 / c1)
          if (cand <= 0xFFFFFFFFull && ((cand * c1) >> 32) == h) { xh = cand; break; }
        }
        x[L * sh.xw + w] = xl | (xh << 32);
      }
    }
  }
  const unsigned tp = topbit_percent(kern, ell, X, Y);
  c.nontrivial = ell >= 1000 && tp >= 90;
  c.cls(std::string("kern:") + kern_name(kern));
  c.cls("impl:ref");
  c.cls("impl:avx2");
  c.cls(ell_class_name(ellc));
  c.cls(std::string("operands:") + opfam_name(opfam));
  if (c.nontrivial) c.cls("products:ell>=1000,>=90%-topbit");
  c.notef("%s_{ref,avx2} ell=%llu operands=%s top-bit words=%u%%", kern_name(kern), LLU(ell), opfam_name(opfam), tp);
  call_and_check(c, ar, kern, ell, X, Y, opfam_name(opfam));
}

// ---- split points: operand pairs that maximise the low-h-bit part / the part above bit h of the 64-bit word
static uint64_t lowmask(unsigned h) { return h >= 64 ? UINT64_MAX : (1ull << h) - 1; }
static uint32_t inv32_odd(uint32_t a) {  // a odd: a^-1 mod 2^32 by Newton iteration
  uint32_t x = a;
  for (int i = 0; i < 5; ++i) x *= 2 - a * x;
  return x;
}
// a-words: pair of 32-bit values whose 64-bit product has a maximal low-h part (small generated search)
static void search_low_pair(unsigned h, Rng& r, uint64_t& bx, uint64_t& by) {
  const uint64_t m = lowmask(h);
  bx = by = 0xFFFFFFFFull;
  uint64_t best = (bx * by) & m;
  auto tryp = [&](uint64_t a, uint64_t b) {
    uint64_t s = (a * b) & m;
    if (s > best) best = s, bx = a, by = b;
  };
  tryp(lowmask(h > 32 ? 32 : h), lowmask(h > 32 ? 32 : h));
  for (int t = 0; t < 256; ++t) {
    uint32_t a = (uint32_t)r.next() | 0x80000001u;  // odd, top bit set
    uint32_t b = (uint32_t)(0u - inv32_odd(a));     // a*b = -1 mod 2^32: low 32 bits of the product all ones
    tryp(a, b);
  }
}

static const char* side_name(int s) {
  static const char* n[] = {"low,low", "high,high", "low,high", "high,low"};
  return n[s];
}

static void run_split(Ctx& c, int kern, unsigned h, int side, int ellc, uint64_t seed) {
  if (!oracle_ok(c)) return;
  Rng r(seed);
  const uint64_t ell = ellc <= 4 ? ell_of_class(ellc, r) : 3 + r.below(9996);
  const Shape sh = shape_of(kern);
  const uint64_t lo = lowmask(h), hi = ~lowmask(h);
  const bool xlow = side == 0 || side == 2, ylow = side == 0 || side == 3;
  uint64_t xv, yv;
  uint32_t c0 = 0xFFFFFFFFu, c1 = 0xFFFFFFFFu;
  if (kern == K_BAA) {
    if (side == 0) search_low_pair(h, r, xv, yv);                 // maximises (x*y) mod 2^h
    else if (side == 1) xv = yv = 0xFFFFFFFFull;                  // maximises (x*y) >> h for every h
    else xv = (xlow ? lo : hi) & 0xFFFFFFFFull, yv = (ylow ? lo : hi) & 0xFFFFFFFFull;
    if (side >= 2 && xv == 0) xv = 0xFFFFFFFFull;
    if (side >= 2 && yv == 0) yv = 0xFFFFFFFFull;
  } else {
    xv = xlow ? lo : hi;
    yv = ylow ? lo : hi;
    if (sh.ycl && side >= 2) {  // c-words follow the pattern as well (32-bit truncations of the low / high pattern)
      c0 = (uint32_t)(ylow ? lo : hi);
      c1 = (uint32_t)((ylow ? lo : hi) >> 32);
      if (!c0 && !c1) c0 = c1 = 0xFFFFFFFFu;
    }
  }
  Arena ar;
  Buf X = ar.alloc(ell * sh.xw * 8, OVER), Y = ar.alloc(ell * sh.yw32 * 4, UNDER);
  uint64_t *x = X.as<uint64_t>(), *y64 = Y.as<uint64_t>();
  uint32_t* y32 = Y.as<uint32_t>();
  for (uint64_t i = 0; i < ell * sh.xw; ++i) x[i] = xv;
  if (!sh.ycl)
    for (uint64_t i = 0; i < ell * 4; ++i) y64[i] = yv;
  else
    for (uint64_t i = 0; i < ell * sh.yw32 / 2; ++i) y32[2 * i] = c0, y32[2 * i + 1] = c1;
  const unsigned tp = topbit_percent(kern, ell, X, Y);
  c.nontrivial = ell >= 1000 && tp >= 90;
  c.cls(std::string("kern:") + kern_name(kern));
  c.cls("h:" + std::to_string(h));
  c.cls(std::string("split:") + side_name(side));
  c.cls(ellc <= 4 ? ell_class_name(ellc) : "ell:3..9998");
  c.notef("%s_{ref,avx2} ell=%llu split point h=%u pattern=(%s) x=0x%llx y=0x%llx c=(0x%x,0x%x)", kern_name(kern), LLU(ell), h, side_name(side), LLU(xv), LLU(sh.ycl ? 0 : yv), c0, c1);
  char what[128];
  snprintf(what, sizeof what, "split h=%u (%s) x=0x%llx y=0x%llx c=(0x%x,0x%x) repeated", h, side_name(side), LLU(xv), LLU(sh.ycl ? 0 : yv), c0, c1);
  call_and_check(c, ar, kern, ell, X, Y, what);
}

// ------------------------------------------------------------------------------------------ NTT / iNTT on extremal lanes
struct NttCtx {
  q120_ntt_precomp* f = nullptr;
  q120_ntt_precomp* b = nullptr;
  mq::Roots roots;
};
static NttCtx& ntt_ctx(uint64_t n) {
  static std::map<uint64_t, NttCtx> cache;
  auto it = cache.find(n);
  if (it != cache.end()) { spq::maybe_bystander(); return it->second; }
  NttCtx& x = cache[n];
  x.f = q120_new_ntt_bb_precomp(n);
  x.b = q120_new_intt_bb_precomp(n);
  Arena ar;
  Buf X = ar.alloc(n * 32, OVER);
  uint64_t* d = X.as<uint64_t>();
  memset(d, 0, n * 32);
  for (int k = 0; k < 4; ++k) d[(n >= 2 ? 4 : 0) + k] = 1;  // the polynomial X (n = 1: the constant 1, unused)
  q120_ntt_bb_avx2(x.f, (q120b*)d);
  x.roots.build(n, d);
  spq::maybe_bystander();  // other tables / modules of other dimensions come and go while this one stays alive
  return x;
}

static void run_ntt(Ctx& c, uint64_t k, int dir, int fam, uint64_t seed) {
  if (!oracle_ok(c)) return;
  const uint64_t n = 1ull << k, W = 4 * n;
  NttCtx& nc = ntt_ctx(n);
  Rng r(seed);
  Arena ar;
  c.cls("k:" + std::to_string(k));
  c.cls(dir == 0 ? "dir:q120_ntt_bb_avx2" : "dir:q120_intt_bb_avx2");
  c.cls(std::string("fam:") + mq::lane_fam_name(fam));
  c.notef("n=%llu %s on %s lanes, final result vs oracle mod q", LLU(n), dir == 0 ? "q120_ntt_bb_avx2" : "q120_intt_bb_avx2", mq::lane_fam_name(fam));
  if (!nc.roots.err.empty()) return c.failf("n=%llu: q120_ntt_bb_avx2 of the polynomial X is not a list of the n primitive 2n-th roots: %s", LLU(n), nc.roots.err.c_str());
  std::vector<uint64_t> x(W), E(W);
  mq::fill_lanes(x.data(), n, fam, r);
  bool all_top = true;
  for (uint64_t i = 0; i < W; ++i) all_top = all_top && (x[i] >> 63);
  c.nontrivial = n >= 2 && (all_top || mq::lane_fam_extremal(fam));
  if (c.nontrivial) c.cls("ntt:extremal-or-all-lanes>=2^63");
  Buf D = ar.alloc(n * 32, (seed & 1) ? OVER : UNDER);
  uint64_t* d = D.as<uint64_t>();
  memcpy(d, x.data(), n * 32);
  if (dir == 0) {
    q120_ntt_bb_avx2(nc.f, (q120b*)d);
    nc.roots.evaluate(x.data(), E.data());
    for (uint64_t i = 0; i < W; ++i)
      if (d[i] % mq::QS[i & 3] != E[i])
        return c.failf("n=%llu q120_ntt_bb_avx2 lanes=%s: output %llu lane %llu = %llu = %llu mod q%llu, exact a(r_j) = %llu (difference is %s 2^64 mod q)", LLU(n),
                       mq::lane_fam_name(fam), LLU(i / 4), LLU(i & 3), LLU(d[i]), LLU(d[i] % mq::QS[i & 3]), LLU((i & 3) + 1), LLU(E[i]),
                       ((d[i] % mq::QS[i & 3] + mq::QS[i & 3] - E[i]) % mq::QS[i & 3] == (uint64_t)((((u128)1) << 64) % mq::QS[i & 3]) ||
                        (E[i] + mq::QS[i & 3] - d[i] % mq::QS[i & 3]) % mq::QS[i & 3] == (uint64_t)((((u128)1) << 64) % mq::QS[i & 3]))
                           ? "exactly +-"
                           : "not");
  } else {
    q120_intt_bb_avx2(nc.b, (q120b*)d);
    nc.roots.evaluate(d, E.data());  // a = intt(y)  <=>  a(r_j) = y_j for all j (the evaluation map is a bijection mod q)
    for (uint64_t i = 0; i < W; ++i)
      if (x[i] % mq::QS[i & 3] != E[i])
        return c.failf("n=%llu q120_intt_bb_avx2 lanes=%s: a = intt(y) has a(r_%llu) = %llu mod q%llu but y = %llu = %llu mod q", LLU(n), mq::lane_fam_name(fam), LLU(i / 4),
                       LLU(E[i]), LLU((i & 3) + 1), LLU(x[i]), LLU(x[i] % mq::QS[i & 3]));
  }
  if (ar.check_canaries() >= 0) return c.failf("n=%llu transform wrote outside its n*4 lanes", LLU(n));
}


// ================================================================================================ stage trace (hook 2)
// spqlios_verif_set_ntt_trace installs a callback that the guarded hook in q120_ntt_avx2.c calls after every stage. It is an
// observation aid: (a) each stage's lazy 64-bit data is compared modulo q with an exact stage-by-stage model that follows the
// schedule the real code executes (twiddles = low 32 bits of the library's own table entries), so a wrap is localised to the stage
// where it happens and a wrap that a later wrap would cancel is still seen; (b) the largest lane value seen after each stage is
// measured, which is the non-trivial rule (some stage reaches >= 2^62) and the fitness of the value-guided search.
extern "C" {
typedef void (*spqlios_verif_ntt_trace_f)(int inverse, uint64_t n, uint64_t stage_nn, const uint64_t* begin, const uint64_t* end);
void spqlios_verif_set_ntt_trace(spqlios_verif_ntt_trace_f f);
}

struct TraceState {
  const q120_ntt_precomp* pre = nullptr;
  const uint64_t* base = nullptr;
  uint64_t n = 0;
  std::vector<uint64_t> model;          // 4n residues
  std::map<uint64_t, uint64_t> stage_max;  // stage_nn -> largest lane value observed after that stage
  std::string err;
  uint64_t stages = 0;
};
static TraceState g_tr;

static inline uint64_t tw(const q120_ntt_precomp* pre, uint64_t entry, int lane) { return pre->powomega[4 * entry + lane] & 0xFFFFFFFFull; }

static void trace_cb(int inverse, uint64_t n, uint64_t nn, const uint64_t* begin, const uint64_t* end) {
  TraceState& t = g_tr;
  if (!t.err.empty()) return;
  ++t.stages;
  const uint64_t off = (uint64_t)(begin - t.base) / 4, len = (uint64_t)(end - begin) / 4;
  uint64_t* m = t.model.data();
  if (nn == 0) {  // twist stage a_k * w_k over the whole vector; forward: table entries 0..n-1, inverse: after all level tables
    uint64_t po = 0;
    if (inverse)
      for (uint64_t s = 2; s <= n; s *= 2) po += s / 2 - 1;
    for (uint64_t i = 0; i < len; ++i)
      for (int l = 0; l < 4; ++l) m[4 * (off + i) + l] = mq::mulm(m[4 * (off + i) + l], tw(t.pre, po + off + i, l), mq::QS[l]);
  } else {
    const uint64_t h = nn / 2;
    uint64_t po = 0;
    if (!inverse) {
      po = n;
      for (uint64_t s = n; s > nn; s /= 2) po += s / 2 - 1;
    } else {
      for (uint64_t s = 2; s < nn; s *= 2) po += s / 2 - 1;
    }
    for (uint64_t blk = off; blk < off + len; blk += nn)
      for (uint64_t i = 0; i < h; ++i)
        for (int l = 0; l < 4; ++l) {
          const uint64_t q = mq::QS[l];
          uint64_t& a = m[4 * (blk + i) + l];
          uint64_t& b = m[4 * (blk + h + i) + l];
          const uint64_t w = i == 0 ? 1 : tw(t.pre, po + i - 1, l);
          if (!inverse) {
            uint64_t s = mq::addm(a, b, q), d = mq::mulm(mq::subm(a, b, q), w, q);
            a = s; b = d;
          } else {
            uint64_t bo = mq::mulm(b, w, q);
            uint64_t s = mq::addm(a, bo, q), d = mq::subm(a, bo, q);
            a = s; b = d;
          }
        }
  }
  uint64_t mx = 0;
  for (uint64_t i = 0; i < 4 * len; ++i) {
    const uint64_t v = begin[i];
    if (v > mx) mx = v;
    if (t.err.empty() && v % mq::QS[i & 3] != m[4 * off + i]) {
      char buf[400];
      const uint64_t q = mq::QS[i & 3], got = v % q, ex = m[4 * off + i];
      const uint64_t w64 = (uint64_t)((((u128)1) << 64) % q);
      snprintf(buf, sizeof buf, "after the %s stage (stage %llu of the %s transform, n=%llu) element %llu lane %llu holds %llu = %llu mod q, the exact stage model gives %llu (difference %s +-2^64 mod q)",
               nn == 0 ? "twist" : ("span-" + std::to_string(nn)).c_str(), LLU(t.stages), inverse ? "inverse" : "forward", LLU(n), LLU(off + i / 4), LLU(i & 3), LLU(v), LLU(got), LLU(ex),
               ((got + q - ex) % q == w64 || (ex + q - got) % q == w64) ? "is exactly" : "is not");
      t.err = buf;
    }
  }
  uint64_t& sm = t.stage_max[nn];
  if (mx > sm) sm = mx;
}

// runs one traced transform; returns the largest lane value seen after any stage (0 on n=1)
static uint64_t traced_transform(Ctx& c, NttCtx& nc, uint64_t n, int dir, const uint64_t* x, std::string* stagesum) {
  Arena ar;
  Buf D = ar.alloc(n * 32, OVER);
  uint64_t* d = D.as<uint64_t>();
  memcpy(d, x, n * 32);
  g_tr = TraceState();
  g_tr.pre = dir == 0 ? nc.f : nc.b;
  g_tr.base = d;
  g_tr.n = n;
  g_tr.model.resize(4 * n);
  for (uint64_t i = 0; i < 4 * n; ++i) g_tr.model[i] = x[i] % mq::QS[i & 3];
  spqlios_verif_set_ntt_trace(trace_cb);
  if (dir == 0) q120_ntt_bb_avx2(nc.f, (q120b*)d); else q120_intt_bb_avx2(nc.b, (q120b*)d);
  spqlios_verif_set_ntt_trace(nullptr);
  if (!g_tr.err.empty()) { c.failf("%s lanes: %s", dir == 0 ? "q120_ntt_bb_avx2" : "q120_intt_bb_avx2", g_tr.err.c_str()); return 0; }
  // the stage model must end where the transform ends
  for (uint64_t i = 0; i < 4 * n; ++i)
    if (d[i] % mq::QS[i & 3] != g_tr.model[i]) { c.failf("n=%llu: final output differs from the last stage of the model (trace incomplete?)", LLU(n)); return 0; }
  uint64_t peak = 0;
  std::string sum;
  for (auto& kv : g_tr.stage_max) {
    if (kv.second > peak) peak = kv.second;
    char b[64];
    snprintf(b, sizeof b, "%s%llu:%.2f", sum.empty() ? "" : " ", LLU(kv.first), kv.second ? std::log2((double)kv.second) : 0.0);
    sum += b;
  }
  if (stagesum) *stagesum = sum;
  return peak;
}

static void peak_classes(Ctx& c, uint64_t peak) {
  const double b = peak ? std::log2((double)peak) : 0;
  c.cls(b >= 63.9 ? "peak:>=2^63.9" : b >= 63 ? "peak:>=2^63" : b >= 62 ? "peak:>=2^62" : "peak:<2^62");
  c.nontrivial = b >= 62;
  if (c.nontrivial) c.cls("trace:some-stage>=2^62");
}

static void run_ntt_trace(Ctx& c, uint64_t k, int dir, int fam, uint64_t seed) {
  if (!oracle_ok(c)) return;
  const uint64_t n = 1ull << k;
  NttCtx& nc = ntt_ctx(n);
  Rng r(seed);
  std::vector<uint64_t> x(4 * n);
  mq::fill_lanes(x.data(), n, fam, r);
  std::string sum;
  uint64_t peak = traced_transform(c, nc, n, dir, x.data(), &sum);
  c.cls("tk:" + std::to_string(k));
  c.cls(dir == 0 ? "trace:q120_ntt_bb_avx2" : "trace:q120_intt_bb_avx2");
  c.notef("traced %s n=%llu lanes=%s; log2 of the largest lane after each stage (stage span:bits, 0 = twist): %s", dir == 0 ? "ntt" : "intt", LLU(n), mq::lane_fam_name(fam), sum.c_str());
  if (c.failed()) return;
  peak_classes(c, peak);
}

// value-guided search: hill climbing on the lane vector, fitness = largest lane value after stage `target` (or any stage)
static void run_ntt_search(Ctx& c, uint64_t k, int dir, int64_t tsel, int iters, uint64_t seed) {
  if (!oracle_ok(c)) return;
  const uint64_t n = 1ull << k;
  NttCtx& nc = ntt_ctx(n);
  Rng r(seed);
  std::vector<uint64_t> best(4 * n), cand;
  mq::fill_lanes(best.data(), n, (int)r.below(mq::LF_N), r);
  // target stage: span 2^tsel (clamped to n), or 0 (twist), or "any" when tsel < 0
  const bool any = tsel < 0;
  const uint64_t target = tsel == 0 ? 0 : std::min<uint64_t>(n, 1ull << std::min<int64_t>(tsel, 16));
  auto fitness = [&](const std::vector<uint64_t>& v, uint64_t* peak) -> uint64_t {
    uint64_t p = traced_transform(c, nc, n, dir, v.data(), nullptr);
    if (peak) *peak = p;
    if (any) return p;
    auto it = g_tr.stage_max.find(target);
    return it == g_tr.stage_max.end() ? 0 : it->second;
  };
  uint64_t bestpeak = 0, bestfit = fitness(best, &bestpeak);
  for (int it = 0; it < iters && !c.failed(); ++it) {
    cand = best;
    const uint64_t muts = 1 + r.below(n >= 16 ? 8 : 2);
    for (uint64_t q = 0; q < muts; ++q) {
      uint64_t pos = r.below(4 * n);
      switch (r.below(5)) {
        case 0: cand[pos] = UINT64_MAX; break;
        case 1: cand[pos] = mq::extremal_word((int)(pos & 3), r); break;
        case 2: cand[pos] = r.next(); break;
        case 3: cand[pos] = 0; break;
        default: { uint64_t e = r.below(n); for (int l = 0; l < 4; ++l) cand[4 * e + l] = mq::extremal_word(l, r); }
      }
    }
    uint64_t pk, f = fitness(cand, &pk);
    if (f >= bestfit) { bestfit = f; best = cand; }
    if (pk > bestpeak) bestpeak = pk;
  }
  c.cls("sk:" + std::to_string(k));
  c.cls(dir == 0 ? "search:q120_ntt_bb_avx2" : "search:q120_intt_bb_avx2");
  c.notef("value-guided search n=%llu %s target stage %s: %d mutations, best lane value after the target stage 2^%.3f, overall peak 2^%.3f", LLU(n), dir == 0 ? "ntt" : "intt",
          any ? "any" : std::to_string(target).c_str(), iters, bestfit ? std::log2((double)bestfit) : 0.0, bestpeak ? std::log2((double)bestpeak) : 0.0);
  if (c.failed()) return;
  peak_classes(c, bestpeak);
}

std::vector<Sub> vh_subs() {
  std::vector<Sub> subs;
  {
    Sub s;
    s.name = "product";
    s.fields = {{"kern", 0, K_N - 1}, {"ellc", 0, 7}, {"opfam", 0, OF_N - 1}, {"seed", 0, INT64_MAX - 1}};
    s.run = [](const Vals& v, Ctx& c) {
      int opfam = (int)v[2];
      if (opfam == OF_MAX_X_PROPER_C && v[0] < K_BBC) opfam = OF_ALLMAX;  // proper c-words only exist for the b x c kernels
      run_product(c, (int)v[0], (int)v[1], opfam, (uint64_t)v[3]);
    };
    subs.push_back(s);
  }
  {
    Sub s;
    s.name = "split";
    s.fields = {{"kern", 0, K_N - 1}, {"h", 1, 63}, {"side", 0, 3}, {"ellc", 0, 5}, {"seed", 0, INT64_MAX - 1}};
    s.run = [](const Vals& v, Ctx& c) { run_split(c, (int)v[0], (unsigned)v[1], (int)v[2], (int)v[3], (uint64_t)v[4]); };
    subs.push_back(s);
  }
  {
    Sub s;
    s.name = "ntt";
    s.fields = {{"k", 0, 16}, {"dir", 0, 1}, {"fam", 0, mq::LF_N - 1}, {"seed", 0, INT64_MAX - 1}};
    s.run = [](const Vals& v, Ctx& c) { run_ntt(c, (uint64_t)v[0], (int)v[1], (int)v[2], (uint64_t)v[3]); };
    subs.push_back(s);
  }
  {
    Sub s;
    s.name = "ntt_trace";
    s.fields = {{"k", 1, 16}, {"dir", 0, 1}, {"fam", 0, mq::LF_N - 1}, {"seed", 0, INT64_MAX - 1}};
    s.run = [](const Vals& v, Ctx& c) { run_ntt_trace(c, (uint64_t)v[0], (int)v[1], (int)v[2], (uint64_t)v[3]); };
    subs.push_back(s);
  }
  {
    Sub s;
    s.name = "ntt_search";
    s.fields = {{"k", 1, 16}, {"dir", 0, 1}, {"target", -1, 16}, {"iters", 20, 400}, {"seed", 0, INT64_MAX - 1}};
    s.run = [](const Vals& v, Ctx& c) { run_ntt_search(c, (uint64_t)v[0], (int)v[1], v[2], (int)v[3], (uint64_t)v[4]); };
    subs.push_back(s);
  }
  return subs;
}
