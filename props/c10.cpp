// C10 — q120 products and layout conversions are exact modulo the 120-bit modulus.
// Oracle: u128 arithmetic modulo each prime on the raw words (engine/oracle_modq.hpp), Garner CRT for the
// centred lift, direct indexing for the block copies.  Non-trivial: ell >= 2 (products), some value not in
// {0,+-1} (conversions), more than one block (extract/save).
#include <algorithm>

#include "arena.hpp"
#include "harness.hpp"
#include "spq.hpp"
#include "oracle_modq.hpp"

using namespace vh;
const char* vh_property_id = "C10";

typedef unsigned __int128 u128;
typedef __int128 i128;
#define LLU(x) ((unsigned long long)(x))

static bool oracle_ok(Ctx& c) {
  if (mq::selftest().empty()) return true;
  c.failf("ORACLE SELF-CHECK FAILED: %s", mq::selftest().c_str());
  return false;
}

// ------------------------------------------------------------------------------------------ word families
// a-words: any value < 2^32 stored in a uint64
enum { WF_CANON = 0, WF_ANY, WF_EXTREMAL, WF_ALLMAX, WF_NONCANON, WF_MIXED, WF_N };
static const char* wf_name(int f) {
  static const char* n[] = {"canonical", "any", "extremal", "allmax", "noncanonical", "mixed"};
  return n[f % WF_N];
}
static uint64_t gen_a(int fam, int k, Rng& r) {
  const uint64_t q = mq::QS[k];
  switch (fam % WF_N) {
    case WF_CANON: return r.below(q);
    case WF_ANY: return r.next() & 0xFFFFFFFFull;
    case WF_EXTREMAL: {
      const uint64_t e[] = {0xFFFFFFFFull, 0xFFFFFFFEull, 0x80000000ull, 0x7FFFFFFFull, q - 1, q, q + 1, 2 * q - 1, 3 * q, 3 * q + 1, 0, 1, 0xFFFF0000ull, 0x0000FFFFull};
      return e[r.below(sizeof e / sizeof e[0])];
    }
    case WF_ALLMAX: return 0xFFFFFFFFull;
    case WF_NONCANON: {  // r + c*q still below 2^32
      uint64_t v = r.below(q);
      uint64_t cm = (0xFFFFFFFFull - v) / q;
      return v + q * r.below(cm + 1);
    }
    default: return gen_a((int)r.below(WF_MIXED), k, r);
  }
}
static uint64_t gen_b(int fam, int k, Rng& r) {
  const uint64_t q = mq::QS[k];
  switch (fam % WF_N) {
    case WF_CANON: return r.below(q);
    case WF_ANY: return r.next();
    case WF_EXTREMAL: {
      const uint64_t cm = mq::cmax(q);
      const uint64_t e[] = {UINT64_MAX, UINT64_MAX - 1, 1ull << 63, (1ull << 63) - 1, 0xFFFFFFFF00000000ull, 0x00000000FFFFFFFFull, 1ull << 32,
                            cm * q, cm * q - 1, (cm - 1) * q, q - 1, q, 0, 1, 0x8000000080000000ull, 0xFFFFFFFF7FFFFFFFull};
      return e[r.below(sizeof e / sizeof e[0])];
    }
    case WF_ALLMAX: return UINT64_MAX;
    case WF_NONCANON: {
      uint64_t v = r.below(q);
      uint64_t cm = (UINT64_MAX - v) / q;
      uint64_t cc = (r.next() & 1) ? cm - r.below(4) : r.below(cm + 1);
      return v + q * cc;
    }
    default: return gen_b((int)r.below(WF_MIXED), k, r);
  }
}
// c-word pairs
enum { CF_PROPER = 0, CF_ARBITRARY, CF_EXTREMAL, CF_ALLMAX, CF_PROPER_EXT, CF_MIXED, CF_N };
static const char* cf_name(int f) {
  static const char* n[] = {"proper", "arbitrary", "extremal-words", "allmax-words", "proper-extremal", "mixed"};
  return n[f % CF_N];
}
static void gen_c(int fam, int k, Rng& r, uint32_t& c0, uint32_t& c1) {
  const uint64_t q = mq::QS[k];
  switch (fam % CF_N) {
    case CF_PROPER: mq::c_encode(r.next(), k, c0, c1); break;
    case CF_ARBITRARY: c0 = (uint32_t)r.next(); c1 = (uint32_t)r.next(); break;
    case CF_EXTREMAL: c0 = (uint32_t)gen_a(WF_EXTREMAL, k, r); c1 = (uint32_t)gen_a(WF_EXTREMAL, k, r); break;
    case CF_ALLMAX: c0 = c1 = 0xFFFFFFFFu; break;
    case CF_PROPER_EXT: {
      static uint64_t inv32[4] = {0, 0, 0, 0};  // (2^32)^-1 mod q: its encoding has c1 = 1
      if (!inv32[k]) inv32[k] = mq::invm((1ull << 32) % q, q);
      const uint64_t e[] = {q - 1, q - 2, 1, 0, (q - 1) / 2, (q + 1) / 2, inv32[k], q - inv32[k]};
      mq::c_encode(e[r.below(8)], k, c0, c1);
      break;
    }
    default: gen_c((int)r.below(CF_MIXED), k, r, c0, c1);
  }
}

// ------------------------------------------------------------------------------------------ products
enum { K_BAA = 0, K_BBB, K_BBC, K_X2_1COL, K_X2_2COLS, K_N };
static const char* kern_name(int k) {
  static const char* n[] = {"q120_vec_mat1col_product_baa", "q120_vec_mat1col_product_bbb", "q120_vec_mat1col_product_bbc",
                            "q120x2_vec_mat1col_product_bbc", "q120x2_vec_mat2cols_product_bbc"};
  return n[k];
}
struct Precomps {
  q120_mat1col_product_baa_precomp* baa;
  q120_mat1col_product_bbb_precomp* bbb;
  q120_mat1col_product_bbc_precomp* bbc;
  uint64_t h_baa, h_bbb, h_bbc;
  Precomps() {
    baa = q120_new_vec_mat1col_product_baa_precomp();
    bbb = q120_new_vec_mat1col_product_bbb_precomp();
    bbc = q120_new_vec_mat1col_product_bbc_precomp();
    h_baa = hash_bytes(baa, sizeof *baa), h_bbb = hash_bytes(bbb, sizeof *bbb), h_bbc = hash_bytes(bbc, sizeof *bbc);
  }
  bool unchanged() const {
    return h_baa == hash_bytes(baa, sizeof *baa) && h_bbb == hash_bytes(bbb, sizeof *bbb) && h_bbc == hash_bytes(bbc, sizeof *bbc);
  }
};
static Precomps& precomps() {
  static Precomps p;
  return p;
}

static uint64_t ell_of_class(int ellc, Rng& r) {
  switch (ellc) {
    case 0: return 0;
    case 1: return 1;
    case 2: return 2;
    case 3: return 10000;
    case 4: return 3 + r.below(9997);  // 3..9999
    case 5: return 3 + r.below(62);    // 3..64
    case 6: return 9990 + r.below(10);
    // lengths where an implementation is likely to switch strategy or run out of head-room: 65..300 (dense), and 2^j-3 .. 2^j+3
    default: return r.below(2) ? 65 + r.below(236) : ((uint64_t)1 << (5 + r.below(9))) - 3 + r.below(7);
  }
}
static const char* ell_class_name(int ellc) {
  static const char* n[] = {"ell:0", "ell:1", "ell:2", "ell:10000", "ell:mid", "ell:small", "ell:near-max", "ell:65..300 and near powers of two"};
  return n[ellc];
}

// shape: 0 dense, 1 single non-zero position, 2 family words on even positions / zero (min) on odd ones
static void run_product(Ctx& c, int kern, int ellc, int xfam, int yfam, int shape, uint64_t seed) {
  if (!oracle_ok(c)) return;
  Rng r(seed);
  const uint64_t ell = ell_of_class(ellc, r);
  const bool ycl = kern >= K_BBC;                                           // y is in c-layout
  const uint64_t xw = kern >= K_X2_1COL ? 8 : 4;                            // u64 words of x per term
  const uint64_t yw32 = kern == K_X2_2COLS ? 32 : kern == K_X2_1COL ? 16 : 8;  // u32 words of y per term
  const uint64_t nres = kern == K_X2_2COLS ? 4 : kern == K_X2_1COL ? 2 : 1;  // q120b elements of the result
  Arena ar;
  Buf X = ar.alloc(ell * xw * 8, (seed & 1) ? OVER : UNDER), Y = ar.alloc(ell * yw32 * 4, (seed & 2) ? OVER : UNDER);
  Buf R1 = ar.alloc(nres * 32, OVER, 0, 1), R2 = ar.alloc(nres * 32, OVER, 0, 2);
  uint64_t* x = X.as<uint64_t>();
  uint64_t* y64 = Y.as<uint64_t>();
  uint32_t* y32 = Y.as<uint32_t>();
  const uint64_t pos = ell ? r.below(ell) : 0;
  for (uint64_t i = 0; i < ell; ++i) {
    const bool live = shape == 0 || (shape == 1 && i == pos) || (shape == 2 && !(i & 1));
    for (uint64_t w = 0; w < xw; ++w) x[i * xw + w] = !live ? 0 : kern == K_BAA ? gen_a(xfam, (int)(w & 3), r) : gen_b(xfam, (int)(w & 3), r);
    if (!ycl) {
      for (uint64_t w = 0; w < 4; ++w) y64[i * 4 + w] = (!live && shape == 1) ? 0 : kern == K_BAA ? gen_a(yfam, (int)w, r) : gen_b(yfam, (int)w, r);
    } else {
      for (uint64_t w = 0; w < yw32 / 2; ++w) {
        uint32_t c0 = 0, c1 = 0;
        if (live || shape != 1) gen_c(yfam, (int)(w & 3), r, c0, c1);
        y32[i * yw32 + 2 * w] = c0;
        y32[i * yw32 + 2 * w + 1] = c1;
      }
    }
  }
  const uint64_t hx = hash_bytes(X.p, X.len), hy = hash_bytes(Y.p, Y.len);
  // oracle
  uint64_t expect[4][4];
  switch (kern) {
    case K_BAA:
    case K_BBB: mq::dot_ww(ell, x, 4, y64, 4, expect[0]); break;
    case K_BBC: mq::dot_bc(ell, x, 4, y32, 8, expect[0]); break;
    case K_X2_1COL:
      mq::dot_bc(ell, x, 8, y32, 16, expect[0]);
      mq::dot_bc(ell, x + 4, 8, y32 + 8, 16, expect[1]);
      break;
    default:
      mq::dot_bc(ell, x, 8, y32, 32, expect[0]);           // column 0, coefficient a
      mq::dot_bc(ell, x + 4, 8, y32 + 8, 32, expect[1]);   // column 0, coefficient b
      mq::dot_bc(ell, x, 8, y32 + 16, 32, expect[2]);      // column 1, coefficient a
      mq::dot_bc(ell, x + 4, 8, y32 + 24, 32, expect[3]);  // column 1, coefficient b
  }
  Precomps& P = precomps();
  q120b *r1 = (q120b*)R1.p, *r2 = (q120b*)R2.p;
  switch (kern) {
    case K_BAA:
      q120_vec_mat1col_product_baa_ref(P.baa, ell, r1, (q120a*)x, (q120a*)y64);
      q120_vec_mat1col_product_baa_avx2(P.baa, ell, r2, (q120a*)x, (q120a*)y64);
      break;
    case K_BBB:
      q120_vec_mat1col_product_bbb_ref(P.bbb, ell, r1, (q120b*)x, (q120b*)y64);
      q120_vec_mat1col_product_bbb_avx2(P.bbb, ell, r2, (q120b*)x, (q120b*)y64);
      break;
    case K_BBC:
      q120_vec_mat1col_product_bbc_ref(P.bbc, ell, r1, (q120b*)x, (q120c*)y32);
      q120_vec_mat1col_product_bbc_avx2(P.bbc, ell, r2, (q120b*)x, (q120c*)y32);
      break;
    case K_X2_1COL:
      q120x2_vec_mat1col_product_bbc_ref(P.bbc, ell, r1, (q120b*)x, (q120c*)y32);
      q120x2_vec_mat1col_product_bbc_avx2(P.bbc, ell, r2, (q120b*)x, (q120c*)y32);
      break;
    default:
      q120x2_vec_mat2cols_product_bbc_ref(P.bbc, ell, r1, (q120b*)x, (q120c*)y32);
      q120x2_vec_mat2cols_product_bbc_avx2(P.bbc, ell, r2, (q120b*)x, (q120c*)y32);
  }
  c.notef("%s_{ref,avx2} ell=%llu x=%s y=%s shape=%d", kern_name(kern), LLU(ell), wf_name(xfam), ycl ? cf_name(yfam) : wf_name(yfam), shape);
  c.nontrivial = ell >= 2;
  c.cls(std::string("kern:") + kern_name(kern));
  c.cls("impl:ref");
  c.cls("impl:avx2");
  c.cls(ell_class_name(ellc));
  c.cls(std::string("x:") + wf_name(xfam));
  c.cls(std::string(ycl ? "c:" : "y:") + (ycl ? cf_name(yfam) : wf_name(yfam)));
  c.cls("shape:" + std::to_string(shape));
  for (int impl = 0; impl < 2; ++impl) {
    const uint64_t* res = impl ? R2.as<uint64_t>() : R1.as<uint64_t>();
    for (uint64_t e = 0; e < nres; ++e)
      for (int k = 0; k < 4; ++k) {
        const uint64_t got = res[4 * e + k] % mq::QS[k];
        if (got != expect[e][k])
          return c.failf("%s_%s ell=%llu x=%s y=%s shape=%d: result element %llu lane %d = %llu = %llu mod q%d, exact sum is %llu mod q%d "
                         "(x[0]=%llu ...)",
                         kern_name(kern), impl ? "avx2" : "ref", LLU(ell), wf_name(xfam), ycl ? cf_name(yfam) : wf_name(yfam), shape, LLU(e), k,
                         LLU(res[4 * e + k]), LLU(got), k + 1, LLU(expect[e][k]), k + 1, LLU(ell ? x[k] : 0));
      }
  }
  if (hash_bytes(X.p, X.len) != hx || hash_bytes(Y.p, Y.len) != hy) return c.failf("%s modified a source operand", kern_name(kern));
  if (!P.unchanged()) return c.failf("%s modified its precomputed object", kern_name(kern));
  if (ar.check_canaries() >= 0) return c.failf("%s wrote outside its result", kern_name(kern));
}

// ------------------------------------------------------------------------------------------ conversions
static int64_t gen_i64(int fam, Rng& r) {
  switch (fam % 6) {
    case 0: {
      const uint64_t q = mq::QS[r.below(4)];
      const int64_t e[] = {0, 1, -1, INT64_MIN, INT64_MAX, INT64_MIN + 1, INT64_MAX - 1, (int64_t)1 << 62, -((int64_t)1 << 62), (int64_t)1 << 32,
                           -((int64_t)1 << 32), ((int64_t)1 << 32) - 1, (int64_t)q, -(int64_t)q, (int64_t)q - 1, 1 - (int64_t)q, (int64_t)q + 1,
                           (int64_t)(q * q), -(int64_t)(q * q), 2, -2, (int64_t)(INT64_MAX / q * q), -(int64_t)(INT64_MAX / q * q)};
      return e[r.below(sizeof e / sizeof e[0])];
    }
    case 1: return (int64_t)r.next();
    case 2: {
      unsigned e = (unsigned)r.below(63);
      int64_t v = ((int64_t)1 << e) + (int64_t)r.below(5) - 2;
      return (r.next() & 1) ? -v : v;
    }
    case 3: {  // multiples of a prime +- delta, all magnitudes
      const uint64_t q = mq::QS[r.below(4)];
      uint64_t m = r.below(INT64_MAX / q);
      if (r.next() & 1) m = INT64_MAX / q - r.below(3);
      int64_t v = (int64_t)(m * q) + (int64_t)r.below(3) - 1;
      if (m * q >= (uint64_t)INT64_MAX - 1) v = (int64_t)(m * q) - (int64_t)r.below(2);
      return (r.next() & 1) ? -v : v;
    }
    case 4: return (int64_t)r.below(5) - 2;
    default: return (int64_t)(r.next() | (1ull << 63));
  }
}
// centred 120-bit values V, |V| <= (Q-1)/2
static i128 gen_V(int fam, Rng& r) {
  const i128 H = mq::half_bigQ();
  i128 v;
  switch (fam % 6) {
    case 0: v = H - (i128)r.below(3); break;                                     // right at the boundary
    case 1: v = (i128)(((u128)r.next() << 64 | r.next()) % ((u128)H + 1)); break;  // uniform
    case 2: v = (i128)r.below(3); break;                                         // 0,1,2
    case 3: v = (i128)(r.next() >> (r.below(2)));  break;                       // int64 scale (up to 2^64-1)
    case 4: v = (H >> r.below(8)) + (i128)r.below(5) - 2; break;                 // Q scale
    default: {                                                                   // multiples of partial products of the primes
      u128 m = 1;
      for (int k = 0; k < 4; ++k) if (r.next() & 1) m *= mq::QS[k];
      v = (i128)(m % ((u128)H + 1)) - (i128)r.below(2);
    }
  }
  if (v > H) v = H;
  if (v < 0) v = 0;
  return (r.next() & 1) ? -v : v;
}
// b-lane representing residue res (< q): res + c*q, c chosen by lfam, always fits 64 bits
static uint64_t lane_of(uint64_t res, int k, int lfam, Rng& r) {
  const uint64_t q = mq::QS[k];
  const uint64_t cm = (UINT64_MAX - res) / q;
  switch (lfam % 4) {
    case 0: return res;
    case 1: return res + q * cm;                 // largest representative
    case 2: return res + q * r.below(cm + 1);    // random representative
    default: return res + q * (cm - r.below(std::min<uint64_t>(cm, 8) + 1));
  }
}
static std::string i128_str(i128 v) {
  bool neg = v < 0;
  u128 m = neg ? (u128)(-(v + 1)) + 1 : (u128)v;
  std::string s;
  do { s.insert(s.begin(), (char)('0' + (int)(m % 10))); m /= 10; } while (m);
  return (neg ? "-" : "") + s;
}

enum { OP_B_FROM_ZNX = 0, OP_C_FROM_ZNX, OP_C_FROM_B, OP_ADD_BBB, OP_ADD_CCC, OP_B_TO_ZNX128, OP_ZNX_B_ZNX, OP_ADD_LIFT, OP_N };
static const char* op_name(int op) {
  static const char* n[] = {"q120_b_from_znx64_simple", "q120_c_from_znx64_simple", "q120_c_from_b_simple", "q120_add_bbb_simple", "q120_add_ccc_simple",
                            "q120_b_to_znx128_simple", "int64->b->int128", "b(V1)+b(V2)->int128"};
  return n[op];
}

static void run_conv(Ctx& c, int op, uint64_t nn, int vfam, int lfam, uint64_t seed) {
  if (!oracle_ok(c)) return;
  Rng r(seed);
  Arena ar;
  const i128 H = mq::half_bigQ();
  c.cls(std::string("op:") + op_name(op));
  c.notef("%s nn=%llu value-family=%d lane-family=%d", op_name(op), LLU(nn), vfam, lfam);
  bool nontriv = false, saw_min = false, saw_max = false, saw_half = false;
  auto canaries = [&]() {
    if (ar.check_canaries() >= 0) c.failf("%s nn=%llu wrote outside its result", op_name(op), LLU(nn));
  };
  switch (op) {
    case OP_B_FROM_ZNX:
    case OP_C_FROM_ZNX:
    case OP_ZNX_B_ZNX: {
      Buf X = ar.alloc(nn * 8, (seed & 1) ? OVER : UNDER);
      int64_t* x = X.as<int64_t>();
      for (uint64_t i = 0; i < nn; ++i) {
        x[i] = gen_i64(vfam, r);
        if (x[i] > 1 || x[i] < -1) nontriv = true;
        if (x[i] == INT64_MIN) saw_min = true;
        if (x[i] == INT64_MAX) saw_max = true;
      }
      if (saw_min) c.cls("value:INT64_MIN");
      if (saw_max) c.cls("value:INT64_MAX");
      const uint64_t hx = hash_bytes(X.p, X.len);
      if (op == OP_B_FROM_ZNX || op == OP_ZNX_B_ZNX) {
        Buf B = ar.alloc(nn * 32, OVER, 0, 1);
        q120_b_from_znx64_simple(nn, (q120b*)B.p, x);
        const uint64_t* b = B.as<uint64_t>();
        for (uint64_t i = 0; i < nn; ++i)
          for (int k = 0; k < 4; ++k)
            if (b[4 * i + k] % mq::QS[k] != mq::smod64(x[i], mq::QS[k]))
              return c.failf("q120_b_from_znx64_simple x=%lld: lane %d = %llu = %llu mod q%d, expected %llu", (long long)x[i], k, LLU(b[4 * i + k]),
                             LLU(b[4 * i + k] % mq::QS[k]), k + 1, LLU(mq::smod64(x[i], mq::QS[k])));
        if (op == OP_ZNX_B_ZNX) {
          Buf Z = ar.alloc(nn * 16, OVER, 0, 2);
          const uint64_t hb = hash_bytes(B.p, B.len);
          q120_b_to_znx128_simple(nn, (__int128_t*)Z.p, (q120b*)B.p);
          const i128* z = Z.as<i128>();
          for (uint64_t i = 0; i < nn; ++i)
            if (z[i] != (i128)x[i])
              return c.failf("int64 -> q120b -> int128 is not the identity: x=%lld came back as %s", (long long)x[i], i128_str(z[i]).c_str());
          if (hash_bytes(B.p, B.len) != hb) return c.failf("q120_b_to_znx128_simple modified its source");
        }
      } else {
        Buf C = ar.alloc(nn * 32, OVER, 0, 1);
        q120_c_from_znx64_simple(nn, (q120c*)C.p, x);
        const uint32_t* w = C.as<uint32_t>();
        for (uint64_t i = 0; i < nn; ++i)
          for (int k = 0; k < 4; ++k) {
            uint32_t e0, e1;
            mq::c_encode(mq::smod64(x[i], mq::QS[k]), k, e0, e1);
            if (w[8 * i + 2 * k] != e0 || w[8 * i + 2 * k + 1] != e1)
              return c.failf("q120_c_from_znx64_simple x=%lld prime %d: (%u,%u), expected (x mod q, x*2^32 mod q) = (%u,%u)", (long long)x[i], k + 1,
                             w[8 * i + 2 * k], w[8 * i + 2 * k + 1], e0, e1);
          }
      }
      if (hash_bytes(X.p, X.len) != hx) return c.failf("%s modified its source", op_name(op));
      break;
    }
    case OP_C_FROM_B: {
      Buf B = ar.alloc(nn * 32, (seed & 1) ? OVER : UNDER), C = ar.alloc(nn * 32, OVER, 0, 1);
      uint64_t* b = B.as<uint64_t>();
      for (uint64_t i = 0; i < 4 * nn; ++i) {
        b[i] = gen_b(vfam, (int)(i & 3), r);
        if (b[i] > 1 && b[i] % mq::QS[i & 3] != mq::QS[i & 3] - 1) nontriv = true;
      }
      const uint64_t hb = hash_bytes(B.p, B.len);
      q120_c_from_b_simple(nn, (q120c*)C.p, (q120b*)B.p);
      const uint32_t* w = C.as<uint32_t>();
      for (uint64_t i = 0; i < nn; ++i)
        for (int k = 0; k < 4; ++k) {
          uint32_t e0, e1;
          mq::c_encode(b[4 * i + k], k, e0, e1);
          if (w[8 * i + 2 * k] != e0 || w[8 * i + 2 * k + 1] != e1)
            return c.failf("q120_c_from_b_simple lane %d = %llu: (%u,%u), expected (x mod q, x*2^32 mod q) = (%u,%u)", k, LLU(b[4 * i + k]),
                           w[8 * i + 2 * k], w[8 * i + 2 * k + 1], e0, e1);
        }
      if (hash_bytes(B.p, B.len) != hb) return c.failf("q120_c_from_b_simple modified its source");
      c.cls(std::string("b:") + wf_name(vfam));
      break;
    }
    case OP_ADD_BBB: {
      Buf X = ar.alloc(nn * 32, OVER), Y = ar.alloc(nn * 32, UNDER), R = ar.alloc(nn * 32, OVER, 0, 1);
      uint64_t *x = X.as<uint64_t>(), *y = Y.as<uint64_t>();
      for (uint64_t i = 0; i < 4 * nn; ++i) {
        x[i] = gen_b(vfam, (int)(i & 3), r);
        y[i] = gen_b((int)r.below(WF_N), (int)(i & 3), r);
        if (x[i] > 1 || y[i] > 1) nontriv = true;
      }
      const uint64_t hx = hash_bytes(X.p, X.len), hy = hash_bytes(Y.p, Y.len);
      q120_add_bbb_simple(nn, (q120b*)R.p, (q120b*)X.p, (q120b*)Y.p);
      const uint64_t* res = R.as<uint64_t>();
      for (uint64_t i = 0; i < 4 * nn; ++i) {
        const uint64_t q = mq::QS[i & 3];
        if (res[i] % q != (x[i] % q + y[i] % q) % q)
          return c.failf("q120_add_bbb_simple lane %d: %llu + %llu -> %llu = %llu mod q, expected %llu", (int)(i & 3), LLU(x[i]), LLU(y[i]), LLU(res[i]),
                         LLU(res[i] % q), LLU((x[i] % q + y[i] % q) % q));
      }
      if (hash_bytes(X.p, X.len) != hx || hash_bytes(Y.p, Y.len) != hy) return c.failf("q120_add_bbb_simple modified a source");
      c.cls(std::string("b:") + wf_name(vfam));
      break;
    }
    case OP_ADD_CCC: {
      Buf X = ar.alloc(nn * 32, OVER), Y = ar.alloc(nn * 32, UNDER), R = ar.alloc(nn * 32, OVER, 0, 1);
      uint32_t *x = X.as<uint32_t>(), *y = Y.as<uint32_t>();
      for (uint64_t i = 0; i < 4 * nn; ++i) {
        gen_c(vfam, (int)(i & 3), r, x[2 * i], x[2 * i + 1]);
        gen_c((int)r.below(CF_N), (int)(i & 3), r, y[2 * i], y[2 * i + 1]);
        if (x[2 * i] > 1 || y[2 * i] > 1) nontriv = true;
      }
      const uint64_t hx = hash_bytes(X.p, X.len), hy = hash_bytes(Y.p, Y.len);
      q120_add_ccc_simple(nn, (q120c*)R.p, (q120c*)X.p, (q120c*)Y.p);
      const uint32_t* res = R.as<uint32_t>();
      for (uint64_t i = 0; i < 8 * nn; ++i) {
        const uint64_t q = mq::QS[(i >> 1) & 3];
        if (res[i] % q != ((uint64_t)x[i] % q + (uint64_t)y[i] % q) % q)
          return c.failf("q120_add_ccc_simple word %d: %u + %u -> %u = %llu mod q, expected %llu", (int)(i & 7), x[i], y[i], res[i], LLU(res[i] % q),
                         LLU(((uint64_t)x[i] % q + (uint64_t)y[i] % q) % q));
      }
      if (hash_bytes(X.p, X.len) != hx || hash_bytes(Y.p, Y.len) != hy) return c.failf("q120_add_ccc_simple modified a source");
      c.cls(std::string("c:") + cf_name(vfam));
      break;
    }
    case OP_B_TO_ZNX128: {
      Buf B = ar.alloc(nn * 32, (seed & 1) ? OVER : UNDER), Z = ar.alloc(nn * 16, OVER, 0, 1);
      uint64_t* b = B.as<uint64_t>();
      std::vector<i128> V(nn);
      const bool constructed = vfam < 6;  // vfam 6,7: arbitrary lanes, expected value by CRT
      for (uint64_t i = 0; i < nn; ++i) {
        if (constructed) {
          V[i] = gen_V(vfam, r);
          uint64_t res[4];
          mq::residues(V[i], res);
          for (int k = 0; k < 4; ++k) b[4 * i + k] = lane_of(res[k], k, lfam, r);
          if (V[i] == H || V[i] == -H) saw_half = true;
        } else {
          for (int k = 0; k < 4; ++k) b[4 * i + k] = gen_b(vfam == 6 ? WF_ANY : WF_MIXED, k, r);
          V[i] = mq::crt_centred(b + 4 * i);
        }
        if (V[i] > 1 || V[i] < -1) nontriv = true;
      }
      const uint64_t hb = hash_bytes(B.p, B.len);
      q120_b_to_znx128_simple(nn, (__int128_t*)Z.p, (q120b*)B.p);
      const i128* z = Z.as<i128>();
      for (uint64_t i = 0; i < nn; ++i) {
        if (z[i] > H || z[i] < -H)
          return c.failf("q120_b_to_znx128_simple lanes (%llu,%llu,%llu,%llu): result %s is outside the centred range +-(Q-1)/2", LLU(b[4 * i]),
                         LLU(b[4 * i + 1]), LLU(b[4 * i + 2]), LLU(b[4 * i + 3]), i128_str(z[i]).c_str());
        if (z[i] != V[i])
          return c.failf("q120_b_to_znx128_simple lanes (%llu,%llu,%llu,%llu): result %s, centred representative is %s", LLU(b[4 * i]), LLU(b[4 * i + 1]),
                         LLU(b[4 * i + 2]), LLU(b[4 * i + 3]), i128_str(z[i]).c_str(), i128_str(V[i]).c_str());
      }
      if (hash_bytes(B.p, B.len) != hb) return c.failf("q120_b_to_znx128_simple modified its source");
      c.cls(constructed ? "lift:constructed" : "lift:arbitrary-lanes");
      if (constructed) c.cls("lane-rep:" + std::to_string(lfam % 4));
      break;
    }
    default: {  // OP_ADD_LIFT: V1 + V2 with |V1+V2| <= H
      Buf X = ar.alloc(nn * 32, OVER), Y = ar.alloc(nn * 32, UNDER), R = ar.alloc(nn * 32, OVER, 0, 1), Z = ar.alloc(nn * 16, OVER, 0, 2);
      uint64_t *x = X.as<uint64_t>(), *y = Y.as<uint64_t>();
      std::vector<i128> S(nn);
      for (uint64_t i = 0; i < nn; ++i) {
        i128 v1 = gen_V(vfam, r), v2 = gen_V((int)r.below(6), r);
        if (v1 + v2 > H || v1 + v2 < -H) v2 = -v2;  // opposite signs: |v1+v2| <= max(|v1|,|v2|) <= H
        if ((v1 > 0) == (v2 > 0) && (v1 + v2 > H || v1 + v2 < -H)) v2 = 0;
        S[i] = v1 + v2;
        uint64_t r1[4], r2[4];
        mq::residues(v1, r1);
        mq::residues(v2, r2);
        for (int k = 0; k < 4; ++k) {
          x[4 * i + k] = lane_of(r1[k], k, lfam, r);
          y[4 * i + k] = lane_of(r2[k], k, (int)r.below(4), r);
        }
        if (S[i] > 1 || S[i] < -1) nontriv = true;
        if (S[i] == H || S[i] == -H) saw_half = true;
      }
      q120_add_bbb_simple(nn, (q120b*)R.p, (q120b*)X.p, (q120b*)Y.p);
      q120_b_to_znx128_simple(nn, (__int128_t*)Z.p, (q120b*)R.p);
      const i128* z = Z.as<i128>();
      for (uint64_t i = 0; i < nn; ++i)
        if (z[i] != S[i])
          return c.failf("lift(add_bbb(b(V1), b(V2))) = %s, expected V1+V2 = %s (lanes x=(%llu,..) y=(%llu,..))", i128_str(z[i]).c_str(),
                         i128_str(S[i]).c_str(), LLU(x[4 * i]), LLU(y[4 * i]));
    }
  }
  canaries();
  if (saw_half) c.cls("value:+-(Q-1)/2");
  c.nontrivial = nn >= 1 && nontriv;
  if (nn == 0) c.cls("nn=0");
}

// ------------------------------------------------------------------------------------------ block extract / save
static void run_blocks(Ctx& c, uint64_t nnh, uint64_t nrows, uint64_t seed) {
  if (nrows * nnh > 16384) nrows = std::max<uint64_t>(1, 16384 / nnh);  // keep the sweep over all blocks x rows affordable
  if (nrows >= 8) c.cls("blocks:nrows>=8");
  if (nrows == 0) c.cls("blocks:nrows=0");
  const uint64_t nn = 2 * nnh, nblk = nnh;
  Rng r(seed);
  Arena ar;
  c.notef("q120x2 block extract/save nn=%llu nrows=%llu, all %llu block indices", LLU(nn), LLU(nrows), LLU(nblk));
  c.nontrivial = nn >= 4;
  c.cls("blocks");
  if (nrows > 1) c.cls("blocks:nrows>1");
  Buf SRC = ar.alloc(nrows * nn * 32, OVER), DST = ar.alloc(64, OVER, 0, 1), DSTN = ar.alloc(nrows * 64, OVER, 0, 2);
  Buf BACK = ar.alloc(nn * 32, OVER, 0, 3, seed), DSTC = ar.alloc(64, UNDER, 0, 1);
  uint64_t* src = SRC.as<uint64_t>();
  for (uint64_t i = 0; i < nrows * nn * 4; ++i) src[i] = r.next();
  const uint64_t hs = hash_bytes(SRC.p, SRC.len);
  uint64_t *dst = DST.as<uint64_t>(), *dstn = DSTN.as<uint64_t>(), *back = BACK.as<uint64_t>(), *dstc = DSTC.as<uint64_t>();
  std::vector<uint64_t> model(back, back + nn * 4);  // the prefilled destination vector
  // visit the blocks in a generated order so that save() cannot rely on sequential calls
  std::vector<uint64_t> order(nblk);
  for (uint64_t i = 0; i < nblk; ++i) order[i] = i;
  for (uint64_t i = nblk; i > 1; --i) std::swap(order[i - 1], order[r.below(i)]);
  for (uint64_t t = 0; t < nblk; ++t) {
    const uint64_t blk = order[t];
    Arena::fill(DST.p, 64, 1, 0);
    q120x2_extract_1blk_from_q120b_ref(nn, blk, (q120x2b*)dst, (q120b*)src);
    for (int i = 0; i < 8; ++i)
      if (dst[i] != src[8 * blk + i])
        return c.failf("q120x2_extract_1blk_from_q120b_ref nn=%llu blk=%llu: word %d = %llu, direct indexing gives %llu", LLU(nn), LLU(blk), i, LLU(dst[i]),
                       LLU(src[8 * blk + i]));
    q120x2_extract_1blk_from_q120c_ref(nn, blk, (q120x2c*)dstc, (q120c*)src);
    if (memcmp(dstc, src + 8 * blk, 64) != 0) return c.failf("q120x2_extract_1blk_from_q120c_ref nn=%llu blk=%llu differs from direct indexing", LLU(nn), LLU(blk));
    q120x2_extract_1blk_from_contiguous_q120b_ref(nn, nrows, blk, (q120x2b*)dstn, (q120b*)src);
    for (uint64_t row = 0; row < nrows; ++row)
      for (int i = 0; i < 8; ++i)
        if (dstn[8 * row + i] != src[row * 4 * nn + 8 * blk + i])
          return c.failf("q120x2_extract_1blk_from_contiguous_q120b_ref nn=%llu nrows=%llu blk=%llu: row %llu word %d = %llu, direct indexing gives %llu",
                         LLU(nn), LLU(nrows), LLU(blk), LLU(row), i, LLU(dstn[8 * row + i]), LLU(src[row * 4 * nn + 8 * blk + i]));
    // save the block of row 0 into the destination vector: exactly the 8 words of that block change
    q120x2b_save_1blk_to_q120b_ref(nn, blk, (q120b*)back, (q120x2b*)dst);
    for (int i = 0; i < 8; ++i) model[8 * blk + i] = dst[i];
    if (memcmp(back, model.data(), nn * 32) != 0)
      return c.failf("q120x2b_save_1blk_to_q120b_ref nn=%llu blk=%llu: destination differs from 'only block blk replaced'", LLU(nn), LLU(blk));
    // extract what was just saved
    Arena::fill(DSTC.p, 64, 2, 0);
    q120x2_extract_1blk_from_q120b_ref(nn, blk, (q120x2b*)dstc, (q120b*)back);
    if (memcmp(dstc, dst, 64) != 0) return c.failf("extract(save(x)) != x at nn=%llu blk=%llu", LLU(nn), LLU(blk));
  }
  if (memcmp(back, src, nn * 32) != 0) return c.failf("saving every extracted block does not reproduce the vector (nn=%llu)", LLU(nn));
  if (hash_bytes(SRC.p, SRC.len) != hs) return c.failf("block extraction modified its source");
  if (ar.check_canaries() >= 0) return c.failf("block extract/save wrote outside its destination (nn=%llu)", LLU(nn));
}

std::vector<Sub> vh_subs() {
  std::vector<Sub> subs;
  {
    Sub s;
    s.name = "product";
    s.fields = {{"kern", 0, K_N - 1}, {"ellc", 0, 7}, {"xfam", 0, WF_N - 1}, {"yfam", 0, 5}, {"shape", 0, 2}, {"seed", 0, INT64_MAX - 1}};
    s.run = [](const Vals& v, Ctx& c) { run_product(c, (int)v[0], (int)v[1], (int)v[2], (int)v[3], (int)v[4], (uint64_t)v[5]); };
    subs.push_back(s);
  }
  {
    Sub s;
    s.name = "conv";
    s.fields = {{"op", 0, OP_N - 1}, {"nn", 0, 4096}, {"vfam", 0, 7}, {"lfam", 0, 3}, {"seed", 0, INT64_MAX - 1}};
    s.run = [](const Vals& v, Ctx& c) { run_conv(c, (int)v[0], (uint64_t)v[1], (int)v[2], (int)v[3], (uint64_t)v[4]); };
    subs.push_back(s);
  }
  {
    Sub s;
    s.name = "blocks";
    s.fields = {{"nnh", 1, 2048}, {"nrows", 1, 40}, {"seed", 0, INT64_MAX - 1}};
    s.run = [](const Vals& v, Ctx& c) { run_blocks(c, (uint64_t)v[0], (uint64_t)v[1], (uint64_t)v[2]); };
    subs.push_back(s);
  }
  return subs;
}
