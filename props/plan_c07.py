from planlib import geo, desc_fuzz

# (name, lgmin, lgmax, lgthr, lglarge, needs avx512f, base count at small sizes) -- same order as the table in props/c07.cpp
PAIRS = [
    ("znx_add_i64", 0, 16, 0, 10, False, 400),
    ("znx_sub_i64", 0, 16, 0, 10, False, 400),
    ("znx_negate_i64", 0, 16, 0, 10, False, 400),
    ("rnx_divide_by_m", 0, 16, 0, 10, False, 400),
    ("vec_znx_add", 1, 14, 1, 10, False, 400),
    ("vec_znx_sub", 1, 14, 1, 10, False, 400),
    ("vec_znx_negate", 1, 14, 1, 10, False, 400),
    ("reim_from_znx64", 3, 16, 3, 10, False, 300),
    ("reim_to_znx64", 3, 16, 3, 10, False, 300),
    ("reim_to_tnx", 3, 16, 3, 10, False, 300),
    ("cplx_from_znx32", 3, 16, 3, 10, False, 300),
    ("cplx_from_tnx32", 3, 16, 3, 10, False, 300),
    ("cplx_to_tnx32", 3, 16, 3, 10, False, 300),
    ("reim_fft", 0, 16, 2, 12, False, 400),
    ("reim_ifft", 0, 16, 2, 12, False, 400),
    ("cplx_fft", 3, 16, 3, 12, False, 400),
    ("cplx_ifft", 3, 16, 3, 12, False, 400),
    ("reim_fft4", 2, 2, 2, 2, False, 3000),
    ("reim_fft8", 3, 3, 3, 3, False, 3000),
    ("reim_fft16", 4, 4, 4, 4, False, 3000),
    ("reim_ifft4", 2, 2, 2, 2, False, 3000),
    ("reim_ifft8", 3, 3, 3, 3, False, 3000),
    ("reim_ifft16", 4, 4, 4, 4, False, 3000),
    ("cplx_fft16", 4, 4, 4, 4, False, 3000),
    ("cplx_ifft16", 4, 4, 4, 4, False, 3000),
    ("reim_fftvec_mul", 2, 16, 2, 10, False, 300),
    ("reim_fftvec_addmul", 2, 16, 2, 10, False, 300),
    ("reim4_fftvec_mul", 2, 16, 2, 10, False, 300),
    ("reim4_fftvec_addmul", 2, 16, 2, 10, False, 300),
    ("cplx_fftvec_mul", 3, 16, 3, 10, False, 300),
    ("cplx_fftvec_addmul_fma", 3, 16, 3, 10, False, 300),
    ("cplx_fftvec_addmul_sse", 1, 16, 1, 10, False, 300),
    ("cplx_fftvec_addmul_avx512", 3, 16, 3, 10, True, 300),
    ("cplx_fftvec_twiddle_fma", 3, 14, 3, 10, False, 300),
    ("cplx_fftvec_twiddle_avx512", 4, 14, 4, 10, True, 300),
    ("reim4_extract_1blk_from_reim", 2, 16, 2, 10, False, 300),
    ("reim4_save_1blk_to_reim", 2, 16, 2, 10, False, 300),
    ("reim4_extract_1blk_from_contiguous_reim", 2, 14, 2, 10, False, 300),
    ("reim4_extract_1blk_from_contiguous_reim_sl", 2, 14, 2, 10, False, 300),
    ("reim4_vec_mat1col_product", 0, 11, 0, 6, False, 500),
    ("reim4_vec_mat2cols_product", 0, 11, 0, 6, False, 500),
    ("reim4_from_cplx", 2, 16, 2, 10, False, 300),
    ("reim4_to_cplx", 2, 16, 2, 10, False, 300),
    ("q120_vec_mat1col_product_baa", 0, 13, 0, 10, False, 400),
    ("q120_vec_mat1col_product_bbb", 0, 13, 0, 10, False, 400),
    ("q120_vec_mat1col_product_bbc", 0, 13, 0, 10, False, 400),
    ("q120x2_vec_mat1col_product_bbc", 0, 13, 0, 10, False, 400),
    ("q120x2_vec_mat2cols_product_bbc", 0, 13, 0, 10, False, 400),
    ("fft64_vmp_prepare_contiguous", 1, 12, 3, 9, False, 200),
    ("fft64_vmp_apply_dft_to_dft", 1, 12, 3, 9, False, 200),
    ("fft64_vmp_apply_dft", 1, 12, 3, 9, False, 200),
]
NOPS = 10
SCALE = 8  # calibrated once: quick tier ~30-40 s wall on 16 cores


def _has_avx512f():
    try:
        return "avx512f" in open("/proc/cpuinfo").read()
    except OSError:
        return False


AVX512 = _has_avx512f()


def _jobs(tier):
    mult = 1 if tier == "quick" else 20
    jobs = []
    for pid, (name, lgmin, lgmax, lgthr, lglarge, need512, base) in enumerate(PAIRS):
        if need512 and not AVX512:
            jobs.append(dict(sub="pairs", count=4, fix=dict(pair=pid, lg=lgmin)))  # counted as skipped:no-avx512f
            continue
        for lg in range(lgmin, lgmax + 1):
            jobs.append(dict(sub="pairs", count=geo(lg, base * SCALE, 6, 12 * SCALE) * mult, fix=dict(pair=pid, lg=lg)))
    for k in range(1, 15):
        for op in range(NOPS):
            product = op <= 2 or op == 9
            if product and k > 12:
                continue
            base = 60 if product else 120
            jobs.append(dict(sub="api_masks", count=geo(k, base * SCALE, 6, 6 * SCALE) * mult, fix=dict(k=k, op=op)))
    for op in range(12):
        jobs.append(dict(sub="table_masks", count=(6000 if op < 6 else 1500) * mult, fix=dict(op=op, logm=(0, 6))))
        jobs.append(dict(sub="table_masks", count=(600 if op < 6 else 200) * mult, fix=dict(op=op, logm=(7, 12))))
    return jobs


_req = []
for (name, lgmin, lgmax, lgthr, lglarge, need512, base) in PAIRS:
    if need512 and not AVX512:
        continue
    _req += ["pair:%s@threshold" % name, "pair:%s@large" % name]
_req += ["mask:0", "mask:1", "mask:2", "mask:3", "misaligned", "module:FFT64", "module:NTT120", "reim_to_znx64:ties"]
_req += ["tablemask:" + n for n in ("reim_to_znx64", "reim_from_znx64", "reim_to_tnx", "cplx_from_znx32", "cplx_from_tnx32", "cplx_to_tnx32",
                                    "reim_to_znx64_simple(bound<=50 then bound>50)", "znx_small_single_product(monomials, |result| in [2^50,2^52))",
                                    "svp+idft(monomials, |result| in [2^50,2^52))", "reim_fftvec_mul/addmul in place",
                                    "reim4_fftvec_mul/addmul in place", "cplx_fftvec_mul/addmul in place")] + ["tablemask:m>=8"]
_req += ["api:" + n for n in (
    "znx_small_single_product", "svp_prepare+svp_apply_dft+vec_znx_idft", "vmp_prepare_contiguous+vmp_apply_dft+vec_znx_idft_tmp_a",
    "vec_znx_add", "vec_znx_sub", "vec_znx_negate", "vec_znx_rotate", "vec_znx_automorphism", "vec_znx_normalize_base2k",
    "cplx_from_znx32+cplx_fft+cplx_fftvec_mul+cplx_ifft+cplx_to_tnx32")]
if not AVX512:
    _req.append("skipped:no-avx512f")

PLAN_ID = "C07"
PLAN = dict(
    src="props/c07.cpp", flavour="rel",
    rule="sub pairs: cases = (kernel pair from an enumerated table of %d ref/accelerated pairs, log2 size from the pair's dispatch "
         "threshold upward, shape, misalignment 0/8/16/24 bytes of every pointer, value family, seed); each kernel is called directly on "
         "the same input; oracle: integer/data-movement kernels bit-identical (+ model), lazy q120 equal modulo each prime and to the u128 "
         "sum, floating kernels each within (2*terms+4)*2^-53*S of the long-double exact value, FFT drivers/leaves "
         "||ref-acc||_2 <= 2*8*log2(2m)*2^-53*||ref||_2, vmp apply ref-vs-avx within twice the per-variant bound. "
         "sub api_masks: the same MODULE / precomp objects created under CPU masks {0,1,2,3}; module-level calls with operands in the exact "
         "regime (documented bound E < 1/2); integer results identical across the four masks. Non-trivial: the two variants are different "
         "functions, the size is at or above the first size where accelerated code runs, input not all-zero (api: result not all-zero, "
         "N >= 4). Distinct = distinct descriptor hash." % len(PAIRS),
    assumptions=["kernels are only called at sizes their own dispatcher selects (never-dispatched sse/avx512 kernels: multiples of "
                 "their unrolled block: sse m>=2, avx512 addmul m>=8, avx512 twiddle m>=16); reim4 kernels m>=4",
                 "operands: |int64| <= 2^62-1 for znx add/sub/negate; |x| < 2^50 for reim_from_znx64; reim_to_znx64 outputs inside the "
                 "2^50 bound, the wide (bnd63) kernel is not compared on exact .5 ties (rounds away from zero); reim_to_tnx "
                 "|x/divisor| <= 2^log2overhead, log2overhead <= 48; cplx_to_tnx32 log2overhead <= 18; q120 ell < 10000",
                 "floating inputs finite, normal range (|x| in [2^-260, 2^260] or zero)",
                 "omega tables come from the library's own fill routines and stay 64-byte aligned (the kernels load them with aligned moves)",
                 "AVX-512 pairs only run when the host reports avx512f (otherwise counted as skipped:no-avx512f)",
                 "cplx_fftvec_bitwiddle_{fma,avx512} are not in the table: no reference kernel with a defined semantic exists for them"],
    quick=_jobs("quick"), thorough=_jobs("thorough"),
    fuzz=desc_fuzz("C07", fix=dict(lg=(0, 10), logm=(0, 10), k=(1, 9))),
    required_classes=dict(all=_req),
)
