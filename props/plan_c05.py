from planlib import desc_fuzz
def _jobs(tier):
    mult = 1 if tier == "quick" else 80
    jobs = []
    for k in range(1, 63):
        jobs.append(dict(sub="vec", count=4000 * mult, fix=dict(k=k, kN=(1, 6))))
        jobs.append(dict(sub="kernel", count=2000 * mult, fix=dict(k=k, logn=(0, 6))))
    for k in range(1, 63, 4):
        jobs.append(dict(sub="vec", count=1500 * mult, fix=dict(k=(k, min(62, k + 3)), kN=(1, 6)), flavour="asan"))
    for kN in range(7, 13):
        jobs.append(dict(sub="vec", count=300 * mult, fix=dict(kN=kN)))
    # large rings (N = 8192, 16384: any size-dependent strategy inside the limb primitive), in place and out of place
    for kN in (13, 14):
        jobs.append(dict(sub="vec", count=80 * mult, fix=dict(kN=kN)))
        jobs.append(dict(sub="vec", count=60 * mult, fix=dict(kN=kN, inplace=1, res_size=(2, 7), a_size=(2, 7))))
    jobs.append(dict(sub="kernel", count=1500 * mult, fix=dict(logn=(7, 14))))
    for k in (1, 2, 3):
        w = 1 << (k + 2)
        for nl in range(0, 4):
            if tier == "quick" and k == 3 and nl == 3:
                continue  # 65^3 tuples: thorough only
            chunks = [(-w, w)]
            if nl == 3:  # split the long pole over workers
                step = max(1, (2 * w + 1) // 8)
                chunks = [(lo, min(w, lo + step - 1)) for lo in range(-w, w + 1, step)]
            for ch in chunks:
                jobs.append(dict(sub="exhaustive", enum=True, fix=dict(k=k, nl=nl, v0=ch, v1=(-w, w) if nl >= 2 else (-w, -w),
                                                                       v2=(-w, w) if nl >= 3 else (-w, -w))))
    return jobs


PLAN_ID = "C05"
PLAN = dict(
    src="props/c05.cpp", flavour="rel", extra_link=["-lgmp"],
    rule="cases = (k in 1..62 (every value, every run), N, variant in {vec, big, big_range, znx_normalize kernel with the six legal "
         "(out,carry_out,carry_in) presence combinations}, res_size/a_size 0..7 independently, strides N..N+3, in place / out of place, "
         "range (begin,xend,step), limb families: maximal +/- carry chains, +-2^62, alternating, only-lowest-limb, boundary digits, random); "
         "exhaustive stratum: k in {1,2,3}, <=3 limbs, every limb value in [-2^(k+2),2^(k+2)]. Oracle = exact int128 carry chain, "
         "cross-checked by a multiword (GMP) validity predicate. Non-trivial: a_size>=2 and a carry crosses a limb boundary "
         "(kernel: a carry argument is present).",
    assumptions=["|a_i| <= 2^62 (documented operand range); |carry_in| <= 2^(63-k)", "oracle: __int128 carry chain + GMP congruence"],
    quick=_jobs("quick"), thorough=_jobs("thorough"),
    fuzz=[desc_fuzz("C05", fix=dict(kN=(1, 8), logn=(0, 8)), skip_subs=['exhaustive']),
          dict(target="fuzz/normalize.cpp", deps=["props/c05.cpp"], corpus="fuzz/corpus/normalize", extra_link=["-lgmp"], max_len=1024, flags=["-use_value_profile=1"],
               quick=dict(mode="replay"), thorough=dict(mode="campaign", workers=16, runs=400000))],
    required_classes=dict(all=["a_size=0", "res_size=0", "res<a", "res>a", "inplace", "begin==xend", "step>1", "module:NTT120",
                               "variant:vec_znx_normalize_base2k", "variant:vec_znx_big_normalize_base2k",
                               "variant:vec_znx_big_range_normalize_base2k", "variant:znx_normalize", "N>=8192 inplace"]
                          + ["k:%d" % k for k in range(1, 63)] + ["combo:%d" % i for i in range(6)]),
)
