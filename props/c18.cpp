// C18 — read-only operands are never modified.
// Oracle: byte snapshots (hash + memcmp) of every source operand including stride padding, of prepared objects,
// q120 operands and of every heap block that belongs to the MODULE / PRECOMP (allocation tracker), before vs after.
#include <cmath>
#include <map>

#include "alloc_track.hpp"
#include "vecops.hpp"

using namespace vh;
const char* vh_property_id = "C18";

struct TrackedModule {
  MODULE* mod;
  std::vector<at::Block> blocks;
};
static TrackedModule& tracked_module(uint64_t n, MODULE_TYPE t, unsigned mask) {
  static std::map<std::tuple<uint64_t, int, unsigned>, TrackedModule> cache;
  auto key = std::make_tuple(n, (int)t, mask);
  auto it = cache.find(key);
  if (it == cache.end()) {
    spq::MaskGuard g(mask);
    at::begin();
    MODULE* m = new_module_info(n, t);
    TrackedModule tm{m, at::end()};
    it = cache.emplace(key, tm).first;
  }
  spq::maybe_bystander();  // another object of a different dimension / type comes to life (or dies) next to the watched module
  return it->second;
}

struct Snap {
  const char* what;
  const void* p;
  size_t n;
  std::vector<uint8_t> copy;
};
struct Snaps {
  std::vector<Snap> v;
  void add(const char* what, const void* p, size_t n) {
    Snap s{what, p, n, {}};
    s.copy.assign((const uint8_t*)p, (const uint8_t*)p + n);
    v.push_back(std::move(s));
  }
  const char* changed(size_t* off) const {
    for (auto& s : v)
      if (s.n && memcmp(s.copy.data(), s.p, s.n) != 0) {
        for (size_t i = 0; i < s.n; ++i)
          if (s.copy[i] != ((const uint8_t*)s.p)[i]) { *off = i; break; }
        return s.what;
      }
    return nullptr;
  }
};

static void fill_small(int64_t* p, size_t cnt, unsigned bits, Rng& r) {
  for (size_t i = 0; i < cnt; ++i) p[i] = r.sbits(bits);
}

std::vector<Sub> vh_subs() {
  std::vector<Sub> subs;
  {
    Sub s;
    s.name = "vec";  // element-wise API: sources stay intact, also when another argument aliases the output
    s.fields = {{"k", 1, 14}, {"op", 1, vecops::NOPS - 1}, {"res_size", 0, 5}, {"a_size", 0, 5}, {"b_size", 0, 5}, {"pad", 0, 3}, {"alias", 0, 3},
                {"mtype", 0, 1}, {"cfg", 0, 1}, {"pmode", 0, 3}, {"pj", 0, 17}, {"pu", 0, INT64_MAX - 1}, {"neg", 0, 1}, {"bits", 1, 61},
                {"seed", 0, INT64_MAX - 1}};
    s.run = [](const Vals& v, Ctx& ctx) {
      vecops::Case c;
      c.k = v[0]; c.op = (int)v[1]; c.rs = v[2]; c.as = v[3]; c.bs = v[4];
      c.rpad = v[5]; c.apad = (v[5] + 1) % 4; c.bpad = (v[5] + 2) % 4;
      const auto& o = vecops::OPS[c.op];
      c.alias = v[6] == 3 ? 4 : (int)v[6];  // 4: a and b are two views of one source buffer
      if (o.nin == 1 && c.alias == 2) c.alias = 0;
      if (o.res_big) c.rpad = 0;
      c.mtype = (int)v[7];
      c.mask = v[8] ? spq::GENERIC : spq::FULL;
      c.p = ring::make_p((int)v[9], c.k, v[10], (uint64_t)v[11], (int)v[12], o.arith == 'a');
      c.bits = (int)v[13]; c.seed = (uint64_t)v[14];
      vecops::run(ctx, c);
      int live_sources = o.nin - ((c.alias & 1) ? 1 : 0) - ((c.alias & 2) ? 1 : 0);
      ctx.nontrivial = live_sources >= 1 && (o.nin >= 2 || c.as >= 1);
      if (c.alias && live_sources >= 1) ctx.cls("aliased_output_other_source_checked");
    };
    subs.push_back(s);
  }
  {
    Sub s;
    s.name = "module";  // module-level entry points with prepared / DFT / table operands
    s.fields = {{"k", 1, 14}, {"call", 0, 10}, {"mtype", 0, 1}, {"cfg", 0, 1}, {"s1", 0, 5}, {"s2", 0, 5}, {"nrows", 1, 5}, {"ncols", 1, 5},
                {"pad", 0, 3}, {"kk", 1, 62}, {"bits", 1, 20}, {"seed", 0, INT64_MAX - 1}, {"packed", 0, 3}};
    s.run = [](const Vals& v, Ctx& ctx) {
      const uint64_t k = v[0], n = 1ull << k;
      const int call = (int)v[1];
      // NTT120 only has dft/idft (+ generic coefficient ops)
      MODULE_TYPE mt = (v[2] && (call == 1 || call == 2 || call == 3 || call == 0)) ? NTT120 : FFT64;
      unsigned mask = (v[3] && mt == FFT64) ? spq::GENERIC : spq::FULL;
      TrackedModule& tm = tracked_module(n, mt, mask);
      MODULE* mod = tm.mod;
      uint64_t s1 = v[4], s2 = v[5], nrows = v[6], ncols = v[7];
      // large rings: small shapes, except for the transforms themselves (dft / idft / idft_tmp_a: up to 5 limbs of 16384 coefficients)
      if (k >= 12 && !(call >= 1 && call <= 3)) { s1 %= 3; s2 %= 3; nrows = 1 + nrows % 2; ncols = 1 + ncols % 2; }
      const uint64_t sl = n + v[8];
      const unsigned bits = (unsigned)std::min<int64_t>(v[10], (50 - (int64_t)k) / 2);
      Rng r((uint64_t)v[11]);
      Arena ar;
      // packed: all operands of the call carved back to back out of one region (upwards / downwards), as a caller that lays out
      // bytes_of_*() objects in one arena would; otherwise every buffer sits alone between guard pages
      if (v[12] >= 2) ar.set_packed(v[12] == 2 ? +1 : -1);
      Snaps sn;
      const uint64_t hmod = at::hash_blocks(tm.blocks);
      static const char* names[] = {"vec_znx_normalize_base2k", "vec_znx_dft", "vec_znx_idft", "vec_znx_idft_tmp_a(source of dft)", "svp_prepare", "svp_apply_dft",
                                    "vmp_prepare_contiguous", "vmp_apply_dft", "vmp_apply_dft_to_dft", "znx_small_single_product", "vec_znx_big_normalize/range"};
      auto ext = [&](uint64_t limbs) { return limbs ? ((limbs - 1) * sl + n) * 8 : (uint64_t)0; };
      const size_t dl = spq::dft_limb_bytes(mt, n), bl = spq::big_limb_bytes(mt, n);
      int sources = 1;
      switch (call) {
        case 0: {  // normalize: source a (with padding)
          Buf A = ar.alloc(ext(s1), UNDER, 0, 3, v[11]), R = ar.alloc(ext(s2), OVER, 0, 1), T = ar.alloc(vec_znx_normalize_base2k_tmp_bytes(mod), OVER, 0, 2);
          for (uint64_t i = 0; i < s1; ++i) fill_small(A.as<int64_t>() + i * sl, n, 62, r);
          sn.add("source a", A.p, A.len);
          vec_znx_normalize_base2k(mod, (uint64_t)v[9], R.as<int64_t>(), s2, sl, A.as<int64_t>(), s1, sl, T.p);
          break;
        }
        case 1: {  // dft: source a
          Buf A = ar.alloc(ext(s1), UNDER, 0, 3, v[11]), D = ar.alloc(s2 * dl, OVER, 0, 1);
          for (uint64_t i = 0; i < s1; ++i) fill_small(A.as<int64_t>() + i * sl, n, mt == FFT64 ? 50 : 62, r);
          sn.add("source a", A.p, A.len);
          vec_znx_dft(mod, (VEC_ZNX_DFT*)D.p, s2, A.as<int64_t>(), s1, sl);
          break;
        }
        case 2:
        case 3: {  // idft: source a_dft must be intact (the _tmp_a variant is the documented exception: there we only check the module)
          Buf A = ar.alloc(s1 * n * 8, UNDER), D = ar.alloc(s1 * dl, OVER), G = ar.alloc(s2 * bl, OVER, 0, 1), T = ar.alloc(vec_znx_idft_tmp_bytes(mod), OVER, 0, 2);
          fill_small(A.as<int64_t>(), s1 * n, mt == FFT64 ? bits : 62, r);
          vec_znx_dft(mod, (VEC_ZNX_DFT*)D.p, s1, A.as<int64_t>(), s1, n);
          if (call == 2) {
            sn.add("source a_dft", D.p, D.len);
            vec_znx_idft(mod, (VEC_ZNX_BIG*)G.p, s2, (VEC_ZNX_DFT*)D.p, s1, T.p);
          } else {
            sources = 0;
            vec_znx_idft_tmp_a(mod, (VEC_ZNX_BIG*)G.p, s2, (VEC_ZNX_DFT*)D.p, s1);
          }
          break;
        }
        case 4: {  // svp_prepare: source pol
          Buf P = ar.alloc(n * 8, UNDER), PP = ar.alloc(bytes_of_svp_ppol(mod), OVER, 0, 1);
          fill_small(P.as<int64_t>(), n, 50, r);
          sn.add("source pol", P.p, P.len);
          svp_prepare(mod, (SVP_PPOL*)PP.p, P.as<int64_t>());
          break;
        }
        case 5: {  // svp_apply_dft: sources ppol, a
          Buf P = ar.alloc(n * 8, UNDER), PP = ar.alloc(bytes_of_svp_ppol(mod), OVER), A = ar.alloc(ext(s1), UNDER, 0, 3, v[11]),
              D = ar.alloc(bytes_of_vec_znx_dft(mod, s2), OVER, 0, 1);
          fill_small(P.as<int64_t>(), n, bits, r);
          for (uint64_t i = 0; i < s1; ++i) fill_small(A.as<int64_t>() + i * sl, n, bits, r);
          svp_prepare(mod, (SVP_PPOL*)PP.p, P.as<int64_t>());
          sn.add("prepared ppol", PP.p, PP.len);
          sn.add("source a", A.p, A.len);
          sources = 2;
          svp_apply_dft(mod, (VEC_ZNX_DFT*)D.p, s2, (SVP_PPOL*)PP.p, A.as<int64_t>(), s1, sl);
          break;
        }
        case 6:
        case 7:
        case 8: {
          Buf M = ar.alloc(nrows * ncols * n * 8, UNDER), PM = ar.alloc(bytes_of_vmp_pmat(mod, nrows, ncols), OVER, 0, 1);
          fill_small(M.as<int64_t>(), nrows * ncols * n, bits, r);
          Buf TP = ar.alloc(vmp_prepare_contiguous_tmp_bytes(mod, nrows, ncols), OVER, 0, 2);
          if (call == 6) sn.add("source matrix", M.p, M.len);
          vmp_prepare_contiguous(mod, (VMP_PMAT*)PM.p, M.as<int64_t>(), nrows, ncols, TP.p);
          if (call == 6) break;
          Buf A = ar.alloc(ext(s1), UNDER, 0, 3, v[11]), RES = ar.alloc(bytes_of_vec_znx_dft(mod, s2), OVER, 0, 1);
          for (uint64_t i = 0; i < s1; ++i) fill_small(A.as<int64_t>() + i * sl, n, bits, r);
          sn.add("prepared pmat", PM.p, PM.len);
          sources = 2;
          if (call == 7) {
            sn.add("source a", A.p, A.len);
            Buf T = ar.alloc(vmp_apply_dft_tmp_bytes(mod, s2, s1, nrows, ncols), OVER, 0, 3, v[11]);
            vmp_apply_dft(mod, (VEC_ZNX_DFT*)RES.p, s2, A.as<int64_t>(), s1, sl, (VMP_PMAT*)PM.p, nrows, ncols, T.p);
          } else {
            Buf AD = ar.alloc(bytes_of_vec_znx_dft(mod, s1), OVER);
            vec_znx_dft(mod, (VEC_ZNX_DFT*)AD.p, s1, A.as<int64_t>(), s1, sl);
            sn.add("source a_dft", AD.p, AD.len);
            Buf T = ar.alloc(vmp_apply_dft_to_dft_tmp_bytes(mod, s2, s1, nrows, ncols), OVER, 0, 3, v[11]);
            vmp_apply_dft_to_dft(mod, (VEC_ZNX_DFT*)RES.p, s2, (VEC_ZNX_DFT*)AD.p, s1, (VMP_PMAT*)PM.p, nrows, ncols, T.p);
          }
          break;
        }
        case 9: {
          Buf A = ar.alloc(n * 8, UNDER), B = ar.alloc(n * 8, OVER), R = ar.alloc(n * 8, OVER, 0, 1), T = ar.alloc(znx_small_single_product_tmp_bytes(mod), OVER, 0, 2);
          fill_small(A.as<int64_t>(), n, bits, r);
          fill_small(B.as<int64_t>(), n, bits, r);
          sn.add("source a", A.p, A.len);
          sn.add("source b", B.p, B.len);
          sources = 2;
          znx_small_single_product(mod, R.as<int64_t>(), A.as<int64_t>(), B.as<int64_t>(), T.p);
          break;
        }
        default: {  // big normalize / range normalize: the big source (all of it, also the limbs the range skips)
          const uint64_t step = 1 + v[8], begin = v[5] % 3;
          const uint64_t total = begin + (s1 ? (s1 - 1) * step + 1 : 0);
          Buf G = ar.alloc(bytes_of_vec_znx_big(mod, total), UNDER, 0, 3, v[11]), R = ar.alloc(ext(s2), OVER, 0, 1),
              T = ar.alloc(vec_znx_big_range_normalize_base2k_tmp_bytes(mod), OVER, 0, 2);
          fill_small(G.as<int64_t>(), total * n, 62, r);
          sn.add("source big vector", G.p, G.len);
          if (v[3] & 1) vec_znx_big_range_normalize_base2k(mod, (uint64_t)v[9], R.as<int64_t>(), s2, sl, (VEC_ZNX_BIG*)G.p, begin, total, step, T.p);
          else vec_znx_big_normalize_base2k(mod, (uint64_t)v[9], R.as<int64_t>(), s2, sl, (VEC_ZNX_BIG*)G.p, total, T.p);
        }
      }
      ctx.notef("%s N=%llu %s cfg=%s s1=%llu s2=%llu %llux%llu sl=%llu", names[call], (unsigned long long)n, mt == FFT64 ? "FFT64" : "NTT120", mask ? "generic" : "full",
                (unsigned long long)s1, (unsigned long long)s2, (unsigned long long)nrows, (unsigned long long)ncols, (unsigned long long)sl);
      size_t off;
      if (const char* w = sn.changed(&off)) return ctx.failf("%s (N=%llu %s): %s was modified (first changed byte %zu)", names[call], (unsigned long long)n, mt == FFT64 ? "FFT64" : "NTT120", w, off);
      if (at::hash_blocks(tm.blocks) != hmod) return ctx.failf("%s (N=%llu %s): the MODULE / its precomputed tables were modified", names[call], (unsigned long long)n, mt == FFT64 ? "FFT64" : "NTT120");
      if (ar.check_canaries() >= 0) return ctx.failf("%s wrote outside a declared extent", names[call]);
      ctx.nontrivial = true;  // every call here has a table operand (the module)
      ctx.cls(std::string("call:") + names[call]);
      ctx.cls(mt == FFT64 ? "module:FFT64" : "module:NTT120");
      ctx.cls(mask ? "cfg:generic" : "cfg:full");
      ctx.cls("sources:" + std::to_string(sources));
      if (v[12] >= 2) ctx.cls(v[12] == 2 ? "placement:packed-up" : "placement:packed-down");
    };
    subs.push_back(s);
  }
  {
    Sub s;
    s.name = "tables";  // precomputed tables of the reim / cplx / q120 layers are read-only
    s.fields = {{"logm", 0, 16}, {"fn", 0, 9}, {"cfg", 0, 1}, {"ell", 0, 64}, {"seed", 0, INT64_MAX - 1}, {"nbuf", 0, 2}};
    s.run = [](const Vals& v, Ctx& ctx) {
      const uint64_t m = 1ull << v[0];
      const int fn = (int)v[1];
      unsigned mask = v[2] ? spq::GENERIC : spq::FULL;
      if (fn >= 6) mask = spq::FULL;
      Rng r((uint64_t)v[4]);
      Arena ar;
      Snaps sn;
      static const char* names[] = {"reim_fft", "reim_ifft", "cplx_fft", "cplx_ifft", "reim_to_znx64", "reim_from_znx64", "q120_ntt_bb_avx2", "q120_intt_bb_avx2",
                                    "q120_vec_mat1col_product_bbb", "q120_vec_mat1col_product_bbc"};
      spq::MaskGuard g(mask);
      std::vector<at::Block> blocks;
      void* obj = nullptr;
      std::function<void()> del = [&]() { free(obj); };
      Buf D = ar.alloc(2 * m * 8, OVER);
      for (uint64_t i = 0; i < 2 * m; ++i) D.as<double>()[i] = std::ldexp(r.sunit(), (int)r.below(40) - 20);
      const uint32_t nbuf = fn <= 3 ? (uint32_t)v[5] : 0;  // fft tables can carry built-in data buffers (documented: *_precomp_get_buffer)
      at::begin();
      switch (fn) {
        case 0: obj = new_reim_fft_precomp(m, nbuf); break;
        case 1: obj = new_reim_ifft_precomp(m, nbuf); break;
        case 2: obj = new_cplx_fft_precomp(m, nbuf); break;
        case 3: obj = new_cplx_ifft_precomp(m, nbuf); break;
        case 4: obj = new_reim_to_znx64_precomp(m, (double)m, 63); break;
        case 5: obj = new_reim_from_znx64_precomp(m, 50); break;
        case 6: obj = q120_new_ntt_bb_precomp(m); del = [&]() { q120_del_ntt_bb_precomp((q120_ntt_precomp*)obj); }; break;
        case 7: obj = q120_new_intt_bb_precomp(m); del = [&]() { q120_del_intt_bb_precomp((q120_ntt_precomp*)obj); }; break;
        case 8: obj = q120_new_vec_mat1col_product_bbb_precomp(); del = [&]() { q120_delete_vec_mat1col_product_bbb_precomp((q120_mat1col_product_bbb_precomp*)obj); }; break;
        default: obj = q120_new_vec_mat1col_product_bbc_precomp(); del = [&]() { q120_delete_vec_mat1col_product_bbc_precomp((q120_mat1col_product_bbc_precomp*)obj); };
      }
      blocks = at::end();
      if (nbuf) {
        // The built-in buffers are data, the rest of the object is the read-only table: a transform executed IN a built-in buffer must
        // leave the table as it was.  The buffers live inside the object's heap block, so the table is watched through its observable
        // behaviour: the transform of one fixed user vector before and after must be bit-identical.
        auto tr = [&](double* x) {
          switch (fn) {
            case 0: reim_fft((REIM_FFT_PRECOMP*)obj, x); break;
            case 1: reim_ifft((REIM_IFFT_PRECOMP*)obj, x); break;
            case 2: cplx_fft((CPLX_FFT_PRECOMP*)obj, x); break;
            default: cplx_ifft((CPLX_IFFT_PRECOMP*)obj, x);
          }
        };
        auto getbuf = [&](uint32_t i) -> double* {
          switch (fn) {
            case 0: return reim_fft_precomp_get_buffer((REIM_FFT_PRECOMP*)obj, i);
            case 1: return reim_ifft_precomp_get_buffer((REIM_IFFT_PRECOMP*)obj, i);
            case 2: return (double*)cplx_fft_precomp_get_buffer((CPLX_FFT_PRECOMP*)obj, i);
            default: return (double*)cplx_ifft_precomp_get_buffer((CPLX_IFFT_PRECOMP*)obj, i);
          }
        };
        std::vector<double> probe(D.as<double>(), D.as<double>() + 2 * m);
        Buf U = ar.alloc(2 * m * 8, OVER);
        memcpy(U.p, probe.data(), 2 * m * 8);
        tr(U.as<double>());
        std::vector<double> before(U.as<double>(), U.as<double>() + 2 * m);
        for (uint32_t b = 0; b < nbuf; ++b) {
          double* x = getbuf(b);
          for (uint64_t i = 0; i < 2 * m; ++i) x[i] = std::ldexp(r.sunit(), (int)r.below(30));
          tr(x);
        }
        memcpy(U.p, probe.data(), 2 * m * 8);
        tr(U.as<double>());
        const bool same = memcmp(before.data(), U.p, 2 * m * 8) == 0;
        del();
        ctx.notef("%s m=%llu cfg=%s built-in buffers=%u", names[fn], (unsigned long long)m, mask ? "generic" : "full", nbuf);
        if (!same) return ctx.failf("%s m=%llu: after a transform executed in a built-in buffer of the table (num_buffers=%u) the same table transforms the same vector differently: the table was modified", names[fn], (unsigned long long)m, nbuf);
        if (ar.check_canaries() >= 0) return ctx.failf("%s wrote outside its buffers", names[fn]);
        ctx.nontrivial = true;
        ctx.cls(std::string("table:") + names[fn]);
        ctx.cls("table:built-in-buffers");
        if (v[0] >= 14) ctx.cls("table:built-in-buffers,m>=16384");
        return;
      }
      const uint64_t h0 = at::hash_blocks(blocks);
      int sources = 0;
      switch (fn) {
        case 0: reim_fft((REIM_FFT_PRECOMP*)obj, D.as<double>()); break;
        case 1: reim_ifft((REIM_IFFT_PRECOMP*)obj, D.as<double>()); break;
        case 2: cplx_fft((CPLX_FFT_PRECOMP*)obj, D.p); break;
        case 3: cplx_ifft((CPLX_IFFT_PRECOMP*)obj, D.p); break;
        case 4: {
          Buf O = ar.alloc(2 * m * 8, OVER, 0, 1);
          sn.add("source x", D.p, D.len);
          sources = 1;
          reim_to_znx64((REIM_TO_ZNX64_PRECOMP*)obj, O.as<int64_t>(), D.p);
          break;
        }
        case 5: {
          Buf I = ar.alloc(2 * m * 8, UNDER), O = ar.alloc(2 * m * 8, OVER, 0, 1);
          fill_small(I.as<int64_t>(), 2 * m, 50, r);
          sn.add("source x", I.p, I.len);
          sources = 1;
          reim_from_znx64((REIM_FROM_ZNX64_PRECOMP*)obj, O.p, I.as<int64_t>());
          break;
        }
        case 6:
        case 7: {
          Buf X = ar.alloc(m * 32, OVER);
          for (uint64_t i = 0; i < 4 * m; ++i) X.as<uint64_t>()[i] = r.next();
          if (fn == 6) q120_ntt_bb_avx2((q120_ntt_precomp*)obj, (q120b*)X.p);
          else q120_intt_bb_avx2((q120_ntt_precomp*)obj, (q120b*)X.p);
          break;
        }
        default: {
          // lengths over the whole documented range (ell < 10000), with the size classes 2^8..2^13 crossed in both directions
          const uint64_t ell = v[3] <= 48 ? (uint64_t)v[3] : ((uint64_t)1 << (8 + (v[3] - 49) % 6)) - 2 + r.below(5) + (v[3] >= 61 ? r.below(1500) : 0);
          Buf X = ar.alloc(ell * 32, UNDER), Y = ar.alloc(ell * 32, OVER), R = ar.alloc(32, OVER, 0, 1);
          for (uint64_t i = 0; i < 4 * ell; ++i) X.as<uint64_t>()[i] = r.next();
          if (fn == 8) for (uint64_t i = 0; i < 4 * ell; ++i) Y.as<uint64_t>()[i] = r.next();
          else for (uint64_t i = 0; i < 8 * ell; ++i) Y.as<uint32_t>()[i] = (uint32_t)r.next();
          sn.add("source x", X.p, X.len);
          sn.add("source y", Y.p, Y.len);
          sources = 2;
          for (int avx = 0; avx < 2; ++avx) {
            if (fn == 8) (avx ? q120_vec_mat1col_product_bbb_avx2 : q120_vec_mat1col_product_bbb_ref)((q120_mat1col_product_bbb_precomp*)obj, ell, (q120b*)R.p, (q120b*)X.p, (q120b*)Y.p);
            else (avx ? q120_vec_mat1col_product_bbc_avx2 : q120_vec_mat1col_product_bbc_ref)((q120_mat1col_product_bbc_precomp*)obj, ell, (q120b*)R.p, (q120b*)X.p, (q120c*)Y.p);
          }
        }
      }
      const bool table_ok = at::hash_blocks(blocks) == h0;
      size_t off;
      const char* w = sn.changed(&off);
      del();
      ctx.notef("%s m=%llu cfg=%s (%zu table blocks)", names[fn], (unsigned long long)m, mask ? "generic" : "full", blocks.size());
      if (!table_ok) return ctx.failf("%s m=%llu: the precomputed table was modified by the call", names[fn], (unsigned long long)m);
      if (w) return ctx.failf("%s m=%llu: %s was modified (byte %zu)", names[fn], (unsigned long long)m, w, off);
      if (ar.check_canaries() >= 0) return ctx.failf("%s wrote outside its buffers", names[fn]);
      ctx.nontrivial = blocks.size() >= 1;
      ctx.cls(std::string("table:") + names[fn]);
      (void)sources;
    };
    subs.push_back(s);
  }
  return subs;
}
