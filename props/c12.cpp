// C12 — shared modules and precomputed tables are safe for concurrent use.
// rapidcheck draws a thread-program descriptor in this (plain) parent; each case is executed by a FRESH ThreadSanitizer
// child process (props/c12_child.cpp), so first-use state is really first use. Oracle: zero TSan reports (exit 66),
// concurrent == sequential bitwise, shared tables unchanged (exit 3).
#include <signal.h>
#include <sys/wait.h>
#include <unistd.h>

#include "harness.hpp"

using namespace vh;
const char* vh_property_id = "C12";

static std::string run_child(const std::vector<std::string>& args, int* rc) {
  const char* bin = getenv("VERIF_BIN");
  std::string exe = std::string(bin ? bin : "build/bin") + "/c12child-tsan";
  int fds[2];
  if (pipe(fds) != 0) { *rc = -1; return "pipe failed"; }
  pid_t pid = fork();
  if (pid == 0) {
    dup2(fds[1], 1);
    dup2(fds[1], 2);
    close(fds[0]);
    close(fds[1]);
    setenv("TSAN_OPTIONS", "halt_on_error=1:exitcode=66:report_signal_unsafe=0:second_deadlock_stack=1", 1);
    std::vector<char*> av;
    av.push_back((char*)exe.c_str());
    for (auto& a : args) av.push_back((char*)a.c_str());
    av.push_back(nullptr);
    execv(exe.c_str(), av.data());
    _exit(127);
  }
  close(fds[1]);
  std::string out;
  char buf[4096];
  ssize_t n;
  while ((n = read(fds[0], buf, sizeof buf)) > 0) out.append(buf, (size_t)n);
  close(fds[0]);
  int st = 0;
  waitpid(pid, &st, 0);
  *rc = WIFEXITED(st) ? WEXITSTATUS(st) : 128 + WTERMSIG(st);
  return out;
}

std::vector<Sub> vh_subs() {
  std::vector<Sub> subs;
  Sub s;
  s.name = "threads";
  s.fields = {{"k", 1, 16}, {"T", 2, 16}, {"calls", 1, 6}, {"mode", 0, 1}, {"seed", 0, INT64_MAX - 1}, {"hot", -1, 33}};
  s.run = [](const Vals& v, Ctx& ctx) {
    int rc = 0;
    std::string out = run_child({std::to_string(v[0]), std::to_string(v[1]), std::to_string(v[2]), std::to_string(v[3]), std::to_string(v[4]), std::to_string(v[5])}, &rc);
    ctx.notef("N=%llu, %lld threads x %lld calls, %s process", 1ull << v[0], (long long)v[1], (long long)v[2], v[3] ? "warmed-up" : "fresh");
    if (rc == 66 || out.find("ThreadSanitizer: data race") != std::string::npos) {
      size_t p = out.find("WARNING: ThreadSanitizer");
      std::string rep = out.substr(p == std::string::npos ? 0 : p, 1500);
      for (auto& ch : rep) if (ch == '\n') ch = '|';
      return ctx.failf("ThreadSanitizer report in a %s process (N=%llu, %lld threads): %s", v[3] ? "warmed-up" : "fresh", 1ull << v[0], (long long)v[1], rep.c_str());
    }
    if (rc == 128 + SIGALRM)
      return ctx.failf("N=%llu %lld threads (%s process): the thread program did not finish within 180 s (hang / livelock under concurrent use; sequentially it takes < 1 s): %s",
                       1ull << v[0], (long long)v[1], v[3] ? "warmed-up" : "fresh", out.substr(0, 300).c_str());
    if (rc == 3) return ctx.failf("N=%llu %lld threads: %s", 1ull << v[0], (long long)v[1], out.substr(0, 400).c_str());
    if (rc != 0) return ctx.failf("child failed unexpectedly rc=%d: %s", rc, out.substr(out.size() > 600 ? out.size() - 600 : 0).c_str());
    size_t p = out.find("SHARED");
    bool shared = false;
    if (p != std::string::npos) {
      std::string line = out.substr(p + 6, out.find('\n', p) - p - 6);
      size_t i = 0;
      while (i < line.size()) {
        while (i < line.size() && line[i] == ' ') ++i;
        size_t j = line.find(' ', i);
        if (j == std::string::npos) j = line.size();
        if (j > i) { ctx.cls("shared:" + line.substr(i, j - i)); shared = true; }
        i = j;
      }
    }
    ctx.nontrivial = shared;
    ctx.cls(v[3] ? "mode:warm" : "mode:fresh");
    if (v[5] >= 0) ctx.cls(v[1] >= 9 ? "hot:every thread starts with the same entry point, T>=9" : "hot:every thread starts with the same entry point");
    ctx.cls("T:" + std::to_string(v[1] >= 8 ? 8 : v[1] >= 4 ? 4 : 2) + "+");
  };
  subs.push_back(s);
  return subs;
}
