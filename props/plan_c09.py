from planlib import geo, desc_fuzz


# ------------------------------------------------------------------------------------------- C09
def _c09(tier):
    jobs = []
    kmax_enum = 12 if tier == "quick" else 14
    for k in range(0, kmax_enum + 1):
        nn = 1 << k
        for op in (0, 1, 2):
            rmax = (nn - 1) if op == 1 else (2 * nn - 1)
            jobs.append(dict(sub="residues", enum=True, fix=dict(k=k, op=op, r=(0, rmax))))
    mult = 1 if tier == "quick" else 80
    for k in range(0, 17):
        jobs.append(dict(sub="kernel", count=geo(k, 6000, 7, 40) * mult, fix=dict(k=k)))
    for k in range(0, 15):
        jobs.append(dict(sub="sequence", count=geo(k, 3000, 7, 30) * mult, fix=dict(k2=k)))
    for k in range(0, 15):
        jobs.append(dict(sub="compose", count=geo(k, 3000, 7, 30) * mult, fix=dict(k=k)))
    for k in range(1, 17):
        jobs.append(dict(sub="vec", count=geo(k, 4000, 7, 80) * mult, fix=dict(k=k), split=(2 if k >= 15 else 1)))
    return jobs


PLAN_ID = "C09"
PLAN = dict(
    src="props/c09.cpp", flavour="rel",
    rule="cases = (nn=2^k, p, op in {rotate, automorphism, mul_xp_minus_one}) on znx+rnx kernels (out-of-place and "
         "in-place), vector/big wrappers and composition laws; p enumerated exhaustively over all residues mod 2nn "
         "(odd ones for automorphisms) for small nn and constructed 2-adically (+-1+u*2^j), from special values and from "
         "|p| up to 2^63-1 for all nn; oracle = index arithmetic mod 2nn on u128. Non-trivial: nn>=4 and p mod 2nn not "
         "in {0,1} (wrappers: also res_size>=1 and a_size>=1). Distinct = distinct descriptor (sub, fields) hash.",
    assumptions=["p odd for automorphisms; INT64_MIN excluded (statement: p in (-2^63,2^63))",
                 "oracle: u128 index arithmetic + negation in the element type"],
    quick=_c09("quick"), thorough=_c09("thorough"),
    fuzz=desc_fuzz("C09", fix=dict(k=(0, 12), k1=(0, 11), k2=(0, 11))),
    required_classes=dict(all=["op:rotate", "op:automorphism", "op:mul_xp_minus_one", "p<0", "p_outside_[-2nn,2nn)",
                               "aut:p==-1", "aut:p==n+1", "aut:p==n-1", "aut:negate-at-depth",
                               "aut:negamirror-at-depth", "module:FFT64", "module:NTT120",
                               "wrapper:big", "inplace", "cfg:generic", "sequence:different-N-same-p"] + ["k:%d" % k for k in range(0, 17)]),
)
