from planlib import desc_fuzz
KERNS = ["q120_vec_mat1col_product_baa", "q120_vec_mat1col_product_bbb", "q120_vec_mat1col_product_bbc",
         "q120x2_vec_mat1col_product_bbc", "q120x2_vec_mat2cols_product_bbc"]
OPS = ["q120_b_from_znx64_simple", "q120_c_from_znx64_simple", "q120_c_from_b_simple", "q120_add_bbb_simple",
       "q120_add_ccc_simple", "q120_b_to_znx128_simple", "int64->b->int128", "b(V1)+b(V2)->int128"]
ELLC = ["ell:0", "ell:1", "ell:2", "ell:10000", "ell:mid", "ell:small", "ell:near-max", "ell:65..300 and near powers of two"]
# cases per (kernel, ell class): the long vectors dominate the cost
ELL_COUNT = {0: 12000, 1: 12000, 2: 18000, 3: 2400, 4: 4500, 5: 30000, 6: 1800, 7: 12000}


def _jobs(tier):
    mult = 1 if tier == "quick" else 20
    jobs = []
    for kern in range(5):
        for ellc in range(8):
            jobs.append(dict(sub="product", count=ELL_COUNT[ellc] * mult, fix=dict(kern=kern, ellc=ellc),
                             split=(2 if ellc in (3, 4, 6) and kern >= 3 else 1)))
    for op in range(8):
        jobs.append(dict(sub="conv", count=18000 * mult, fix=dict(op=op, nn=(0, 64))))
        jobs.append(dict(sub="conv", count=3000 * mult, fix=dict(op=op, nn=(65, 4096))))
    # the centred lift right at +-(Q-1)/2, every lane-representative family
    for lfam in range(4):
        jobs.append(dict(sub="conv", count=7500 * mult, fix=dict(op=5, vfam=0, lfam=lfam, nn=(1, 32))))
    jobs.append(dict(sub="blocks", count=15000 * mult, fix=dict(nnh=(1, 64))))
    jobs.append(dict(sub="blocks", count=1500 * mult, fix=dict(nnh=(65, 2048))))
    return jobs


PLAN_ID = "C10"
PLAN = dict(
    src="props/c10.cpp", flavour="rel",
    rule="products: (kernel in {baa,bbb,bbc,x2 1col,x2 2cols}, ref AND avx2 in every case, ell class {0,1,2,10000,9990..9999,3..9999,3..64}, "
         "operand word families canonical/any/non-canonical r+c*q/extremal/all-max/mixed for a- and b-words, proper and arbitrary/extremal "
         "32-bit c-words, shapes dense/single term/alternating with zero); oracle = sum_i x_i*y_i mod q_j in u128 on the raw words "
         "(c operands: sum x_lo*c0 + x_hi*c1). conversions: b/c from int64 (all of int64 incl. MIN/MAX, multiples of the primes), c from b, "
         "add_bbb/add_ccc on any 64/32-bit words, centred CRT lift compared with Garner's algorithm on residues constructed from chosen "
         "values incl. exactly +-(Q-1)/2 and non-canonical lanes r+c*q, int64->b->int128 identity, lift(add(b(V1),b(V2)))=V1+V2; "
         "blocks: extract/extract-contiguous/save vs direct indexing for all block indices in generated order + round trips. "
         "Non-trivial: ell>=2 (products); some value not in {0,+-1} (conversions); nn>=4 (blocks). Distinct = descriptor hash.",
    assumptions=["a-layout words are < 2^32 (q120_common.h), b-layout words any 64-bit value, c-layout words any 32-bit value",
                 "ell <= 10000 = MAX_ELL (the repository's own tests use ell=10000 although the header comment says ell < 10000)",
                 "q120_add_bbb_simple reduces each operand modulo q<<33 first, q120_add_ccc_simple adds in 64 bits: no precondition on the "
                 "operands beyond their word size, results only required to be congruent to the sum",
                 "the four primes Q1..Q4 are taken from q120_common.h (configuration); all other constants are re-derived by the oracle",
                 "__int128 results are written to 16-byte aligned buffers"],
    quick=_jobs("quick"), thorough=_jobs("thorough"),
    fuzz=desc_fuzz("C10", fix=dict(nn=(0, 1024), nnh=(1, 256)), runs=60000),
    required_classes=dict(all=["kern:" + k for k in KERNS] + ["impl:ref", "impl:avx2"] + ELLC + ["op:" + o for o in OPS]
                          + ["x:canonical", "x:any", "x:extremal", "x:allmax", "x:noncanonical", "x:mixed",
                             "c:proper", "c:arbitrary", "c:extremal-words", "c:allmax-words", "c:proper-extremal",
                             "shape:0", "shape:1", "shape:2", "value:INT64_MIN", "value:INT64_MAX", "value:+-(Q-1)/2",
                             "lift:constructed", "lift:arbitrary-lanes", "lane-rep:0", "lane-rep:1", "lane-rep:2", "lane-rep:3",
                             "blocks", "blocks:nrows>1", "blocks:nrows>=8"]),
)
