from planlib import desc_fuzz
# C06 — reim/cplx FFT and iFFT equal the mathematical transform, in documented order.
# Cost of one case ~ 0.75 us * m (long double oracle + 2 Horner evaluations + 2 library calls + table hashes):
# 0.2 ms at m=256, 3 ms at m=4096, 50 ms at m=65536.  Counts are frozen case counts (never time budgets).

# cases per (sub, k) in the quick tier: ~2-15 core-seconds per job
_COUNT = {0: 5000, 1: 10000, 2: 10000, 3: 10000, 4: 10000, 5: 10000, 6: 10000, 7: 10000, 8: 10000,
          9: 10000, 10: 10000, 11: 7500, 12: 4500, 13: 2400, 14: 1200, 15: 600, 16: 300}

_IMPLS = ["%s_%s_%s" % (lay, d, v) for lay in ("reim", "cplx") for d in ("fft", "ifft") for v in ("ref", "avx2_fma")]
_LEAVES = (["reim_%s%d_ref" % (d, n) for d in ("fft", "ifft") for n in (2, 4, 8, 16)]
           + ["reim_%s%d_avx_fma" % (d, n) for d in ("fft", "ifft") for n in (4, 8, 16)]
           + ["cplx_%s16_%s" % (d, v) for d in ("fft", "ifft") for v in ("ref", "avx_fma")])


def _jobs(tier):
    mult = 1 if tier == "quick" else 20
    jobs = []
    for k in range(16, -1, -1):  # long jobs first
        n = _COUNT[k] * mult
        split = 1 if tier == "quick" else (4 if k >= 9 else 1)
        jobs.append(dict(sub="reim_api", count=n, fix=dict(k=k), split=split))
        jobs.append(dict(sub="cplx_api", count=n, fix=dict(k=k), split=split))
        jobs.append(dict(sub="drivers", count=n, fix=dict(k=k), split=split))
        jobs.append(dict(sub="simple", count=n // 2, fix=dict(k=k), split=split))
        jobs.append(dict(sub="precomp_buffers", count=max(200, n // 8) if k <= 12 else max(12, n // 8), fix=dict(k=k)))
    jobs.append(dict(sub="leaf", count=120000 * mult, split=4 * (1 if tier == "quick" else 4)))
    for k in range(0, 13):  # the table-free recursive implementations (exported; the oracles of the library's own tests)
        jobs.append(dict(sub="naive", count=max(150, _COUNT[k] // 8) * mult, fix=dict(k=k)))
    return jobs


def _required():
    req = ["k:%d" % k for k in range(0, 17)]
    req += ["impl:" + i for i in _IMPLS] + ["impl:" + l for l in _LEAVES] + ["leaf:" + l for l in _LEAVES]
    req += ["cfg:full", "cfg:generic", "tablecfg:full", "tablecfg:generic", "entry:api", "entry:direct", "entry:leaf",
            "entry:simple", "entry_pwr:1/4", "entry_pwr:inner_block", "layout:reim", "layout:cplx", "dir:fft", "dir:ifft"]
    req += ["simple:%s_%s_simple" % (lay, d) for lay in ("reim", "cplx") for d in ("fft", "ifft")]
    req += ["fam:" + f for f in ("impulse", "constant", "resonant", "dynrange", "random")]
    req += ["simple:after-other-dimension", "scale:2^-1018..2^-960", "scale:2^960..2^1024"]
    req += ["entry:naive"] + ["impl:" + n for n in ("reim_naive_fft", "reim_naive_ifft", "cplx_fft_naive", "cplx_ifft_naive")]
    req += ["entry:precomp_buffer", "pbuf:reim", "pbuf:cplx"] + ["pbuf:k%d" % k for k in range(0, 17)]
    # every implementation at every size at which the library's dispatcher can select it
    for k in range(0, 17):
        for i in _IMPLS:
            if i.startswith("cplx") and i.endswith("avx2_fma") and k <= 2:
                continue  # new_cplx_(i)fft_precomp never selects the AVX driver for m <= 4
            req.append("at:%s:k%d" % (i, k))
    return req


PLAN_ID = "C06"
PLAN = dict(
    src="props/c06.cpp", flavour="rel",
    rule="cases = (m=2^k for every k in 0..16 [own stratum each; 16/32 and 2048/4096 are the algorithm switches], layout in "
         "{reim, cplx}, direction in {fft, ifft}, entry point in {public reim_/cplx_(i)fft on a table created under CPU cfg "
         "full|generic, the _ref and _avx2_fma drivers called directly on either table, the *_simple API, a transform run inside the table's own built-in buffers (num_buffers 1..3: must equal the transform in a caller array and leave table and other buffers intact), the leaf kernels "
         "reim_(i)fft{2,4,8,16}_ref / {4,8,16}_avx_fma / cplx_(i)fft16_{ref,avx_fma} on tables from the library's own fill "
         "routines (16-point kernels also with every inner-block entry power (1+4r)/(4*2^e) the drivers use)}, input family in "
         "{unit impulse, constant, conjugate powers of a generated evaluation point (all energy in one output), dynamic range "
         "2^+-40 about a centre in 2^[-400,400], uniform random}, scale 2^[-400,400]). Oracle: long double twist + textbook "
         "radix-2 DFT + bit reversal with every twiddle from an exactly reduced angle; out[j] vs P(omega^(1+4 bitrev_k(j))), "
         "inverse vs m*F^-1 of the double input; ||out-exact||_2 <= (8 log2(2m) 2^-53 + 4 log2(2m) 2^-63)||exact||_2, "
         "m=1 bit-exact identity; two outputs per case re-evaluated by Horner's rule with a running error bound and compared "
         "with both the oracle and the library output; the same call on a copy of the input must be bit-identical; the "
         "precomp struct + powomegas region (leaf: the filled table) must hash the same before and after; guard pages and "
         "canaries around the 2m doubles. Non-trivial: m>=2 and at least two non-zero complex coefficients (input not a "
         "multiple of a single impulse). Distinct = distinct descriptor hash. Classes ratio:<impl>:<=x give the "
         "observed distribution of error / statement bound per implementation.",
    assumptions=["non-zero input magnitudes inside [2^-500, 2^500] (the 2^-53 relative model is meaningless with denormals)",
                 "data buffers 64-byte aligned for m>=4 (alignment independence is C11/C15)",
                 "kernels only at the sizes / entry powers at which the library's own drivers use them; the cplx AVX driver "
                 "only for m>=8; *_simple tables created under the unmasked host CPU",
                 "oracle: x87 long double (2^-64), allowance 4*log2(2m)*2^-63 relative for its own rounding",
                 "table extent hashed = sizeof(precomp struct) + 2m doubles (reim) / 2m complexes (cplx) at powomegas, "
                 "i.e. not more than OMG_SPACE of the constructors"],
    quick=_jobs("quick"), thorough=_jobs("thorough"),
    fuzz=desc_fuzz("C06", fix=dict(k=(0, 10), kprev=(0, 11))),
    required_classes=dict(all=_required()),
)
