from planlib import geo, WRAP_FLAGS, WRAP_SRCS, desc_fuzz

ENTRIES = ["vec_znx_normalize_base2k", "vec_znx_big_normalize_base2k", "vec_znx_big_range_normalize_base2k", "vec_znx_dft", "vec_znx_idft",
           "vec_znx_idft_tmp_a", "svp_prepare", "svp_apply_dft", "vmp_prepare_contiguous", "vmp_apply_dft", "vmp_apply_dft_to_dft",
           "znx_small_single_product"]
VEC = ["vec_znx_zero", "vec_znx_copy", "vec_znx_negate", "vec_znx_add", "vec_znx_sub", "vec_znx_rotate", "vec_znx_automorphism",
       "vec_znx_big_add", "vec_znx_big_add_small", "vec_znx_big_add_small2", "vec_znx_big_sub", "vec_znx_big_sub_small_a",
       "vec_znx_big_sub_small_b", "vec_znx_big_sub_small2", "vec_znx_big_rotate", "vec_znx_big_automorphism"]
ZERO_OK = [e for e in ENTRIES if e not in ("svp_prepare", "vmp_prepare_contiguous", "znx_small_single_product")]


def _jobs(tier):
    mult = 1 if tier == "quick" else 200
    jobs = []
    for fl in ("asan", "rel"):
        for k in range(1, 13):
            jobs.append(dict(sub="entry", count=geo(k, 1200, 6, 20) * mult, fix=dict(k=k, nrows=(1, 4), ncols=(1, 4)), flavour=fl))
            jobs.append(dict(sub="vec", count=geo(k, 1200, 6, 20) * mult, fix=dict(k=k), flavour=fl))
        jobs.append(dict(sub="kernels", count=5000 * mult, fix=dict(logm=(0, 7)), flavour=fl, split=2))
        jobs.append(dict(sub="kernels", count=500 * mult, fix=dict(logm=(8, 12)), flavour=fl))
        # the largest dimensions (alignment-sensitive fast paths, table sizes): few cases, every entry point
        jobs.append(dict(sub="kernels", count=120 * mult, fix=dict(logm=(13, 16)), flavour=fl, split=2))
        for k in range(13, 17):
            jobs.append(dict(sub="entry", count=36 * mult, fix=dict(k=k, nrows=(1, 4), ncols=(1, 4)), flavour=fl))
        # large prepared matrices (up to 32 x 32 polynomials) at small N: object sizes and scratch sizes that depend on nrows*ncols
        jobs.append(dict(sub="entry", count=1500 * mult, fix=dict(k=(3, 6), e=(8, 10), mtype=0), flavour=fl, split=2))
    jobs.append(dict(sub="objects", enum=True, fix=dict(logn=(1, 14), cfg=(0, 1), size=(0, 3), nrows=(1, 2), ncols=(1, 2)), flavour="asan"))
    return jobs


PLAN_ID = "C11"
PLAN = dict(
    src="props/c11.cpp", flavour="asan", extra_srcs=WRAP_SRCS, extra_link=WRAP_FLAGS,
    rule="cases = public entry point x shape parameters (N, limb counts incl. 0, strides, nrows/ncols, range triples, ell) x per-buffer "
         "placement (guard page right after the extent / right before it / heap block of exactly the declared size at byte offset 0..56) x "
         "two different prefills of outputs and scratch x module type x cfg, on the ASan+UBSan library and on the gcc -O2 library with "
         "guard pages (sees the assembly); oracle = no fault / sanitizer report, canaries intact, outputs of the two runs on identical "
         "inputs bit-identical (no dependence on uninitialised memory or alignment), sources intact, element-wise results equal the C08 "
         "model, allocation tracker balanced after delete_*. Non-trivial: a size <= 1, a byte offset != 0, or a stride > N "
         "(objects: at least one heap block at peak).",
    assumptions=["scratch of exactly *_tmp_bytes(), opaque objects of exactly bytes_of_*() (NTT120: 32N / 16N bytes per limb as in the repo's test library)",
                 "8-byte alignment only"],
    quick=_jobs("quick"), thorough=_jobs("thorough"),
    fuzz=desc_fuzz("C11", fix=dict(k=(1, 10), logm=(0, 10), logn=(1, 10))),
    required_classes=dict(all=["entry:" + e for e in ENTRIES + VEC] + ["zero_size:" + e for e in ZERO_OK + VEC] + ["offset:" + e for e in ENTRIES]
                          + ["module:NTT120", "cfg:generic", "fresh-module,heap-fill-differential"] + ["object:module_info:FFT64", "object:module_info:NTT120", "object:vmp_pmat",
                                                                "object:q120_ntt_bb_precomp", "object:reim_fft_precomp"]),
)
