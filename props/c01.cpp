// C01 — FFT64 negacyclic product is exact within the documented precision budget.
// Oracle: exact product in Z[X]/(X^N+1) (schoolbook int128 / Goldilocks NTT), bound E+1/2 per coefficient,
// exact equality when E<1/2, rows beyond the input size exactly zero.
#include <algorithm>
#include <cmath>

#include "arena.hpp"
#include "harness.hpp"
#include "oracle_poly.hpp"
#include "patterns.hpp"
#include "spq.hpp"

using namespace vh;
const char* vh_property_id = "C01";

static const long double B52 = 4503599627370496.0L;   // 2^52
static const long double B50 = 1125899906842624.0L;   // 2^50
static const long double MARGIN = 1.0L - 1e-9L;       // stay strictly inside the budget despite long-double rounding

// rescales b (in place) so that (a,b) is inside the budget; with bias!=0 pushes towards the boundary
static void fit_budget(uint64_t n, const int64_t* a, int64_t* b, int bias, Rng& r) {
  orc::Norms na = orc::norms(n, a);
  for (int iter = 0; iter < 6; ++iter) {
    orc::Norms nb = orc::norms(n, b);
    if (nb.linf == 0 || na.linf == 0) return;
    long double budget = std::min(na.l1 * nb.linf, na.linf * nb.l1);
    long double fmax = std::min(B52 * MARGIN / budget, (B50 - 1) / nb.linf);  // largest admissible scale factor
    long double f;
    if (fmax < 1.0L)
      f = fmax;  // must shrink
    else if (bias == 0)
      return;  // already inside, keep as generated
    else if (bias == 1)
      f = fmax;  // at the boundary
    else
      f = 1.0L + (fmax - 1.0L) * (long double)r.unit();  // somewhere between
    if (f >= 1.0L && f < 1.0L + 1e-12L) return;
    for (uint64_t i = 0; i < n; ++i) {
      long double x = (long double)b[i] * f;
      b[i] = (int64_t)truncl(x);  // truncation never increases a norm beyond the scaled one
    }
    if (fmax >= 1.0L) {
      // scaling up with truncation keeps every norm <= f * old norm: still inside
      return;
    }
  }
}

struct ProductCheck {
  long double worst_ratio = 0;  // max |err| / (E+1/2)
  long double E = 0;
  long double maxabs = 0;
  bool exact_regime = false;
};

// compares res (int64) against exact a*b; returns false and fills msg on violation
static bool check_product(uint64_t n, const int64_t* a, const int64_t* b, const int64_t* res, ProductCheck& pc,
                          char* msg, size_t msglen) {
  std::vector<orc::i128> ex(n);
  orc::negacyclic_product(n, a, b, ex.data());
  if (n <= 512 && orc::count_nonzero(n, a) * orc::count_nonzero(n, b) > 0) {
    // cross-check the two exact oracles against each other
    std::vector<orc::i128> ex2(n);
    orc::GEval acc;
    orc::gaccumulate(acc, orc::geval(n, a), orc::geval(n, b));
    orc::gcoeffs(acc, ex2.data());
    for (uint64_t i = 0; i < n; ++i)
      if (ex[i] != ex2[i]) {
        snprintf(msg, msglen, "ORACLE SELF-CHECK FAILED (schoolbook vs Goldilocks) at coefficient %llu", (unsigned long long)i);
        return false;
      }
  }
  orc::Norms na = orc::norms(n, a), nb = orc::norms(n, b);
  long double E = orc::fft64_E(n, na, nb) * (1.0L + 1e-12L);
  pc.E = E;
  pc.exact_regime = E < 0.5L;
  for (uint64_t i = 0; i < n; ++i) {
    long double exl = (long double)ex[i];
    if (fabsl(exl) > pc.maxabs) pc.maxabs = fabsl(exl);
    orc::i128 d = (orc::i128)res[i] - ex[i];
    long double ad = fabsl((long double)d);
    long double tol = pc.exact_regime ? 0.0L : E + 0.5L;
    long double ratio = ad / (E + 0.5L);
    if (ratio > pc.worst_ratio) pc.worst_ratio = ratio;
    if (ad > tol) {
      snprintf(msg, msglen, "coefficient %llu: got %lld, exact %lld (|err|=%.3Lg, E=%.4Lg, %s)", (unsigned long long)i,
               (long long)res[i], (long long)ex[i], ad, E, pc.exact_regime ? "E<1/2 so the product must be exact" : "bound E+1/2");
      return false;
    }
  }
  return true;
}

static void gen_pair(uint64_t n, int fa, int fb, int abits, int bbits, uint64_t j, int bias, Rng& r, int64_t* a, int64_t* b) {
  int64_t Ma = abits >= 50 ? ((int64_t)1 << 50) - 1 : ((int64_t)1 << abits) - 1;
  int64_t Mb = bbits >= 50 ? ((int64_t)1 << 50) - 1 : ((int64_t)1 << bbits) - 1;
  if (Ma < 1) Ma = 1;
  if (Mb < 1) Mb = 1;
  pat::fill(a, n, fa, Ma, j, r);
  pat::fill(b, n, fb, Mb, j, r);
  fit_budget(n, a, b, bias, r);
}

static void classify(Ctx& c, uint64_t k, const ProductCheck& pc, uint64_t nza, uint64_t nzb) {
  const uint64_t n = 1ull << k;
  c.cls("k:" + std::to_string(k));
  c.cls(pc.exact_regime ? "E<1/2" : "E>=1/2");
  c.nontrivial = n >= 4 && nza >= 2 && nzb >= 2 && (pc.E >= 0.015625L || pc.maxabs >= 1099511627776.0L);
}

std::vector<Sub> vh_subs() {
  std::vector<Sub> subs;
  {
    Sub s;
    s.name = "small";  // znx_small_single_product
    s.fields = {{"k", 1, 16}, {"cfg", 0, 1}, {"fa", 0, 7}, {"fb", 0, 7}, {"abits", 1, 50}, {"bbits", 1, 50},
                {"bias", 0, 2}, {"j", 0, 131071}, {"amode", 0, 2}, {"prefill", 0, 3}, {"seed", 0, INT64_MAX - 1}};
    s.run = [](const Vals& v, Ctx& c) {
      const uint64_t k = v[0], n = 1ull << k;
      unsigned mask = v[1] ? spq::GENERIC : spq::FULL;
      Rng r((uint64_t)v[10]);
      Arena ar;
      int am = (int)v[8];
      Buf A = ar.alloc(n * 8, am == 0 ? OVER : am == 1 ? UNDER : MID, 8 * (v[10] % 8));
      Buf B = ar.alloc(n * 8, am == 1 ? OVER : UNDER);
      Buf R = ar.alloc(n * 8, OVER, 0, (int)v[9], v[10]);
      int64_t *a = A.as<int64_t>(), *b = B.as<int64_t>(), *res = R.as<int64_t>();
      gen_pair(n, (int)v[2], (int)v[3], (int)v[4], (int)v[5], (uint64_t)v[7], (int)v[6], r, a, b);
      orc::Norms na = orc::norms(n, a), nb = orc::norms(n, b);
      if (!orc::in_budget(na, nb)) { c.discard = true; return; }
      MODULE* mod = spq::modules().get(n, FFT64, mask);
      Buf T = ar.alloc(znx_small_single_product_tmp_bytes(mod), OVER, 0, (int)v[9] + 1, v[10]);
      uint64_t ha = hash_bytes(a, n * 8), hb = hash_bytes(b, n * 8);
      znx_small_single_product(mod, res, a, b, T.p);
      ProductCheck pc;
      char msg[512];
      c.notef("znx_small_single_product N=%llu cfg=%s a=%s(%d bits) b=%s(%d bits) |a|inf=%.3Lg |b|inf=%.3Lg bias=%d", (unsigned long long)n,
              mask ? "generic" : "full", pat::name((int)v[2]), (int)v[4], pat::name((int)v[3]), (int)v[5], na.linf, nb.linf, (int)v[6]);
      bool ok = check_product(n, a, b, res, pc, msg, sizeof msg);
      classify(c, k, pc, orc::count_nonzero(n, a), orc::count_nonzero(n, b));
      c.cls("path:small_single_product");
      c.cls(mask ? "cfg:generic" : "cfg:full");
      c.cls(std::string("fa:") + pat::name((int)v[2]));
      if (!ok) return c.failf("znx_small_single_product N=%llu cfg=%s: %s", (unsigned long long)n, mask ? "generic" : "full", msg);
      if (hash_bytes(a, n * 8) != ha || hash_bytes(b, n * 8) != hb) return c.failf("znx_small_single_product modified an input");
      if (ar.check_canaries() >= 0) return c.failf("znx_small_single_product wrote outside res / tmp_bytes");
    };
    subs.push_back(s);
  }
  {
    Sub s;
    s.name = "svp";  // svp_prepare + svp_apply_dft + vec_znx_idft(_tmp_a)
    s.fields = {{"k", 1, 16}, {"cfg", 0, 1}, {"fa", 0, 7}, {"fb", 0, 7}, {"abits", 1, 50}, {"bbits", 1, 50}, {"bias", 0, 2},
                {"j", 0, 131071}, {"a_size", 0, 20}, {"res_size", 0, 20}, {"big_size", 0, 20}, {"a_pad", 0, 3},
                {"tmp_a", 0, 1}, {"prefill", 0, 3}, {"seed", 0, INT64_MAX - 1}};
    s.run = [](const Vals& v, Ctx& c) {
      const uint64_t k = v[0], n = 1ull << k;
      unsigned mask = v[1] ? spq::GENERIC : spq::FULL;
      uint64_t a_size = v[8], res_size = v[9], big_size = v[10];
      if (k >= 12) { a_size = std::min<uint64_t>(a_size, 2); res_size = std::min<uint64_t>(res_size, 3); big_size = std::min<uint64_t>(big_size, 3); }
      else if (k >= 7) { a_size = std::min<uint64_t>(a_size, 10); res_size = std::min<uint64_t>(res_size, 10); big_size = std::min<uint64_t>(big_size, 10); }
      const uint64_t a_sl = n + v[11];
      const bool tmp_a = v[12];
      Rng r((uint64_t)v[14]);
      Arena ar;
      MODULE* mod = spq::modules().get(n, FFT64, mask);
      Buf Bp = ar.alloc(n * 8, OVER);
      Buf A = ar.alloc(a_size ? ((a_size - 1) * a_sl + n) * 8 : 0, UNDER);
      int64_t *b = Bp.as<int64_t>(), *a = A.as<int64_t>();
      // b first (family fb), then each row of a is fitted against b (roles swapped in fit_budget: the budget is symmetric)
      int64_t Mb = ((int64_t)1 << std::min<int64_t>(v[5], 50)) - 1;
      if (v[5] >= 50) Mb = ((int64_t)1 << 50) - 1;
      pat::fill(b, n, (int)v[3], std::max<int64_t>(Mb, 1), (uint64_t)v[7], r);
      for (uint64_t i = 0; i < a_size; ++i) {
        int64_t Ma = v[4] >= 50 ? ((int64_t)1 << 50) - 1 : ((int64_t)1 << v[4]) - 1;
        pat::fill(a + i * a_sl, n, (int)(v[2] + i) % pat::NFAM, std::max<int64_t>(Ma, 1), (uint64_t)v[7] + i, r);
        fit_budget(n, b, a + i * a_sl, (int)v[6], r);
        if (!orc::in_budget(orc::norms(n, a + i * a_sl), orc::norms(n, b))) { c.discard = true; return; }
      }
      Buf P = ar.alloc(bytes_of_svp_ppol(mod), OVER, 0, (int)v[13], v[14]);
      Buf D = ar.alloc(bytes_of_vec_znx_dft(mod, res_size), OVER, 0, (int)v[13] + 1, v[14]);
      Buf G = ar.alloc(bytes_of_vec_znx_big(mod, big_size), OVER, 0, (int)v[13] + 2, v[14]);
      Buf T = ar.alloc(vec_znx_idft_tmp_bytes(mod), OVER, 0, 1);
      uint64_t hb = hash_bytes(b, n * 8), ha = hash_bytes(A.p, A.len);
      svp_prepare(mod, (SVP_PPOL*)P.p, b);
      uint64_t hp = hash_bytes(P.p, P.len);
      svp_apply_dft(mod, (VEC_ZNX_DFT*)D.p, res_size, (SVP_PPOL*)P.p, a, a_size, a_sl);
      if (hash_bytes(P.p, P.len) != hp) return c.failf("svp_apply_dft modified the prepared polynomial");
      if (tmp_a)
        vec_znx_idft_tmp_a(mod, (VEC_ZNX_BIG*)G.p, big_size, (VEC_ZNX_DFT*)D.p, res_size);
      else
        vec_znx_idft(mod, (VEC_ZNX_BIG*)G.p, big_size, (VEC_ZNX_DFT*)D.p, res_size, T.p);
      c.notef("svp N=%llu cfg=%s a_size=%llu res_size=%llu big_size=%llu a_sl=N+%lld idft%s b=%s a=%s", (unsigned long long)n,
              mask ? "generic" : "full", (unsigned long long)a_size, (unsigned long long)res_size, (unsigned long long)big_size,
              (long long)v[11], tmp_a ? "_tmp_a" : "", pat::name((int)v[3]), pat::name((int)v[2]));
      const int64_t* g = G.as<int64_t>();
      ProductCheck worst;
      uint64_t nzb = orc::count_nonzero(n, b), nza_min = n;
      bool any = false;
      for (uint64_t i = 0; i < big_size; ++i) {
        if (i < std::min(a_size, res_size)) {
          ProductCheck pc;
          char msg[512];
          if (!check_product(n, a + i * a_sl, b, g + i * n, pc, msg, sizeof msg))
            return c.failf("svp_prepare+svp_apply_dft+vec_znx_idft%s N=%llu cfg=%s row %llu: %s", tmp_a ? "_tmp_a" : "",
                           (unsigned long long)n, mask ? "generic" : "full", (unsigned long long)i, msg);
          if (!any || pc.E > worst.E) worst = pc;
          any = true;
          nza_min = std::min(nza_min, orc::count_nonzero(n, a + i * a_sl));
        } else {
          for (uint64_t q = 0; q < n; ++q)
            if (g[i * n + q] != 0) return c.failf("svp path N=%llu: output row %llu beyond the input size is not exactly zero (coefficient %llu = %lld)",
                                                  (unsigned long long)n, (unsigned long long)i, (unsigned long long)q, (long long)g[i * n + q]);
        }
      }
      if (any) classify(c, k, worst, nza_min, nzb);
      else c.cls("k:" + std::to_string(k));
      c.cls(tmp_a ? "path:svp+idft_tmp_a" : "path:svp+idft");
      c.cls(mask ? "cfg:generic" : "cfg:full");
      if (res_size > a_size) c.cls("res_size>a_size");
      if (big_size > res_size) c.cls("big_size>res_size");
      if (a_size == 0) c.cls("a_size=0");
      if (hash_bytes(b, n * 8) != hb || hash_bytes(A.p, A.len) != ha) return c.failf("svp path modified an integer input");
      if (ar.check_canaries() >= 0) return c.failf("svp path wrote outside a declared extent");
    };
    subs.push_back(s);
  }
  return subs;
}
