from planlib import geo, desc_fuzz

OPS = ["input", "vec_znx_copy", "vec_znx_negate", "vec_znx_rotate", "vec_znx_automorphism", "vec_znx_add", "vec_znx_sub", "normalize_base2k",
       "vec_znx_dft", "vec_znx_idft", "vec_znx_idft_tmp_a", "svp_prepare", "svp_apply_dft", "vmp_prepare_contiguous", "vmp_apply_dft",
       "vmp_apply_dft_to_dft", "znx_small_single_product", "vec_znx_big_add", "vec_znx_big_add_small", "vec_znx_big_add_small2",
       "vec_znx_big_sub", "vec_znx_big_sub_small_a", "vec_znx_big_sub_small_b", "vec_znx_big_sub_small2", "vec_znx_big_rotate",
       "vec_znx_big_automorphism"]


def _jobs(tier):
    mult = 1 if tier == "quick" else 20
    jobs = []
    for k in range(1, 17):
        jobs.append(dict(sub="program", count=geo(k, 400, 6, 8) * mult, fix=dict(k=k, mtype=0), split=(2 if k >= 13 else 1)))
        jobs.append(dict(sub="program", count=geo(k, 150, 6, 3) * mult, fix=dict(k=k, mtype=1)))
    for k in range(0, 17):
        jobs.append(dict(sub="q120chain", count=geo(k, 200, 8, 4) * mult, fix=dict(k=k)))
    return jobs


PLAN_ID = "C16"
PLAN = dict(
    src="props/c16.cpp", flavour="asan", extra_link=["-lgmp"],
    rule="a case is a random well-typed straight-line program (3..40 ops, derived from the descriptor) over typed slots (int64 vectors, big "
         "vectors, DFT vectors, prepared scalars and matrices) of the public MODULE API: coefficient ops, normalize, dft, svp prepare/apply, "
         "vmp prepare/apply_dft/apply_dft_to_dft, idft / idft_tmp_a (consumes its input), big add/sub/mixed/rotate/automorphism, big and range "
         "normalize, small single product, and the key-switch loop motif (several matrices applied to the same input, each product inverted "
         "and normalised); generated shapes, strides, buffer placement (isolated / packed), scratch policy (one shared never-reinitialised "
         "tmp_space for the whole program, or a fresh exactly-sized one per call) and in-place choices; FFT64 full set, NTT120 the subset "
         "that exists, plus the q120 kernel chain from_znx64->ntt->bbb product->intt->to_znx128. The exact interpreter (int128 polynomials, "
         "exact products, C05 digit oracle, C09 index maps) tracks magnitudes and only offers an op if the result stays inside the budget "
         "(FFT64 DFT-space bound sum|x|_1|y|_1 <= 2^40, |x|<=2^61 in coefficient space; NTT120 exact). Every integer output is compared with "
         "the interpreter right after the op that produces it, remaining DFT slots are inverted and compared at the end. "
         "Non-trivial: some slot's lineage contains >=3 of {dft, product, idft, big op, normalize}.",
    assumptions=["FFT64 exactness budget 2^40 on the l1-product bound (conservative: keeps the documented C01 error E far below 1/2)"],
    quick=_jobs("quick"), thorough=_jobs("thorough"),
    fuzz=[dict(target="fuzz/api_program.cpp", corpus="fuzz/corpus/api_program", extra_link=["-lgmp"],
               quick=dict(mode="replay"),
               thorough=dict(mode="campaign", workers=16, runs=150000)),
          desc_fuzz("C16", fix=dict(k=(0, 8)), runs=40000)],
    required_classes=dict(all=["op:" + o for o in OPS] + ["chain:dft->product->idft->bigop->normalize", "module:NTT120", "cfg:generic", "q120chain"]
                          + ["k:%d" % k for k in range(1, 17)] + ["scratch:one-shared-buffer", "scratch:fresh-per-call"]
                          + ["loop:matrices-on-same-input,shared-scratch,k:%d" % k for k in range(1, 10)] + ["loop:matrices-on-same-input,shared-scratch,N>=1024"]),
)
