// C17 — block layouts and complex-vector kernels are faithful and mutually inverse.
//
// subs
//   extract : reim4_extract_1blk_from_reim / _from_contiguous_reim / _from_contiguous_reim_sl / reim4_save_1blk_to_reim
//             (ref and avx): bitwise equal to direct indexing src[row*sl + 4b+t], [.. + m]; save∘extract and extract∘save
//             identities; save touches exactly the 8 target doubles.
//   convert : reim4_from_cplx / reim4_to_cplx (precomp API under both CPU configs, _ref/_fma kernels, _simple): round trips
//             on all m numbers, every output double written (prefill differential); the reim4 pointwise product of two
//             converted vectors converts back to the complex product (so the layout is the one the reim4 kernels use).
//             The order inside a block is never asserted.
//   dot     : reim4_vec_mat1col_product / reim4_vec_mat2cols_product (ref, avx2) vs long double complex dot products.
//   pointwise: reim / reim4 / cplx fftvec mul and addmul (precomp API under both CPU configs, kernels at the sizes at which
//             the dispatcher selects them, _simple, sse / avx512 addmul) vs long double complex arithmetic.
//   convolution: reim4_convolution_{1coeff,2coeff,}_ref vs the header's definition
//             coef(k) = sum_{i+j=k, 0<=i<sizea, 0<=j<sizeb} a[i]*b[j] (lane-wise complex products), 0 for an empty sum.
//
// tolerance of every floating comparison (DESIGN C07/C17): |got - exact| <= gamma * 2^-53 * S, S = sum of the absolute
// values of all products / addends feeding that output component, gamma = 2*terms + 4; plus (terms+2) * 2^-63 * S for the
// rounding of the long double oracle itself.  S == 0  =>  exact zero required.
#include <algorithm>
#include <cmath>
#include <string>

#include "arena.hpp"
#include "harness.hpp"
#include "spq.hpp"

using namespace vh;
const char* vh_property_id = "C17";

typedef long double ld;

static bool host_avx2() {
  static const bool v = __builtin_cpu_supports("avx2") && __builtin_cpu_supports("fma");
  return v;
}
static bool host_avx512() {
  static const bool v = __builtin_cpu_supports("avx512f");
  return v;
}

// ------------------------------------------------------------------------------------------------ error statistics
enum Fam { F_DOT1 = 0, F_DOT2, F_MUL, F_ADDMUL, F_CONV, F_CONVERT, NFAM };
static const char* fam_name[NFAM] = {"mat1col", "mat2cols", "mul", "addmul", "convolution", "convert+mul"};
struct ErrStats {
  double mx[NFAM];
  uint64_t n[NFAM];
  ErrStats() {
    for (int i = 0; i < NFAM; ++i) mx[i] = 0, n[i] = 0;
  }
  ~ErrStats() {
    if (!getenv("VERIF_C17_STATS")) return;
    for (int i = 0; i < NFAM; ++i)
      if (n[i]) fprintf(stderr, "C17STAT %s comparisons=%llu max_err_over_tol=%.6f\n", fam_name[i], (unsigned long long)n[i], mx[i]);
  }
};
static ErrStats g_err;

// one output component: exact value (long double), S, number of terms
struct Acc {
  ld v = 0, S = 0;
  int terms = 0;
  void add(double x) {
    v += x;
    S += fabsl((ld)x);
    ++terms;
  }
  void prod(double x, double y, int sign = 1) {
    ld p = (ld)x * (ld)y;
    v += sign > 0 ? p : -p;
    S += fabsl(p);
    ++terms;
  }
};
struct CAcc {  // complex accumulator: re, im
  Acc re, im;
  void addmul(double ar, double ai, double br, double bi) {
    re.prod(ar, br);
    re.prod(ai, bi, -1);
    im.prod(ar, bi);
    im.prod(ai, br);
  }
};

// per-case tracker of the worst err/tol ratio
struct Worst {
  double r = 0;
  bool any = false;
};

// returns true when got is acceptable
static bool close_enough(double got, const Acc& a, int fam, Worst& w) {
  static const ld u = ldexpl(1.0L, -53), u63 = ldexpl(1.0L, -63);
  const ld gamma = 2.0L * a.terms + 4.0L;
  const ld tol_stmt = gamma * u * a.S;
  const ld tol = tol_stmt + (ld)(a.terms + 2) * u63 * a.S;
  if (!std::isfinite(got)) return false;
  const ld err = fabsl((ld)got - a.v);
  if (!(err <= tol)) return false;
  double ratio = a.S > 0 ? (double)(err / tol_stmt) : 0.0;
  g_err.n[fam]++;
  if (ratio > g_err.mx[fam]) g_err.mx[fam] = ratio;
  if (ratio > w.r) w.r = ratio;
  w.any = true;
  return true;
}
static void ratio_class(Ctx& c, int fam, const Worst& w) {
  if (!w.any) return;
  std::string b;
  if (w.r == 0)
    b = "exact";
  else {
    int k = (int)std::floor(-std::log2(w.r));
    if (k < 0) k = 0;
    if (k > 6) k = 6;
    b = "<=2^-" + std::to_string(k);
  }
  c.cls(std::string("err/tol:") + fam_name[fam] + ":" + b);
}

// ------------------------------------------------------------------------------------------------ value families
enum VFam { V_UNIT = 0, V_DYN, V_ZEROS, V_INT, V_POW2, V_CANCEL, NVFAM };
static const char* vfam_name[NVFAM] = {"unit", "dynamic-range", "signed-zeros", "integers", "pow2", "cancelling"};

static double gen_val(Rng& r, int fam) {
  switch (fam) {
    case V_DYN: {
      double x = r.sunit();
      if (x == 0) x = 0.5;
      return std::ldexp(x, (int)r.below(501) - 250);  // |x| in [2^-302, 2^250): every product stays normal
    }
    case V_ZEROS: {
      uint64_t k = r.below(4);
      return k == 0 ? 0.0 : k == 1 ? -0.0 : r.sunit();
    }
    case V_INT:
      return (double)r.sym(1 << 20);
    case V_POW2: {
      double x = std::ldexp(1.0, (int)r.below(401) - 200);
      return (r.next() & 1) ? -x : x;
    }
    default:
      return r.sunit();
  }
}
static void gen_vec(double* p, size_t n, Rng& r, int fam) {
  for (size_t i = 0; i < n; ++i) p[i] = gen_val(r, fam == V_CANCEL ? V_UNIT : fam);
}
// finite doubles over the whole normal range + signed zeros: for the bitwise (data movement) checks
static void gen_bits(double* p, size_t n, Rng& r, int fam) {
  if (fam == 0) {  // injective index probe
    double c = 1 + (double)r.below(1000), d = (double)r.below(1000) + 0.25;
    for (size_t i = 0; i < n; ++i) p[i] = (double)(i + 1) * c + d;
    return;
  }
  for (size_t i = 0; i < n; ++i) {
    uint64_t x = r.next();
    uint64_t e = 1 + (((x >> 52 & 0x7FF) * 2046) >> 11);  // 1..2046: finite, normal
    x = (x & 0x800FFFFFFFFFFFFFull) | (e << 52);
    if (fam == 2 && (x & 7) == 0) x &= 0x8000000000000000ull;  // +-0
    memcpy(&p[i], &x, 8);
  }
}
static bool same_bits(const double* a, const double* b, size_t n, size_t* idx) {
  if (memcmp(a, b, n * 8) == 0) return true;
  for (size_t i = 0; i < n; ++i)
    if (memcmp(a + i, b + i, 8) != 0) {
      *idx = i;
      return false;
    }
  return true;
}
// snapshot hash of const operands (word-wise: fnv1a byte-wise costs more than the kernels on 8 MB operands)
static uint64_t snap(const void* p, size_t n) {
  const uint8_t* c = (const uint8_t*)p;
  uint64_t h = 0x243F6A8885A308D3ull ^ n;
  size_t i = 0;
  for (; i + 8 <= n; i += 8) {
    uint64_t w;
    memcpy(&w, c + i, 8);
    h = (h ^ w) * 0x9E3779B97F4A7C15ull;
    h ^= h >> 29;
  }
  if (i < n) h = vh::fnv1a(c + i, n - i, h);
  return h;
}
static bool any_nonzero(const double* p, size_t n) {
  for (size_t i = 0; i < n; ++i)
    if (p[i] != 0) return true;
  return false;
}
static int amode(Rng& r) { return (int)r.below(3); }  // OVER / UNDER / MID
static size_t amis(Rng& r) { return 8 * (size_t)r.below(8); }

static std::string mclass(uint64_t m) { return m == 4 ? "m=4" : m == 8 ? "m=8" : m >= 4096 ? "m>=4096" : m < 4 ? "m<4" : "m:16..2048"; }

struct FieldIdx {
  std::vector<Field> f;
  const Vals* v = nullptr;
  int64_t operator()(const char* n) const {
    for (size_t i = 0; i < f.size(); ++i)
      if (f[i].name == n) return (*v)[i];
    fprintf(stderr, "c17: unknown field %s\n", n);
    abort();
  }
};

// ================================================================================================ extract / save
typedef void (*EXTRACT1_F)(uint64_t, uint64_t, double*, const double*);
typedef void (*EXTRACTC_F)(uint64_t, uint64_t, uint64_t, double*, const double*);
typedef void (*EXTRACTS_F)(uint64_t, uint64_t, uint64_t, uint64_t, double*, const double*);
typedef void (*SAVE_F)(uint64_t, uint64_t, double*, const double*);

static void run_extract(const FieldIdx& A, Ctx& c) {
  const uint64_t m = 1ull << A("k");
  const uint64_t nblk = m / 4;
  const uint64_t rows_max = m <= 16 ? 2 * m : 8;
  uint64_t nrows = (uint64_t)A("nrows");
  if (nrows > rows_max) nrows %= (rows_max + 1);
  const uint64_t sl = 2 * m + (uint64_t)A("sl_extra");
  int variant = (int)A("variant");  // bit0: extract functions avx, bit1: save avx
  const int prefill = (int)A("prefill"), vfam = (int)A("vfam");
  const uint64_t seed = (uint64_t)A("seed");
  Rng r(seed);
  if (!host_avx2()) {
    if (variant) c.cls("skipped:avx");
    variant = 0;
  }
  const bool xavx = variant & 1, savx = variant & 2;
  EXTRACT1_F ex1 = xavx ? reim4_extract_1blk_from_reim_avx : reim4_extract_1blk_from_reim_ref;
  EXTRACTC_F exc = xavx ? reim4_extract_1blk_from_contiguous_reim_avx : reim4_extract_1blk_from_contiguous_reim_ref;
  EXTRACTS_F exs = xavx ? reim4_extract_1blk_from_contiguous_reim_sl_avx : reim4_extract_1blk_from_contiguous_reim_sl_ref;
  SAVE_F sav = savx ? reim4_save_1blk_to_reim_avx : reim4_save_1blk_to_reim_ref;
  const char* xs = xavx ? "avx" : "ref";
  const char* ss = savx ? "avx" : "ref";

  // block indices under test
  std::vector<uint64_t> blks;
  if (m <= 256) {
    for (uint64_t b = 0; b < nblk; ++b) blks.push_back(b);
  } else {
    const int bsel = (int)A("bsel");
    uint64_t b = bsel == 0 ? 0 : bsel == 1 ? nblk - 1 : (uint64_t)A("blkr") % nblk;
    blks.push_back(b);
    if (b != nblk - 1) blks.push_back(nblk - 1);
    if (b != 0) blks.push_back(0);
  }
  uint64_t maxblk = 0;
  for (uint64_t b : blks) maxblk = std::max(maxblk, b);

  Arena ar;
  // exact extents: any read outside the vector(s) faults on a guard page
  Buf VEC = ar.alloc(2 * m * 8, amode(r), amis(r));
  Buf SRCC = ar.alloc(nrows * 2 * m * 8, amode(r), amis(r));
  Buf SRCS = ar.alloc(nrows ? ((nrows - 1) * sl + 2 * m) * 8 : 0, amode(r), amis(r));
  Buf DSTV = ar.alloc(2 * m * 8, amode(r), amis(r), prefill, seed + 11);
  Buf D1 = ar.alloc(8 * 8, amode(r), amis(r), prefill, seed + 1);
  Buf DC = ar.alloc(nrows * 8 * 8, amode(r), amis(r), prefill + 1, seed + 2);
  Buf DS = ar.alloc(nrows * 8 * 8, amode(r), amis(r), prefill + 2, seed + 3);
  Buf BLK = ar.alloc(8 * 8, amode(r), amis(r));
  double *vec = VEC.as<double>(), *srcc = SRCC.as<double>(), *srcs = SRCS.as<double>(), *dstv = DSTV.as<double>();
  double *d1 = D1.as<double>(), *dc = DC.as<double>(), *ds = DS.as<double>(), *blkd = BLK.as<double>();
  gen_bits(vec, 2 * m, r, vfam);
  gen_bits(srcc, SRCC.len / 8, r, vfam);
  gen_bits(srcs, SRCS.len / 8, r, vfam);
  const uint64_t hvec = snap(vec, VEC.len), hc = snap(srcc, SRCC.len), hs = snap(srcs, SRCS.len);
  std::vector<double> before(2 * m), expect(2 * m), tmp8(8);

  c.notef("extract/save m=%llu nrows=%llu sl=%llu blocks=%zu (max %llu) extract=%s save=%s vfam=%d prefill=%d", (unsigned long long)m,
          (unsigned long long)nrows, (unsigned long long)sl, blks.size(), (unsigned long long)maxblk, xs, ss, vfam, prefill);

  for (uint64_t b : blks) {
    size_t idx;
    // ---- single vector
    Arena::fill(D1.p, 64, prefill, seed + b);
    ex1(m, b, d1, vec);
    for (int t = 0; t < 4; ++t) {
      if (memcmp(&d1[t], &vec[4 * b + t], 8) != 0)
        return c.failf("reim4_extract_1blk_from_reim_%s m=%llu blk=%llu: dst[%d]=%a, expected src[%llu]=%a (real part of evaluation %llu)", xs,
                       (unsigned long long)m, (unsigned long long)b, t, d1[t], (unsigned long long)(4 * b + t), vec[4 * b + t],
                       (unsigned long long)(4 * b + t));
      if (memcmp(&d1[4 + t], &vec[m + 4 * b + t], 8) != 0)
        return c.failf("reim4_extract_1blk_from_reim_%s m=%llu blk=%llu: dst[%d]=%a, expected src[m+%llu]=%a (imaginary part of evaluation %llu)",
                       xs, (unsigned long long)m, (unsigned long long)b, 4 + t, d1[4 + t], (unsigned long long)(4 * b + t), vec[m + 4 * b + t],
                       (unsigned long long)(4 * b + t));
    }
    // ---- save∘extract: saving the extracted block back into a copy changes nothing
    memcpy(dstv, vec, 2 * m * 8);
    sav(m, b, dstv, d1);
    if (!same_bits(dstv, vec, 2 * m, &idx))
      return c.failf("save_%s(extract_%s(v,blk)) != v: m=%llu blk=%llu: v[%zu]=%a became %a", ss, xs, (unsigned long long)m, (unsigned long long)b, idx,
                     vec[idx], dstv[idx]);
    // ---- save writes exactly the 8 target doubles
    Arena::fill(DSTV.p, DSTV.len, prefill, seed + 11 + b);
    memcpy(before.data(), dstv, 2 * m * 8);
    gen_bits(blkd, 8, r, vfam ? vfam : 1);
    const uint64_t hb = snap(blkd, 64);
    sav(m, b, dstv, blkd);
    expect = before;
    for (int t = 0; t < 4; ++t) expect[4 * b + t] = blkd[t], expect[m + 4 * b + t] = blkd[4 + t];
    if (!same_bits(dstv, expect.data(), 2 * m, &idx)) {
      bool target = (idx >= 4 * b && idx < 4 * b + 4) || (idx >= m + 4 * b && idx < m + 4 * b + 4);
      return c.failf("reim4_save_1blk_to_reim_%s m=%llu blk=%llu: dest[%zu]=%a, expected %a (%s; block = {%a,%a,%a,%a | %a,%a,%a,%a})", ss,
                     (unsigned long long)m, (unsigned long long)b, idx, dstv[idx], expect[idx],
                     target ? "target double of the block" : "double outside the block must stay unchanged", blkd[0], blkd[1], blkd[2], blkd[3],
                     blkd[4], blkd[5], blkd[6], blkd[7]);
    }
    if (snap(blkd, 64) != hb) return c.failf("reim4_save_1blk_to_reim_%s modified its source block", ss);
    // ---- extract∘save
    ex1(m, b, tmp8.data(), dstv);
    if (!same_bits(tmp8.data(), blkd, 8, &idx))
      return c.failf("extract_%s(save_%s(v,blk,x),blk) != x: m=%llu blk=%llu: component %zu is %a, saved %a", xs, ss, (unsigned long long)m,
                     (unsigned long long)b, idx, tmp8[idx], blkd[idx]);
    // ---- contiguous rows (row stride 2m)
    Arena::fill(DC.p, DC.len, prefill + 1, seed + b);
    exc(m, nrows, b, dc, srcc);
    for (uint64_t i = 0; i < nrows; ++i)
      for (int t = 0; t < 8; ++t) {
        const uint64_t si = i * 2 * m + (t < 4 ? 0 : m) + 4 * b + (t & 3);
        if (memcmp(&dc[8 * i + t], &srcc[si], 8) != 0)
          return c.failf("reim4_extract_1blk_from_contiguous_reim_%s m=%llu nrows=%llu blk=%llu: dst[row %llu][%d]=%a, expected src[%llu]=%a", xs,
                         (unsigned long long)m, (unsigned long long)nrows, (unsigned long long)b, (unsigned long long)i, t, dc[8 * i + t],
                         (unsigned long long)si, srcc[si]);
      }
    // ---- strided rows (row stride sl)
    Arena::fill(DS.p, DS.len, prefill + 2, seed + b);
    exs(m, sl, nrows, b, ds, srcs);
    for (uint64_t i = 0; i < nrows; ++i)
      for (int t = 0; t < 8; ++t) {
        const uint64_t si = i * sl + (t < 4 ? 0 : m) + 4 * b + (t & 3);
        if (memcmp(&ds[8 * i + t], &srcs[si], 8) != 0)
          return c.failf("reim4_extract_1blk_from_contiguous_reim_sl_%s m=%llu sl=%llu nrows=%llu blk=%llu: dst[row %llu][%d]=%a, expected src[%llu]=%a",
                         xs, (unsigned long long)m, (unsigned long long)sl, (unsigned long long)nrows, (unsigned long long)b, (unsigned long long)i, t,
                         ds[8 * i + t], (unsigned long long)si, srcs[si]);
      }
  }
  if (snap(vec, VEC.len) != hvec || snap(srcc, SRCC.len) != hc || snap(srcs, SRCS.len) != hs)
    return c.failf("an extraction kernel (%s) modified its source vector (m=%llu)", xs, (unsigned long long)m);
  if (ar.check_canaries() >= 0)
    return c.failf("extract_%s/save_%s wrote outside its destination (m=%llu nrows=%llu sl=%llu)", xs, ss, (unsigned long long)m,
                   (unsigned long long)nrows, (unsigned long long)sl);

  c.nontrivial = (m >= 8 && maxblk >= 1) || nrows >= 2;
  c.cls(std::string("extract:") + xs);
  c.cls(std::string("save:") + ss);
  c.cls(mclass(m));
  c.cls("k:" + std::to_string(A("k")));
  if (nrows == 0) c.cls("rows=0");
  if (nrows == 1) c.cls("rows=1");
  if (nrows >= 2) c.cls("rows>=2");
  if (nrows > 8) c.cls("rows>8");
  if (sl == 2 * m) c.cls("sl=2m");
  if (sl > 2 * m) c.cls("sl>2m");
  if (m > 256) {
    c.cls("blk:generated");
    if (blks[0] != 0 && blks[0] != nblk - 1) c.cls("blk:interior");
  } else
    c.cls("blk:all");
}

// ================================================================================================ conversions
enum ConvEntry { E_API_FULL = 0, E_API_GENERIC, E_REF, E_FMA, E_SIMPLE, N_CONV_ENTRY };
static const char* centry_name[N_CONV_ENTRY] = {"api(full)", "api(generic)", "_ref", "_fma", "_simple"};

static void call_from_cplx(int e, uint32_t m, double* r, const void* a) {
  switch (e) {
    case E_API_FULL:
    case E_API_GENERIC: {
      REIM4_FROM_CPLX_PRECOMP* p;
      {
        spq::MaskGuard g(e == E_API_FULL ? spq::FULL : spq::GENERIC);
        p = new_reim4_from_cplx_precomp(m);
      }
      reim4_from_cplx(p, r, a);
      delete_reim4_from_cplx_precomp(p);
      break;
    }
    case E_REF:
    case E_FMA: {
      REIM4_FROM_CPLX_PRECOMP p;
      p.function = nullptr;
      p.m = m;
      (e == E_REF ? reim4_from_cplx_ref : reim4_from_cplx_fma)(&p, r, a);
      break;
    }
    default:
      reim4_from_cplx_simple(m, r, a);
  }
}
static void call_to_cplx(int e, uint32_t m, void* r, const double* a) {
  switch (e) {
    case E_API_FULL:
    case E_API_GENERIC: {
      REIM4_TO_CPLX_PRECOMP* p;
      {
        spq::MaskGuard g(e == E_API_FULL ? spq::FULL : spq::GENERIC);
        p = new_reim4_to_cplx_precomp(m);
      }
      reim4_to_cplx(p, r, a);
      delete_reim4_to_cplx_precomp(p);
      break;
    }
    case E_REF:
    case E_FMA: {
      REIM4_TO_CPLX_PRECOMP p;
      p.function = nullptr;
      p.m = m;
      (e == E_REF ? reim4_to_cplx_ref : reim4_to_cplx_fma)(&p, r, a);
      break;
    }
    default:
      reim4_to_cplx_simple(m, r, a);
  }
}

static void run_convert(const FieldIdx& A, Ctx& c) {
  const uint64_t m = 1ull << A("k");
  int fe = (int)A("from_entry"), te = (int)A("to_entry");
  const int vfam = (int)A("vfam");
  const int p1 = (int)A("prefill"), p2 = (p1 + 1 + (int)A("prefill2")) & 3;  // two different prefills
  const uint64_t seed = (uint64_t)A("seed");
  Rng r(seed);
  // _fma kernels: selected by the dispatchers for every m >= 4 (from) / m >= 2 (to) when the CPU has FMA
  if (!host_avx2()) {
    if (fe == E_FMA) fe = E_REF, c.cls("skipped:avx");
    if (te == E_FMA) te = E_REF, c.cls("skipped:avx");
  }
  Arena ar;
  const size_t B = 2 * m * 8;
  Buf X = ar.alloc(B, amode(r), amis(r)), Y1 = ar.alloc(B, amode(r), amis(r), p1, seed + 1), Y2 = ar.alloc(B, amode(r), amis(r), p2, seed + 2);
  Buf Z = ar.alloc(B, amode(r), amis(r), p1 + 2, seed + 3);
  double *x = X.as<double>(), *y1 = Y1.as<double>(), *y2 = Y2.as<double>(), *z = Z.as<double>();
  gen_bits(x, 2 * m, r, vfam);
  const uint64_t hx = snap(x, B);
  size_t idx;
  c.notef("reim4_from_cplx%s / reim4_to_cplx%s m=%llu vfam=%d prefills=%d,%d", centry_name[fe], centry_name[te], (unsigned long long)m, vfam, p1, p2);

  // (1) from_cplx writes every output double: same call, two different prefills of the destination
  call_from_cplx(fe, (uint32_t)m, y1, x);
  call_from_cplx(fe, (uint32_t)m, y2, x);
  if (!same_bits(y1, y2, 2 * m, &idx))
    return c.failf("reim4_from_cplx%s m=%llu: output double %zu (block %zu) depends on the previous contents of the destination (%a vs %a): not every "
                   "output is written",
                   centry_name[fe], (unsigned long long)m, idx, idx / 8, y1[idx], y2[idx]);
  if (snap(x, B) != hx) return c.failf("reim4_from_cplx%s modified its input", centry_name[fe]);
  // (2) to_cplx(from_cplx(x)) == x on all m numbers
  const uint64_t hy = snap(y1, B);
  call_to_cplx(te, (uint32_t)m, z, y1);
  if (!same_bits(z, x, 2 * m, &idx))
    return c.failf("reim4_to_cplx%s(reim4_from_cplx%s(x)) != x: m=%llu complex number %zu %s part: got %a, expected %a", centry_name[te],
                   centry_name[fe], (unsigned long long)m, idx / 2, idx & 1 ? "imaginary" : "real", z[idx], x[idx]);
  if (snap(y1, B) != hy) return c.failf("reim4_to_cplx%s modified its input", centry_name[te]);
  // (3) from_cplx(to_cplx(y)) == y for an arbitrary reim4 vector y; to_cplx writes every output double
  gen_bits(y1, 2 * m, r, vfam ? vfam : 1);
  Arena::fill(Z.p, B, p1, seed + 4);
  call_to_cplx(te, (uint32_t)m, z, y1);
  Arena::fill(X.p, B, p2, seed + 5);
  call_to_cplx(te, (uint32_t)m, x, y1);
  if (!same_bits(z, x, 2 * m, &idx))
    return c.failf("reim4_to_cplx%s m=%llu: output double %zu depends on the previous contents of the destination (%a vs %a): not every output is "
                   "written",
                   centry_name[te], (unsigned long long)m, idx, z[idx], x[idx]);
  Arena::fill(Y2.p, B, p2 + 1, seed + 6);
  call_from_cplx(fe, (uint32_t)m, y2, z);
  if (!same_bits(y2, y1, 2 * m, &idx))
    return c.failf("reim4_from_cplx%s(reim4_to_cplx%s(y)) != y: m=%llu double %zu (block %zu): got %a, expected %a", centry_name[fe], centry_name[te],
                   (unsigned long long)m, idx, idx / 8, y2[idx], y1[idx]);

  // (4) the 4-block layout is the one the reim4 kernels compute on:
  //     to_cplx(reim4_fftvec_mul_ref(from_cplx(a), from_cplx(b))) == a*b (complex, element-wise) within the mul tolerance
  {
    Buf Aa = ar.alloc(B, OVER), Bb = ar.alloc(B, UNDER), RA = ar.alloc(B, OVER, 0, 1), RB = ar.alloc(B, OVER, 0, 2), RR = ar.alloc(B, OVER, 0, 1);
    Buf CC = ar.alloc(B, OVER, 0, 1);
    double *a = Aa.as<double>(), *b = Bb.as<double>(), *cc = CC.as<double>();
    const int vf = vfam % 3 == 0 ? V_UNIT : vfam % 3 == 1 ? V_DYN : V_ZEROS;
    gen_vec(a, 2 * m, r, vf);
    gen_vec(b, 2 * m, r, vf);
    call_from_cplx(fe, (uint32_t)m, RA.as<double>(), a);
    call_from_cplx(fe, (uint32_t)m, RB.as<double>(), b);
    REIM4_FFTVEC_MUL_PRECOMP mp;
    mp.function = nullptr;
    mp.m = (int64_t)m;
    reim4_fftvec_mul_ref(&mp, RR.as<double>(), RA.as<double>(), RB.as<double>());
    call_to_cplx(te, (uint32_t)m, cc, RR.as<double>());
    Worst w;
    for (uint64_t i = 0; i < m; ++i) {
      CAcc e;
      e.addmul(a[2 * i], a[2 * i + 1], b[2 * i], b[2 * i + 1]);
      if (!close_enough(cc[2 * i], e.re, F_CONVERT, w) || !close_enough(cc[2 * i + 1], e.im, F_CONVERT, w))
        return c.failf("to_cplx%s(reim4_mul(from_cplx%s(a),from_cplx%s(b))) m=%llu element %llu: (%a,%a)*(%a,%a) gave (%a,%a), exact (%La,%La): the "
                       "conversion does not produce the layout the reim4 kernels operate on",
                       centry_name[te], centry_name[fe], centry_name[fe], (unsigned long long)m, (unsigned long long)i, a[2 * i], a[2 * i + 1], b[2 * i],
                       b[2 * i + 1], cc[2 * i], cc[2 * i + 1], e.re.v, e.im.v);
    }
    ratio_class(c, F_CONVERT, w);
  }
  if (ar.check_canaries() >= 0) return c.failf("reim4_from_cplx%s / reim4_to_cplx%s wrote outside the 2m doubles (m=%llu)", centry_name[fe], centry_name[te], (unsigned long long)m);
  c.nontrivial = m >= 8;
  c.cls(std::string("from_cplx:") + centry_name[fe]);
  c.cls(std::string("to_cplx:") + centry_name[te]);
  c.cls(mclass(m));
  c.cls("k:" + std::to_string(A("k")));
}

// ================================================================================================ dot products
// the documented single-element primitives of reim4_arithmetic.h: dest = 0, dest = a + b, dest = a * b, dest += a * b on one reim4
// element (4 complex numbers, re0..re3 im0..im3); alias 1/2: dest is the first / second operand (element-wise, so well defined)
static void run_elem(const FieldIdx& A, Ctx& c) {
  const int op = (int)A("op"), alias = (int)A("alias"), vfam = (int)A("vfam"), prefill = (int)A("prefill");
  Rng r((uint64_t)A("seed"));
  Arena ar;
  Buf U = ar.alloc(64, amode(r), amis(r)), V = ar.alloc(64, amode(r), amis(r)), D = ar.alloc(64, amode(r), amis(r), prefill, (uint64_t)A("seed"));
  double *u = U.as<double>(), *v = V.as<double>(), *d = D.as<double>();
  gen_vec(u, 8, r, vfam);
  gen_vec(v, 8, r, vfam);
  if (op == 3) gen_vec(d, 8, r, vfam);  // accumulator
  static const char* nm[] = {"reim4_zero", "reim4_add", "reim4_mul", "reim4_add_mul"};
  double* dst = (alias == 1 && (op == 1 || op == 2)) ? u : (alias == 2 && (op == 1 || op == 2)) ? v : d;
  double u0[8], v0[8], d0[8];
  memcpy(u0, u, 64); memcpy(v0, v, 64); memcpy(d0, d, 64);
  Acc e[8];
  for (int t = 0; t < 4; ++t) {
    const double a = u0[t], b = u0[t + 4], cc = v0[t], dd = v0[t + 4];
    switch (op) {
      case 0: break;
      case 1: e[t].add(a); e[t].add(cc); e[t + 4].add(b); e[t + 4].add(dd); break;
      case 3: e[t].add(d0[t]); e[t + 4].add(d0[t + 4]);  // fall through
      default: e[t].prod(a, cc); e[t].prod(b, dd, -1); e[t + 4].prod(a, dd); e[t + 4].prod(b, cc);
    }
  }
  switch (op) {
    case 0: reim4_zero(dst); break;
    case 1: reim4_add(dst, u, v); break;
    case 2: reim4_mul(dst, u, v); break;
    default: reim4_add_mul(dst, u, v);
  }
  c.notef("%s alias=%d vfam=%s", nm[op], alias, vfam_name[vfam]);
  Worst w;
  for (int t = 0; t < 8; ++t) {
    if (op == 0) { if (dst[t] != 0.0 || std::signbit(dst[t])) return c.failf("reim4_zero: dest[%d] = %a", t, dst[t]); continue; }
    if (!close_enough(dst[t], e[t], op == 3 ? F_ADDMUL : F_MUL, w))
      return c.failf("%s alias=%d: dest[%d] = %a, exact %La, S=%La, allowed (2*terms+4)*2^-53*S", nm[op], alias, t, dst[t], e[t].v, e[t].S);
  }
  if (dst != u && memcmp(u, u0, 64)) return c.failf("%s modified its first operand", nm[op]);
  if (dst != v && memcmp(v, v0, 64)) return c.failf("%s modified its second operand", nm[op]);
  if (ar.check_canaries() >= 0) return c.failf("%s wrote outside its 8 doubles", nm[op]);
  c.nontrivial = op >= 1;
  c.cls(std::string("elem:") + nm[op]);
}

static void run_dot(const FieldIdx& A, Ctx& c) {
  const uint64_t nrows = (uint64_t)A("nrows");
  const int vfam = (int)A("vfam"), prefill = (int)A("prefill");
  const uint64_t seed = (uint64_t)A("seed");
  Rng r(seed);
  Arena ar;
  Buf U = ar.alloc(nrows * 64, amode(r), amis(r)), V1 = ar.alloc(nrows * 64, amode(r), amis(r)), V2 = ar.alloc(nrows * 128, amode(r), amis(r));
  double *u = U.as<double>(), *v1 = V1.as<double>(), *v2 = V2.as<double>();
  gen_vec(u, nrows * 8, r, vfam);
  gen_vec(v1, nrows * 8, r, vfam);
  gen_vec(v2, nrows * 16, r, vfam);
  if (vfam == V_CANCEL) {  // consecutive row pairs cancel exactly: result ~ 0 while S is large
    for (uint64_t i = 0; i + 1 < nrows; i += 2) {
      for (int t = 0; t < 8; ++t) u[8 * (i + 1) + t] = u[8 * i + t], v1[8 * (i + 1) + t] = -v1[8 * i + t];
      for (int t = 0; t < 16; ++t) v2[16 * (i + 1) + t] = -v2[16 * i + t];
    }
  }
  const uint64_t hu = snap(u, U.len), h1 = snap(v1, V1.len), h2 = snap(v2, V2.len);
  // oracle
  CAcc e1[4], e2[2][4];
  for (uint64_t i = 0; i < nrows; ++i)
    for (int t = 0; t < 4; ++t) {
      e1[t].addmul(u[8 * i + t], u[8 * i + 4 + t], v1[8 * i + t], v1[8 * i + 4 + t]);
      for (int col = 0; col < 2; ++col) e2[col][t].addmul(u[8 * i + t], u[8 * i + 4 + t], v2[16 * i + 8 * col + t], v2[16 * i + 8 * col + 4 + t]);
    }
  c.notef("reim4_vec_mat1col/mat2cols_product nrows=%llu vfam=%s prefill=%d", (unsigned long long)nrows, vfam_name[vfam], prefill);
  Worst w1, w2;
  for (int avx = 0; avx < 2; ++avx) {
    if (avx && !host_avx2()) {
      c.cls("skipped:avx");
      continue;
    }
    const char* vs = avx ? "avx2" : "ref";
    Buf D1 = ar.alloc(64, amode(r), amis(r), prefill + avx, seed + 1), D2 = ar.alloc(128, amode(r), amis(r), prefill + 1 + avx, seed + 2);
    double *d1 = D1.as<double>(), *d2 = D2.as<double>();
    (avx ? reim4_vec_mat1col_product_avx2 : reim4_vec_mat1col_product_ref)(nrows, d1, u, v1);
    (avx ? reim4_vec_mat2cols_product_avx2 : reim4_vec_mat2cols_product_ref)(nrows, d2, u, v2);
    for (int t = 0; t < 8; ++t) {
      const Acc& e = t < 4 ? e1[t].re : e1[t - 4].im;
      if (!close_enough(d1[t], e, F_DOT1, w1))
        return c.failf("reim4_vec_mat1col_product_%s nrows=%llu: dst[%d] (%s of lane %d) = %a, exact %La, S=%La, allowed %d*2^-53*S%s", vs,
                       (unsigned long long)nrows, t, t < 4 ? "re" : "im", t & 3, d1[t], e.v, e.S, 2 * e.terms + 4,
                       nrows == 0 ? " (0 rows: must be exactly zero)" : "");
    }
    for (int t = 0; t < 16; ++t) {
      const int col = t / 8, q = t % 8;
      const Acc& e = q < 4 ? e2[col][q].re : e2[col][q - 4].im;
      if (!close_enough(d2[t], e, F_DOT2, w2))
        return c.failf("reim4_vec_mat2cols_product_%s nrows=%llu: dst[%d] (column %d, %s of lane %d) = %a, exact %La, S=%La, allowed %d*2^-53*S%s", vs,
                       (unsigned long long)nrows, t, col, q < 4 ? "re" : "im", q & 3, d2[t], e.v, e.S, 2 * e.terms + 4,
                       nrows == 0 ? " (0 rows: must be exactly zero)" : "");
    }
    c.cls(std::string("dot:") + vs);
  }
  if (snap(u, U.len) != hu || snap(v1, V1.len) != h1 || snap(v2, V2.len) != h2)
    return c.failf("a reim4 dot product modified its inputs (nrows=%llu)", (unsigned long long)nrows);
  if (ar.check_canaries() >= 0) return c.failf("a reim4 dot product wrote outside dst (nrows=%llu)", (unsigned long long)nrows);
  ratio_class(c, F_DOT1, w1);
  ratio_class(c, F_DOT2, w2);
  c.nontrivial = nrows >= 2 && any_nonzero(u, nrows * 8) && any_nonzero(v2, nrows * 16);
  if (nrows == 0) c.cls("rows=0");
  if (nrows == 1) c.cls("rows=1");
  if (nrows >= 2) c.cls("rows>=2");
  if (nrows == 64) c.cls("rows=64");
  c.cls(std::string("vfam:") + vfam_name[vfam]);
}

// ================================================================================================ pointwise kernels
enum Layout { L_REIM = 0, L_REIM4, L_CPLX };
static const char* layout_name[] = {"reim", "reim4", "cplx"};
enum PEntry { P_API_FULL = 0, P_API_GENERIC, P_REF, P_FMA, P_SIMPLE, P_SSE, P_AVX512, N_PENTRY };
static const char* pentry_name[N_PENTRY] = {"api(full)", "api(generic)", "_ref", "_fma", "_simple", "_sse", "_avx512"};

// is `e` callable for (layout, op, m)?  accelerated kernels only at sizes at which the library's dispatcher selects them
// (sse / avx512 addmul are exported but selected by no dispatcher: smallest size their loop structure handles, DESIGN C07)
static bool pentry_ok(int layout, int addmul, uint64_t m, int e, bool* skipped) {
  switch (e) {
    case P_API_FULL:
    case P_API_GENERIC:
    case P_REF:
    case P_SIMPLE:
      return true;
    case P_FMA:
      if (!host_avx2()) {
        *skipped = true;
        return false;
      }
      if (layout == L_REIM) return m >= 4;   // new_reim_fftvec_{mul,addmul}_precomp: fma iff m >= 4
      if (layout == L_REIM4) return m >= 4;  // init_reim4_fftvec_mul_precomp: m >= 4; addmul: m >= 2 (reim4 itself needs m >= 4)
      return m >= 8;                         // init_cplx_fftvec_{mul,addmul}_precomp: ref for m <= 4
    case P_SSE:
      if (!host_avx2()) {
        *skipped = true;
        return false;
      }
      return layout == L_CPLX && addmul && m >= 2;
    case P_AVX512:
      if (layout != L_CPLX || !addmul || m < 8) return false;
      if (!host_avx512()) {
        *skipped = true;
        return false;
      }
      return true;
  }
  return false;
}

static void call_pointwise(int layout, int addmul, int e, uint32_t m, double* r, const double* a, const double* b) {
  const unsigned mask = e == P_API_GENERIC ? spq::GENERIC : spq::FULL;
  if (layout == L_REIM) {
    if (!addmul) {
      if (e == P_API_FULL || e == P_API_GENERIC) {
        REIM_FFTVEC_MUL_PRECOMP* p;
        {
          spq::MaskGuard g(mask);
          p = new_reim_fftvec_mul_precomp(m);
        }
        reim_fftvec_mul(p, r, a, b);
        delete_reim_fftvec_mul_precomp(p);
      } else if (e == P_SIMPLE)
        reim_fftvec_mul_simple(m, r, a, b);
      else {
        REIM_FFTVEC_MUL_PRECOMP p;
        p.function = nullptr, p.m = m;
        (e == P_REF ? reim_fftvec_mul_ref : reim_fftvec_mul_fma)(&p, r, a, b);
      }
    } else {
      if (e == P_API_FULL || e == P_API_GENERIC) {
        REIM_FFTVEC_ADDMUL_PRECOMP* p;
        {
          spq::MaskGuard g(mask);
          p = new_reim_fftvec_addmul_precomp(m);
        }
        reim_fftvec_addmul(p, r, a, b);
        delete_reim_fftvec_addmul_precomp(p);
      } else if (e == P_SIMPLE)
        reim_fftvec_addmul_simple(m, r, a, b);
      else {
        REIM_FFTVEC_ADDMUL_PRECOMP p;
        p.function = nullptr, p.m = m;
        (e == P_REF ? reim_fftvec_addmul_ref : reim_fftvec_addmul_fma)(&p, r, a, b);
      }
    }
  } else if (layout == L_REIM4) {
    if (!addmul) {
      if (e == P_API_FULL || e == P_API_GENERIC) {
        REIM4_FFTVEC_MUL_PRECOMP* p;
        {
          spq::MaskGuard g(mask);
          p = new_reim4_fftvec_mul_precomp(m);
        }
        reim4_fftvec_mul(p, r, a, b);
        delete_reim4_fftvec_mul_precomp(p);
      } else if (e == P_SIMPLE)
        reim4_fftvec_mul_simple(m, r, a, b);
      else {
        REIM4_FFTVEC_MUL_PRECOMP p;
        p.function = nullptr, p.m = m;
        (e == P_REF ? reim4_fftvec_mul_ref : reim4_fftvec_mul_fma)(&p, r, a, b);
      }
    } else {
      if (e == P_API_FULL || e == P_API_GENERIC) {
        REIM4_FFTVEC_ADDMUL_PRECOMP* p;
        {
          spq::MaskGuard g(mask);
          p = new_reim4_fftvec_addmul_precomp(m);
        }
        reim4_fftvec_addmul(p, r, a, b);
        delete_reim4_fftvec_addmul_precomp(p);
      } else if (e == P_SIMPLE)
        reim4_fftvec_addmul_simple(m, r, a, b);
      else {
        REIM4_FFTVEC_ADDMUL_PRECOMP p;
        p.function = nullptr, p.m = m;
        (e == P_REF ? reim4_fftvec_addmul_ref : reim4_fftvec_addmul_fma)(&p, r, a, b);
      }
    }
  } else {
    if (!addmul) {
      if (e == P_API_FULL || e == P_API_GENERIC) {
        CPLX_FFTVEC_MUL_PRECOMP* p;
        {
          spq::MaskGuard g(mask);
          p = new_cplx_fftvec_mul_precomp(m);
        }
        cplx_fftvec_mul(p, r, a, b);
        delete_cplx_fftvec_mul_precomp(p);
      } else if (e == P_SIMPLE)
        cplx_fftvec_mul_simple(m, r, a, b);
      else {
        CPLX_FFTVEC_MUL_PRECOMP p;
        p.function = nullptr, p.m = m;
        (e == P_REF ? cplx_fftvec_mul_ref : cplx_fftvec_mul_fma)(&p, r, a, b);
      }
    } else {
      if (e == P_API_FULL || e == P_API_GENERIC) {
        CPLX_FFTVEC_ADDMUL_PRECOMP* p;
        {
          spq::MaskGuard g(mask);
          p = new_cplx_fftvec_addmul_precomp(m);
        }
        cplx_fftvec_addmul(p, r, a, b);
        delete_cplx_fftvec_addmul_precomp(p);
      } else if (e == P_SIMPLE)
        cplx_fftvec_addmul_simple(m, r, a, b);
      else {
        CPLX_FFTVEC_ADDMUL_PRECOMP p;
        p.function = nullptr, p.m = m;
        (e == P_REF ? cplx_fftvec_addmul_ref : e == P_FMA ? cplx_fftvec_addmul_fma : e == P_SSE ? cplx_fftvec_addmul_sse : cplx_fftvec_addmul_avx512)(
            &p, r, a, b);
      }
    }
  }
}

static void run_pointwise(const FieldIdx& A, Ctx& c) {
  const int layout = (int)A("layout"), addmul = (int)A("op");
  uint64_t k = (uint64_t)A("k");
  if (layout == L_REIM4 && k < 2) k = 2;  // reim4 needs m >= 4
  const uint64_t m = 1ull << k;
  const int vfam = (int)A("vfam"), prefill = (int)A("prefill");
  const uint64_t seed = (uint64_t)A("seed");
  Rng r(seed);
  // available entry points for this (layout, op, m)
  std::vector<int> av;
  bool skipped = false;
  for (int e = 0; e < N_PENTRY; ++e)
    if (pentry_ok(layout, addmul, m, e, &skipped)) av.push_back(e);
  if (skipped) c.cls(host_avx2() ? "skipped:avx512" : "skipped:avx");
  const int e = av[(size_t)A("entry") % av.size()];
  const std::string kname = std::string(layout_name[layout]) + "_fftvec_" + (addmul ? "addmul" : "mul") + pentry_name[e];

  Arena ar;
  const size_t B = 2 * m * 8;
  Buf Aa = ar.alloc(B, amode(r), amis(r)), Bb = ar.alloc(B, amode(r), amis(r)), R = ar.alloc(B, amode(r), amis(r), addmul ? 0 : prefill, seed + 1);
  double *a = Aa.as<double>(), *b = Bb.as<double>(), *res = R.as<double>();
  gen_vec(a, 2 * m, r, vfam);
  gen_vec(b, 2 * m, r, vfam);
  // index of (re, im) of element i in each layout
  auto re_idx = [&](uint64_t i) { return layout == L_REIM ? i : layout == L_REIM4 ? (i / 4) * 8 + (i & 3) : 2 * i; };
  auto im_idx = [&](uint64_t i) { return layout == L_REIM ? i + m : layout == L_REIM4 ? (i / 4) * 8 + 4 + (i & 3) : 2 * i + 1; };
  if (vfam == V_CANCEL)  // a=(x,x), b=(y,y): re = xy - xy (what remains is exactly the fma/non-fma rounding difference); im = 2xy
    for (uint64_t i = 0; i < m; ++i) a[im_idx(i)] = a[re_idx(i)], b[im_idx(i)] = b[re_idx(i)];
  std::vector<double> r0(2 * m, 0.0);
  if (addmul) {
    if (vfam == V_DYN) {
      for (uint64_t i = 0; i < 2 * m; ++i) {
        double x = gen_val(r, V_DYN);
        r0[i] = (r.next() & 1) ? x * gen_val(r, V_DYN) : x;  // accumulators on the scale of the products as well
      }
    } else if (vfam == V_CANCEL) {
      for (uint64_t i = 0; i < m; ++i) {  // accumulator = -(rounded product): the sum cancels to rounding level
        r0[re_idx(i)] = r.sunit();
        r0[im_idx(i)] = -2.0 * a[re_idx(i)] * b[re_idx(i)];
      }
    } else
      gen_vec(r0.data(), 2 * m, r, vfam);
    memcpy(res, r0.data(), B);
  }
  // one case in three writes the result over an operand (the supported in-place forms r == a and r == b; for the multiply-accumulate
  // the aliased operand is then also the accumulator): the definition is evaluated on copies taken before the call
  const int alias = (int)((seed >> 41) % 6);  // 1: r == a, 2: r == b, others: separate output
  std::vector<double> a0v(a, a + 2 * m), b0v(b, b + 2 * m);
  if (alias == 1) { res = a; if (addmul) r0 = a0v; }
  if (alias == 2) { res = b; if (addmul) r0 = b0v; }
  const uint64_t ha = snap(a, B), hb = snap(b, B);
  c.notef("%s m=%llu vfam=%s prefill=%d%s", kname.c_str(), (unsigned long long)m, vfam_name[vfam], prefill, alias == 1 ? " r==a" : alias == 2 ? " r==b" : "");
  call_pointwise(layout, addmul, e, (uint32_t)m, res, a, b);
  a = a0v.data(), b = b0v.data();  // operand values as they were before the call
  Worst w;
  const int fam = addmul ? F_ADDMUL : F_MUL;
  bool nz = false;
  for (uint64_t i = 0; i < m; ++i) {
    const uint64_t ri = re_idx(i), ii = im_idx(i);
    CAcc ex;
    if (addmul) ex.re.add(r0[ri]), ex.im.add(r0[ii]);
    ex.addmul(a[ri], a[ii], b[ri], b[ii]);
    nz = nz || ex.re.S > 0 || ex.im.S > 0;
    if (!close_enough(res[ri], ex.re, fam, w) || !close_enough(res[ii], ex.im, fam, w)) {
      const bool bad_re = !close_enough(res[ri], ex.re, fam, w);
      return c.failf("%s m=%llu element %llu: r0=(%a,%a) a=(%a,%a) b=(%a,%a): %s part = %a, exact %La, S=%La, allowed %d*2^-53*S", kname.c_str(),
                     (unsigned long long)m, (unsigned long long)i, r0[ri], r0[ii], a[ri], a[ii], b[ri], b[ii], bad_re ? "real" : "imaginary",
                     bad_re ? res[ri] : res[ii], bad_re ? ex.re.v : ex.im.v, bad_re ? ex.re.S : ex.im.S, 2 * (bad_re ? ex.re.terms : ex.im.terms) + 4);
    }
  }
  if ((alias != 1 && snap(Aa.p, B) != ha) || (alias != 2 && snap(Bb.p, B) != hb)) return c.failf("%s modified an input operand (m=%llu)", kname.c_str(), (unsigned long long)m);
  if (alias == 1 || alias == 2) c.cls(alias == 1 ? "pointwise:r==a" : "pointwise:r==b");
  if (ar.check_canaries() >= 0) return c.failf("%s wrote outside the 2m doubles of r (m=%llu)", kname.c_str(), (unsigned long long)m);
  ratio_class(c, fam, w);
  c.nontrivial = nz;
  c.cls("kernel:" + kname);
  c.cls(std::string(layout_name[layout]) + ":" + mclass(m));
  c.cls(std::string(layout_name[layout]) + ":k:" + std::to_string(k));
  c.cls(std::string("vfam:") + vfam_name[vfam]);
  if (e == P_API_GENERIC) c.cls("cfg:generic");
  if (e == P_API_FULL) c.cls("cfg:full");
}

// ================================================================================================ windowed convolution
static void run_convolution(const FieldIdx& A, Ctx& c) {
  const uint64_t sizea = (uint64_t)A("sizea"), sizeb = (uint64_t)A("sizeb");
  uint64_t dest_size = (uint64_t)A("dest_size"), offset = (uint64_t)A("offset");
  const int fn = (int)A("fn"), vfam = (int)A("vfam"), prefill = (int)A("prefill");
  if (A("far") == 3) offset += sizea + sizeb;  // window entirely beyond the product
  if (fn == 0) dest_size = 1;
  if (fn == 1) dest_size = 2;
  const uint64_t seed = (uint64_t)A("seed");
  Rng r(seed);
  Arena ar;
  Buf Aa = ar.alloc(sizea * 64, amode(r), amis(r)), Bb = ar.alloc(sizeb * 64, amode(r), amis(r));
  Buf D = ar.alloc(dest_size * 64, amode(r), amis(r), prefill, seed + 1);
  double *a = Aa.as<double>(), *b = Bb.as<double>(), *d = D.as<double>();
  gen_vec(a, sizea * 8, r, vfam);
  gen_vec(b, sizeb * 8, r, vfam);
  if (vfam == V_CANCEL && sizea >= 2 && sizeb >= 2)  // a[1]=a[0], b[1]=-b[0]: coefficient 1 cancels exactly
    for (int t = 0; t < 8; ++t) a[8 + t] = a[t], b[8 + t] = -b[t];
  const uint64_t ha = snap(a, Aa.len), hb = snap(b, Bb.len);
  static const char* fname[] = {"reim4_convolution_1coeff_ref", "reim4_convolution_2coeff_ref", "reim4_convolution_ref"};
  c.notef("%s dest_size=%llu offset=%llu sizea=%llu sizeb=%llu vfam=%s", fname[fn], (unsigned long long)dest_size, (unsigned long long)offset,
          (unsigned long long)sizea, (unsigned long long)sizeb, vfam_name[vfam]);
  switch (fn) {
    case 0: reim4_convolution_1coeff_ref(offset, d, a, sizea, b, sizeb); break;
    case 1: reim4_convolution_2coeff_ref(offset, d, a, sizea, b, sizeb); break;
    default: reim4_convolution_ref(d, dest_size, offset, a, sizea, b, sizeb);
  }
  // definition (reim4_arithmetic.h): coef(k) = sum_{i+j=k, 0<=i<sizea, 0<=j<sizeb} a[i]*b[j], independent double loop
  Worst w;
  int maxpairs = 0;
  bool empty_out = false, beyond = false;
  for (uint64_t kk = 0; kk < dest_size; ++kk) {
    const uint64_t k = kk + offset;
    CAcc e[4];
    int pairs = 0;
    for (uint64_t i = 0; i < sizea; ++i)
      for (uint64_t j = 0; j < sizeb; ++j)
        if (i + j == k) {
          ++pairs;
          for (int t = 0; t < 4; ++t) e[t].addmul(a[8 * i + t], a[8 * i + 4 + t], b[8 * j + t], b[8 * j + 4 + t]);
        }
    maxpairs = std::max(maxpairs, pairs);
    if (pairs == 0) empty_out = true;
    if (sizea + sizeb == 0 || k > sizea + sizeb - 2) beyond = true;
    for (int t = 0; t < 8; ++t) {
      const Acc& x = t < 4 ? e[t].re : e[t - 4].im;
      if (!close_enough(d[8 * kk + t], x, F_CONV, w))
        return c.failf("%s dest_size=%llu offset=%llu sizea=%llu sizeb=%llu: coefficient %llu (dest[%llu]) %s of lane %d = %a, exact %La (%d index pairs "
                       "i+j=%llu), S=%La, allowed %d*2^-53*S",
                       fname[fn], (unsigned long long)dest_size, (unsigned long long)offset, (unsigned long long)sizea, (unsigned long long)sizeb,
                       (unsigned long long)k, (unsigned long long)(8 * kk + t), t < 4 ? "re" : "im", t & 3, d[8 * kk + t], x.v, pairs,
                       (unsigned long long)k, x.S, 2 * x.terms + 4);
    }
  }
  if (snap(a, Aa.len) != ha || snap(b, Bb.len) != hb) return c.failf("%s modified an input", fname[fn]);
  if (ar.check_canaries() >= 0) return c.failf("%s wrote outside dest (dest_size=%llu)", fname[fn], (unsigned long long)dest_size);
  ratio_class(c, F_CONV, w);
  c.nontrivial = maxpairs >= 2 && any_nonzero(a, sizea * 8) && any_nonzero(b, sizeb * 8);
  c.cls(std::string("conv:") + fname[fn]);
  if (sizea == 0) c.cls("sizea=0");
  if (sizeb == 0) c.cls("sizeb=0");
  if (dest_size == 0) c.cls("dest_size=0");
  if (beyond) c.cls("window-beyond-product");
  if (empty_out && maxpairs > 0) c.cls("window-straddles-end");
  if (fn == 2 && offset == 0 && dest_size == sizea + sizeb - 1 && sizea && sizeb) c.cls("full-convolution");
  if (maxpairs >= 2) c.cls("terms>=2");
  c.cls(std::string("vfam:") + vfam_name[vfam]);
}

// ================================================================================================ registration
static Sub make(const char* name, std::vector<Field> fields, void (*fn)(const FieldIdx&, Ctx&)) {
  Sub s;
  s.name = name;
  s.fields = fields;
  s.run = [fields, fn](const Vals& v, Ctx& c) {
    FieldIdx A;
    A.f = fields;
    A.v = &v;
    fn(A, c);
  };
  return s;
}

std::vector<Sub> vh_subs() {
  const Field SEED{"seed", 0, INT64_MAX - 1};
  std::vector<Sub> subs;
  subs.push_back(make("extract",
                      {{"k", 2, 16}, {"nrows", 0, 32}, {"sl_extra", 0, 8}, {"variant", 0, 3}, {"bsel", 0, 3}, {"blkr", 0, 16383}, {"vfam", 0, 2},
                       {"prefill", 0, 3}, SEED},
                      run_extract));
  subs.push_back(make("convert",
                      {{"k", 2, 16}, {"from_entry", 0, N_CONV_ENTRY - 1}, {"to_entry", 0, N_CONV_ENTRY - 1}, {"vfam", 0, 2}, {"prefill", 0, 3},
                       {"prefill2", 0, 2}, SEED},
                      run_convert));
  subs.push_back(make("dot", {{"nrows", 0, 64}, {"vfam", 0, NVFAM - 1}, {"prefill", 0, 3}, SEED}, run_dot));
  subs.push_back(make("elem", {{"op", 0, 3}, {"alias", 0, 2}, {"vfam", 0, NVFAM - 1}, {"prefill", 0, 3}, SEED}, run_elem));
  subs.push_back(make("pointwise",
                      {{"k", 0, 16}, {"layout", 0, 2}, {"op", 0, 1}, {"entry", 0, 6}, {"vfam", 0, NVFAM - 1}, {"prefill", 0, 3}, SEED}, run_pointwise));
  subs.push_back(make("convolution",
                      {{"fn", 0, 2}, {"dest_size", 0, 12}, {"offset", 0, 12}, {"far", 0, 3}, {"sizea", 0, 12}, {"sizeb", 0, 12}, {"vfam", 0, NVFAM - 1},
                       {"prefill", 0, 3}, SEED},
                      run_convolution));
  return subs;
}
