// C02 — VMP equals the naive polynomial product for all shapes.
// Oracle: column j = sum_{i<min(nrows,a_size)} a_i*M[i][j] exactly (int128 schoolbook / Goldilocks), tolerance
// sum_i E_i + 1/2 (exact when < 1/2); columns >= ncols exactly zero; vmp_apply_dft == vec_znx_dft+vmp_apply_dft_to_dft.
#include <algorithm>
#include <cmath>

#include "arena.hpp"
#include "harness.hpp"
#include "oracle_poly.hpp"
#include "patterns.hpp"
#include "spq.hpp"

using namespace vh;
const char* vh_property_id = "C02";

static void run_vmp(const Vals& v, Ctx& c, bool bigshape) {
  // fields: k cfg nrows ncols a_size res_size a_pad entry bits fam prefill amode seed
  const uint64_t k = v[0], n = 1ull << k;
  unsigned mask = v[1] ? spq::GENERIC : spq::FULL;
  uint64_t nrows = v[2], ncols = v[3], a_size = v[4], res_size = v[5];
  if (!bigshape && k >= 11) {  // keep the exact oracle affordable at large N
    nrows = 1 + (nrows - 1) % 3; ncols = 1 + (ncols - 1) % 3; a_size %= 4; res_size %= 4;
  }
  const uint64_t a_sl = n + v[6];
  const int entry = (int)v[7];  // 0: vmp_apply_dft, 1: vec_znx_dft + vmp_apply_dft_to_dft, 2: both (compared)
  const int bits = (int)v[8];
  const int fam = (int)v[9];
  const int prefill = (int)v[10];
  const int amode = (int)v[11];
  Rng r((uint64_t)v[12]);
  Arena ar;
  MODULE* mod = spq::modules().get(n, FFT64, mask);
  const uint64_t rows = std::min(nrows, a_size), cols = std::min(ncols, res_size);
  // ---- operands: small integers (exact regime) or a boundary family with E up to a few units
  Buf MAT = ar.alloc(nrows * ncols * n * 8, UNDER);
  Buf A = ar.alloc(a_size ? ((a_size - 1) * a_sl + n) * 8 : 0, amode == 0 ? OVER : amode == 1 ? UNDER : MID, 8 * (v[12] % 8), 3, v[12]);
  int64_t *mat = MAT.as<int64_t>(), *a = A.as<int64_t>();
  int64_t M = ((int64_t)1 << bits) - 1;
  for (uint64_t i = 0; i < nrows * ncols; ++i) pat::fill(mat + i * n, n, (fam + (int)i) % pat::NFAM, M, r.next(), r);
  // sparse matrices are the realistic case (gadget / key-switching matrices have zero blocks): one entry in six is the zero polynomial,
  // prepared into a buffer that holds garbage (prefill) -- every block of the prepared matrix must still be written
  uint64_t zero_entries = 0;
  for (uint64_t i = 0; i < nrows * ncols; ++i)
    if (r.below(6) == 0) { memset(mat + i * n, 0, n * 8); ++zero_entries; }
  for (uint64_t i = 0; i < a_size; ++i) pat::fill(a + i * a_sl, n, (fam / 8 + (int)i) % pat::NFAM, M, r.next(), r);
  // asymmetric magnitudes (one case in four): gadget-like matrix entries up to 2^(51-k-abits) against a small vector, entries whose
  // coefficients are multiples of 2^32 among them -- the per-pair budget N*|a|*|m| < 2^52 is the same as in the symmetric case
  bool asym = false;
  if (((v[12] >> 17) & 3) == 0 && k <= 12) {
    asym = true;
    const int abits = 1 + (int)((v[12] >> 19) % 4), mbits = 51 - (int)k - abits;
    const int64_t Ma = ((int64_t)1 << abits) - 1, Mm = ((int64_t)1 << mbits) - 1;
    for (uint64_t i = 0; i < nrows * ncols; ++i) {
      pat::fill(mat + i * n, n, (fam + (int)i) % pat::NFAM, Mm, r.next(), r);
      if (mbits >= 34 && r.below(3) == 0)
        for (uint64_t q = 0; q < n; ++q) mat[i * n + q] = q && (r.next() & 1) ? (int64_t)((uint64_t)mat[i * n + q] & ~0xFFFFFFFFull) : (q ? 0 : r.sym(7));
    }
    for (uint64_t i = 0; i < a_size; ++i) pat::fill(a + i * a_sl, n, (fam / 8 + (int)i) % pat::NFAM, Ma, r.next(), r);
  }
  // per-pair budget (each single product must be inside the C01 budget) -- by construction: bits <= 24 =>
  // |a|_1*|b|_inf <= N*2^48 ... so cap the magnitude for large N instead of rejecting
  {
    // N * M * M < 2^52  <=>  2*bits + k < 52
    int maxbits = (52 - (int)k - 1) / 2;
    if (bits > maxbits && !asym) {
      int sh = bits - maxbits;
      for (uint64_t i = 0; i < nrows * ncols * n; ++i) mat[i] /= ((int64_t)1 << sh);
      for (uint64_t i = 0; i < a_size; ++i)
        for (uint64_t q = 0; q < n; ++q) a[i * a_sl + q] /= ((int64_t)1 << sh);
    }
  }
  const uint64_t hmat = hash_bytes(MAT.p, MAT.len), ha = hash_bytes(A.p, A.len);
  // ---- prepare
  // the prepared matrix is an opaque caller buffer of bytes_of_vmp_pmat bytes: 64-byte aligned (guard page right behind it) or, one case
  // in two, at an offset of 8..56 bytes from a 64-byte boundary (the documented minimum alignment is 8)
  Buf PM = ar.alloc(bytes_of_vmp_pmat(mod, nrows, ncols), ((v[12] >> 11) & 1) ? MID : OVER, 8 * (1 + (v[12] >> 12) % 7), prefill, v[12]);
  {
    Buf T = ar.alloc(vmp_prepare_contiguous_tmp_bytes(mod, nrows, ncols), OVER, 0, prefill + 1, v[12]);
    vmp_prepare_contiguous(mod, (VMP_PMAT*)PM.p, mat, nrows, ncols, T.p);
  }
  const uint64_t hpm = hash_bytes(PM.p, PM.len);
  c.notef("N=%llu cfg=%s nrows=%llu ncols=%llu a_size=%llu res_size=%llu a_sl=N+%lld entry=%d bits=%d fam=%d", (unsigned long long)n,
          mask ? "generic" : "full", (unsigned long long)nrows, (unsigned long long)ncols, (unsigned long long)a_size,
          (unsigned long long)res_size, (long long)v[6], entry, bits, fam);
  // ---- apply through the selected entry point(s)
  std::vector<std::vector<int64_t>> outs;
  for (int e = 0; e < 2; ++e) {
    if (entry != 2 && entry != e) continue;
    Buf RES = ar.alloc(bytes_of_vec_znx_dft(mod, res_size), OVER, 0, prefill + e, v[12] + e);
    if (e == 0) {
      Buf T = ar.alloc(vmp_apply_dft_tmp_bytes(mod, res_size, a_size, nrows, ncols), OVER, 0, prefill + 2, v[12]);
      vmp_apply_dft(mod, (VEC_ZNX_DFT*)RES.p, res_size, a, a_size, a_sl, (VMP_PMAT*)PM.p, nrows, ncols, T.p);
    } else {
      Buf AD = ar.alloc(bytes_of_vec_znx_dft(mod, a_size), OVER, 0, prefill + 3, v[12]);
      vec_znx_dft(mod, (VEC_ZNX_DFT*)AD.p, a_size, a, a_size, a_sl);
      const uint64_t had = hash_bytes(AD.p, AD.len);
      Buf T = ar.alloc(vmp_apply_dft_to_dft_tmp_bytes(mod, res_size, a_size, nrows, ncols), OVER, 0, prefill + 1, v[12]);
      vmp_apply_dft_to_dft(mod, (VEC_ZNX_DFT*)RES.p, res_size, (VEC_ZNX_DFT*)AD.p, a_size, (VMP_PMAT*)PM.p, nrows, ncols, T.p);
      if (hash_bytes(AD.p, AD.len) != had) return c.failf("vmp_apply_dft_to_dft modified its DFT input");
    }
    if (hash_bytes(PM.p, PM.len) != hpm) return c.failf("vmp apply modified the prepared matrix");
    Buf BIG = ar.alloc(bytes_of_vec_znx_big(mod, res_size), OVER, 0, prefill, v[12]);
    vec_znx_idft_tmp_a(mod, (VEC_ZNX_BIG*)BIG.p, res_size, (VEC_ZNX_DFT*)RES.p, res_size);
    outs.emplace_back(BIG.as<int64_t>(), BIG.as<int64_t>() + res_size * n);
  }
  if (hash_bytes(MAT.p, MAT.len) != hmat || hash_bytes(A.p, A.len) != ha) return c.failf("vmp modified an integer input");
  if (ar.check_canaries() >= 0) return c.failf("vmp wrote outside a declared extent / *_tmp_bytes");
  // ---- oracle
  std::vector<orc::i128> ex(n);
  bool all_exact = true;
  long double worstE = 0;
  for (uint64_t j = 0; j < res_size; ++j) {
    long double Esum = 0;
    if (j < cols)
      orc::vmp_column_exact(n, rows, a, a_sl, mat, ncols, j, ex.data(), &Esum);
    else
      std::fill(ex.begin(), ex.end(), (orc::i128)0);
    Esum *= (1.0L + 1e-12L);
    const bool exact = Esum < 0.5L;
    all_exact = all_exact && exact;
    worstE = std::max(worstE, Esum);
    for (size_t o = 0; o < outs.size(); ++o) {
      const int64_t* g = outs[o].data() + j * n;
      for (uint64_t q = 0; q < n; ++q) {
        long double ad = fabsl((long double)((orc::i128)g[q] - ex[q]));
        if (ad > (exact ? 0.0L : Esum + 0.5L))
          return c.failf("%s N=%llu cfg=%s %llux%llu a_size=%llu res_size=%llu: column %llu coeff %llu = %lld, exact %lld (%s, sumE=%.3Lg)",
                         (entry == 2 ? (o == 0 ? "vmp_apply_dft" : "vec_znx_dft+vmp_apply_dft_to_dft") : entry == 0 ? "vmp_apply_dft" : "vec_znx_dft+vmp_apply_dft_to_dft"),
                         (unsigned long long)n, mask ? "generic" : "full", (unsigned long long)nrows, (unsigned long long)ncols,
                         (unsigned long long)a_size, (unsigned long long)res_size, (unsigned long long)j, (unsigned long long)q,
                         (long long)g[q], (long long)ex[q], j >= cols ? "column beyond the matrix / no usable row must be exactly zero" : exact ? "exact regime" : "bound sumE+1/2", Esum);
      }
    }
  }
  if (outs.size() == 2 && all_exact && outs[0] != outs[1]) return c.failf("vmp_apply_dft and vec_znx_dft+vmp_apply_dft_to_dft disagree in the exact regime");
  // ---- classes
  c.nontrivial = rows >= 1 && cols >= 1;
  c.cls("k:" + std::to_string(k));
  c.cls(mask ? "cfg:generic" : "cfg:full");
  c.cls(all_exact ? "exact" : "E>=1/2");
  c.cls(cols % 2 ? "cols:odd" : "cols:even");
  if (res_size < ncols && (res_size % 2) == 1) c.cls("res_size<ncols,odd");
  if (res_size > ncols) c.cls("res_size>ncols");
  if (a_size < nrows) c.cls("a_size<nrows");
  if (a_size > nrows) c.cls("a_size>nrows");
  if (a_size == 0) c.cls("a_size=0");
  if (res_size == 0) c.cls("res_size=0");
  if (n < 8) c.cls("N<8");
  c.cls(entry == 0 ? "entry:apply_dft" : entry == 1 ? "entry:dft_to_dft" : "entry:both");
  if (bigshape) c.cls("bigshape");
  if (zero_entries) c.cls("matrix:has-zero-polynomial");
  if (asym) c.cls("magnitudes:large matrix x small vector");
}

std::vector<Sub> vh_subs() {
  std::vector<Sub> subs;
  {
    Sub s;
    s.name = "box";
    s.fields = {{"k", 1, 16}, {"cfg", 0, 1}, {"nrows", 1, 6}, {"ncols", 1, 6}, {"a_size", 0, 8}, {"res_size", 0, 8}, {"a_pad", 0, 3},
                {"entry", 0, 2}, {"bits", 1, 22}, {"fam", 0, 63}, {"prefill", 0, 3}, {"amode", 0, 2}, {"seed", 0, INT64_MAX - 1}};
    s.run = [](const Vals& v, Ctx& c) { run_vmp(v, c, false); };
    subs.push_back(s);
  }
  {
    Sub s;
    s.name = "large";  // sampled large shapes at N <= 64
    s.fields = {{"k", 1, 6}, {"cfg", 0, 1}, {"nrows", 1, 64}, {"ncols", 1, 33}, {"a_size", 0, 70}, {"res_size", 0, 36}, {"a_pad", 0, 3},
                {"entry", 0, 2}, {"bits", 1, 16}, {"fam", 0, 63}, {"prefill", 0, 3}, {"amode", 0, 2}, {"seed", 0, INT64_MAX - 1}};
    s.run = [](const Vals& v, Ctx& c) { run_vmp(v, c, true); };
    subs.push_back(s);
  }
  return subs;
}
