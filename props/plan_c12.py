KINDS = ["vec_znx_add", "vec_znx_rotate", "vec_znx_automorphism", "vec_znx_normalize_base2k", "vec_znx_dft", "vec_znx_dft+idft", "svp_apply_dft",
         "vmp_apply_dft", "znx_small_single_product", "vec_znx_big_normalize_base2k", "ntt120:vec_znx_dft+idft", "reim_fft", "reim_ifft",
         "reim_fftvec_mul", "reim_fftvec_addmul", "reim_from_znx64", "reim_to_znx64", "cplx_fft", "q120_ntt_bb_avx2", "q120_vec_mat1col_products(baa,bbb,bbc)",
         "reim4_from_cplx", "new/use/delete:private_FFT64_module", "new/use/delete:private_NTT120_module", "new/use/free:private_fft_precomp", "reim_fft_simple", "reim_fftvec_mul_simple", "reim_to_znx64_simple", "cplx_fft_simple", "reim4_fftvec_mul_simple",
         "cplx_from_znx32_simple", "reim_ifft_simple", "cplx_fftvec_mul_simple", "cplx_to_tnx32_simple", "reim_from_znx64_simple"]


def _jobs(tier):
    jobs = []
    if tier == "quick":
        for i in range(14):
            jobs.append(dict(sub="threads", count=100, fix=dict(k=(1, 10), hot=-1)))
        # the depth-first FFT / block-scheduled NTT paths only exist for N >= 8192 / n >= 2048: a few programs there too
        jobs.append(dict(sub="threads", count=14, fix=dict(k=(11, 12), T=(2, 8), hot=-1)))
        jobs.append(dict(sub="threads", count=10, fix=dict(k=(13, 14), T=(2, 6), hot=-1)))
        # warmed-up processes at N=8192: the *_simple front ends with two large dimensions (m = 4096 and 8192) in flight
        for i in range(4):
            jobs.append(dict(sub="threads", count=16, fix=dict(k=13, T=(3, 6), mode=1, calls=(4, 6), hot=-1)))
        # many threads entering the same entry point at once (per-thread / pooled private state inside the library): every module-level kind, T >= 9
        jobs.append(dict(sub="threads", count=60, fix=dict(k=(1, 10), T=(9, 16), hot=(0, 33))))
        jobs.append(dict(sub="threads", count=20, fix=dict(k=(11, 12), T=(9, 16), hot=(0, 9), mode=1, calls=(2, 4))))
    else:
        jobs.append(dict(sub="threads", count=1500, fix=dict(k=(1, 10), T=(9, 16), hot=(0, 33))))
        jobs.append(dict(sub="threads", count=400, fix=dict(k=(11, 13), T=(9, 16), hot=(0, 9), mode=1)))
        for i in range(16):
            jobs.append(dict(sub="threads", count=2000, fix=dict(k=(1, 10), hot=-1)))
        for k in range(11, 17):
            jobs.append(dict(sub="threads", count=40, fix=dict(k=k, hot=-1)))
        for i in range(8):
            jobs.append(dict(sub="threads", count=100, fix=dict(k=(13, 14), T=(3, 8), mode=1, calls=(4, 6), hot=-1)))
    return jobs


PLAN_ID = "C12"
PLAN = dict(
    src="props/c12.cpp", flavour="rel",
    aux=[dict(src="props/c12_child.cpp", flavour="tsan", name="c12child")],
    rule="a case is a thread program: T in 2..16 threads, each 1..6 calls drawn from module-level entry points (FFT64 and NTT120 modules) and "
         "table-based kernels, all sharing one MODULE per type, shared PRECOMP tables and shared prepared SVP_PPOL / VMP_PMAT, private data and "
         "scratch per thread, threads released by a barrier; mode fresh (no library call before the threads start) or warm (one sequential call "
         "per dimension of every *_simple function first, then those join the pool). Each case runs in a FRESH ThreadSanitizer child process. "
         "Oracle: no TSan report, every call's concurrent output == its sequential output bitwise, shared objects unchanged. "
         "Non-trivial: >=2 threads execute the same entry point on the same shared object.",
    assumptions=["object construction happens-before thread start (documented usage)", "TSan happens-before race detection; the harness does not own the scheduler"],
    quick=_jobs("quick"), thorough=_jobs("thorough"),
    required_classes=dict(all=["mode:warm", "mode:fresh", "T:8+", "hot:every thread starts with the same entry point, T>=9"] + ["shared:" + k for k in KINDS]),
)
