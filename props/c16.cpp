// C16 — pipelines of API calls compute the corresponding expression in Z[X]/(X^N+1).
#include "pipeline.hpp"

using namespace vh;
const char* vh_property_id = "C16";

typedef unsigned __int128 u128;

std::vector<Sub> vh_subs() {
  std::vector<Sub> subs;
  {
    Sub s;
    s.name = "program";
    s.fields = {{"k", 1, 16}, {"mtype", 0, 1}, {"cfg", 0, 1}, {"len", 3, 40}, {"seed", 0, INT64_MAX - 1}};
    s.run = [](const Vals& v, Ctx& ctx) {
      const uint64_t k = v[0];
      MODULE_TYPE mt = v[1] ? NTT120 : FFT64;
      unsigned mask = (v[2] && mt == FFT64) ? spq::GENERIC : spq::FULL;
      uint64_t len = v[3];
      if (k >= 12) len = std::min<uint64_t>(len, 10);
      pipeline::RngChooser ch((uint64_t)v[4]);
      pipeline::Machine<pipeline::RngChooser> m(k, mt, mask, ch);
      for (uint64_t i = 0; i < len && m.fail.empty(); ++i) m.step();
      if (m.fail.empty()) m.flush();
      std::string prog = m.program();
      ctx.note = "N=" + std::to_string(1ull << k) + (mt == FFT64 ? " FFT64" : " NTT120") + (mask ? " generic: " : " full: ") + prog.substr(0, 900);
      if (!m.fail.empty()) return ctx.failf("N=%llu %s cfg=%s: %s || program: %s", 1ull << k, mt == FFT64 ? "FFT64" : "NTT120", mask ? "generic" : "full", m.fail.c_str(),
                                            prog.substr(prog.size() > 700 ? prog.size() - 700 : 0).c_str());
      int nf = __builtin_popcount(m.reached);
      ctx.nontrivial = m.full_chain || nf >= 3;
      ctx.cls("k:" + std::to_string(k));
      ctx.cls(mt == FFT64 ? "module:FFT64" : "module:NTT120");
      ctx.cls(mask ? "cfg:generic" : "cfg:full");
      if (m.full_chain) ctx.cls("chain:dft->product->idft->bigop->normalize");
      ctx.cls(m.shared_scratch ? "scratch:one-shared-buffer" : "scratch:fresh-per-call");
      if (m.loop_shared) ctx.cls("loop:matrices-on-same-input,shared-scratch,k:" + std::to_string(k));
      if (m.loop_shared && k >= 10) ctx.cls("loop:matrices-on-same-input,shared-scratch,N>=1024");
      ctx.cls("lineage_flags:" + std::to_string(nf));
      for (auto& t : m.trace) {
        size_t e = t.find("= ");
        size_t p = t.find('(', e);
        if (e != std::string::npos && p != std::string::npos) ctx.cls("op:" + t.substr(e + 2, p - e - 2));
      }
    };
    subs.push_back(s);
  }
  {
    // q120 kernel-level chain: b_from_znx64 -> ntt -> pointwise product (bbb, ell=1 per coefficient) -> intt -> b_to_znx128
    Sub s;
    s.name = "q120chain";
    s.fields = {{"k", 0, 16}, {"abits", 1, 52}, {"bterms", 1, 6}, {"bbits", 1, 50}, {"avx", 0, 1}, {"seed", 0, INT64_MAX - 1}};
    s.run = [](const Vals& v, Ctx& ctx) {
      const uint64_t n = 1ull << v[0];
      Rng r((uint64_t)v[5]);
      Arena ar;
      std::vector<int64_t> a(n), b(n, 0);
      for (auto& x : a) x = r.sbits((unsigned)v[1]);
      for (int64_t t = 0; t < v[2]; ++t) b[r.below(n)] = r.sbits((unsigned)v[3]) | 1;
      // |product coefficient| <= terms * 2^abits * 2^bbits < 2^3 * 2^102 < 2^119
      std::vector<orc::i128> ex(n);
      orc::negacyclic_schoolbook(n, a.data(), b.data(), ex.data());  // b sparse: O(n * terms)
      Buf A = ar.alloc(n * 32, OVER), B = ar.alloc(n * 32, UNDER), C = ar.alloc(n * 32, OVER, 0, 1), R = ar.alloc(n * 16, OVER, 0, 2);
      q120_b_from_znx64_simple(n, (q120b*)A.p, a.data());
      q120_b_from_znx64_simple(n, (q120b*)B.p, b.data());
      q120_ntt_precomp* pn = q120_new_ntt_bb_precomp(n);
      q120_ntt_precomp* pi = q120_new_intt_bb_precomp(n);
      q120_ntt_bb_avx2(pn, (q120b*)A.p);
      q120_ntt_bb_avx2(pn, (q120b*)B.p);
      auto* pp = q120_new_vec_mat1col_product_bbb_precomp();
      for (uint64_t j = 0; j < n; ++j)
        (v[4] ? q120_vec_mat1col_product_bbb_avx2 : q120_vec_mat1col_product_bbb_ref)(pp, 1, (q120b*)(C.p + 32 * j), (q120b*)(A.p + 32 * j), (q120b*)(B.p + 32 * j));
      q120_intt_bb_avx2(pi, (q120b*)C.p);
      q120_b_to_znx128_simple(n, (__int128_t*)R.p, (q120b*)C.p);
      q120_delete_vec_mat1col_product_bbb_precomp(pp);
      q120_del_ntt_bb_precomp(pn);
      q120_del_intt_bb_precomp(pi);
      ctx.notef("q120 chain n=%llu: a %lld bits dense, b %lld terms of %lld bits, product kernel %s", (unsigned long long)n, (long long)v[1], (long long)v[2], (long long)v[3], v[4] ? "avx2" : "ref");
      for (uint64_t i = 0; i < n; ++i)
        if (((__int128_t*)R.p)[i] != ex[i])
          return ctx.failf("q120 chain (from_znx64 -> ntt -> bbb product -> intt -> to_znx128) n=%llu: coefficient %llu differs from the exact negacyclic product (low 64 bits got %lld, exact %lld)",
                           (unsigned long long)n, (unsigned long long)i, (long long)((__int128_t*)R.p)[i], (long long)ex[i]);
      if (ar.check_canaries() >= 0) return ctx.failf("q120 chain wrote outside its buffers");
      ctx.nontrivial = n >= 2;
      ctx.cls("q120chain");
      ctx.cls("qk:" + std::to_string(v[0]));
    };
    subs.push_back(s);
  }
  return subs;
}
