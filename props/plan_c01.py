from planlib import geo, desc_fuzz


def _jobs(tier):
    mult = 1 if tier == "quick" else 60
    jobs = []
    for k in range(1, 17):
        jobs.append(dict(sub="small", count=geo(k, 1500, 8, 10) * mult, fix=dict(k=k)))
        jobs.append(dict(sub="svp", count=geo(k, 800, 8, 8) * mult, fix=dict(k=k, a_size=(0, 6), res_size=(0, 6), big_size=(0, 6))))
        if k <= 8:  # long vectors (blocked / unrolled limb loops): up to 20 limbs
            jobs.append(dict(sub="svp", count=geo(k, 300, 8, 8) * mult, fix=dict(k=k, a_size=(7, 20), res_size=(7, 20), big_size=(0, 20))))
    return jobs


PLAN_ID = "C01"
PLAN = dict(
    src="props/c01.cpp", flavour="rel",
    rule="cases = (N=2^k, CPU cfg, operand pattern families x magnitudes constructed inside the 52-bit budget with a bias "
         "towards its boundary, entry path in {znx_small_single_product, svp_prepare+svp_apply_dft+vec_znx_idft, "
         "..+vec_znx_idft_tmp_a}, limb counts 0..6, stride N..N+3); oracle = exact product (schoolbook int128 / "
         "Goldilocks NTT, cross-checked for N<=512), bound E+1/2, exact when E<1/2, extra rows exactly zero. "
         "Non-trivial: N>=4, both operands have >=2 non-zero coefficients and (E>=2^-6 or max|exact coeff|>=2^40). "
         "Distinct = distinct descriptor hash.",
    assumptions=["operands constructed inside the documented budget (|x|<2^50, min(|a|1|b|inf,|a|inf|b|1)<2^52)",
                 "exact oracle: __int128 schoolbook / Goldilocks-prime NTT"],
    quick=_jobs("quick"), thorough=_jobs("thorough"),
    fuzz=desc_fuzz("C01", fix=dict(k=(1, 10)), runs=50000),
    required_classes=dict(all=["E<1/2", "E>=1/2", "path:small_single_product", "path:svp+idft", "path:svp+idft_tmp_a",
                               "cfg:generic", "cfg:full", "res_size>a_size", "a_size=0"] + ["k:%d" % k for k in range(1, 17)]),
)
