from planlib import geo, desc_fuzz


def _jobs(tier):
    mult = 1 if tier == "quick" else 300
    jobs = []
    for k in range(1, 17):
        jobs.append(dict(sub="box", count=geo(k, 1500, 6, 8) * mult, fix=dict(k=k)))
        jobs.append(dict(sub="box", count=geo(k, 400, 6, 3) * mult, fix=dict(k=k), flavour="asan"))
    for k in range(1, 7):
        jobs.append(dict(sub="large", count=60 * mult, fix=dict(k=k)))
    return jobs


PLAN_ID = "C02"
PLAN = dict(
    src="props/c02.cpp", flavour="rel",
    rule="cases = (N=2^k, CPU cfg, nrows x ncols in 1..6 (sampled up to 64x33 for N<=64), a_size/res_size 0..8, stride N..N+3, "
         "entry point in {vmp_apply_dft, vec_znx_dft+vmp_apply_dft_to_dft, both}, operand pattern families at 1..22 bits, "
         "scratch of exactly *_tmp_bytes on guard pages, prefill); oracle = exact sum of row products per column, tolerance "
         "sumE+1/2 (exact when <1/2), zero columns, both entry points agree. Non-trivial: >=1 usable row and >=1 produced column.",
    assumptions=["each single product inside the C01 budget by construction (2*bits+log2N<52)",
                 "exact oracle: __int128 schoolbook / Goldilocks-prime NTT accumulation"],
    quick=_jobs("quick"), thorough=_jobs("thorough"),
    fuzz=desc_fuzz("C02", fix=dict(k=(1, 9)), runs=50000),
    required_classes=dict(all=["cols:odd", "cols:even", "res_size<ncols,odd", "res_size>ncols", "a_size<nrows", "a_size>nrows",
                               "a_size=0", "res_size=0", "N<8", "cfg:generic", "cfg:full", "exact", "E>=1/2", "entry:apply_dft",
                               "entry:dft_to_dft", "entry:both", "bigshape", "matrix:has-zero-polynomial"] + ["k:%d" % k for k in range(1, 17)]),
)
