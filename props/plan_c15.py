from planlib import desc_fuzz, WRAP_FLAGS, WRAP_SRCS
FNS = ["reim_fft_simple", "reim_ifft_simple", "reim_fftvec_mul_simple", "reim_fftvec_addmul_simple", "reim_from_znx64_simple", "reim_to_znx64_simple",
       "cplx_fft_simple", "cplx_ifft_simple", "cplx_fftvec_mul_simple", "cplx_fftvec_addmul_simple", "cplx_from_znx32_simple", "cplx_from_tnx32_simple",
       "cplx_to_tnx32_simple", "reim4_fftvec_mul_simple", "reim4_fftvec_addmul_simple", "reim4_from_cplx_simple", "reim4_to_cplx_simple",
       "znx_small_single_product", "vmp_apply_dft", "svp_apply_dft", "vec_znx_normalize_base2k", "vec_znx_dft+idft",
       "reim4_convolution", "reim4_vec_mat_products", "q120_vec_mat1col_product_bbc"]


def _jobs(tier):
    mult = 1 if tier == "quick" else 75
    jobs = []
    for fl in ("asan", "rel"):
        for i in range(8):
            jobs.append(dict(sub="history", count=100 * mult, flavour=fl))
    return jobs


PLAN_ID = "C15"
PLAN = dict(
    src="props/c15.cpp", flavour="asan", extra_srcs=WRAP_SRCS, extra_link=WRAP_FLAGS,
    rule="a case is a history of 50..400 calls generated from the descriptor: the 17 cached *_simple functions with varying dimension, "
         "divisor, log2bound / log2overhead (35% of the calls deliberately re-use an earlier (function, dimension) with another parameter), "
         "module entry points (small product, vmp, svp, normalize, dft+idft) on shared live modules of both types; every buffer at a generated "
         "byte offset 0..56 / guard side with generated prefill of outputs and scratch. Oracle: (a) each *_simple call is bit-identical to the "
         "same call through a table built fresh for exactly its parameters, and one module-level call in three (N<=1024) to the same call through "
         "a module created for that call from heap memory with generated initial contents (link-time malloc interposition) and destroyed afterwards, (b) with the descriptor's probability an earlier call of the history "
         "is re-issued with different placement and prefill and must be bit-identical. Non-trivial: the history contains a re-issue separated "
         "from its original by a call of the same function with a different dimension or parameter. Distinct = distinct descriptor.",
    assumptions=["parameters stay inside each function's documented domain (log2bound<=50 for from_znx64, |x/d| small for conversions)"],
    quick=_jobs("quick"), thorough=_jobs("thorough"),
    fuzz=desc_fuzz("C15", fix=dict(maxlog=(2, 9), len=(50, 120)), runs=20000),
    required_classes=dict(all=["fn:" + f for f in FNS] + ["repeat_after_other_params", "simple:m=1 and m=65536 in one history", "simple:m>=4096", "subnormal-range operands",
                               "fresh-module == long-lived module (heap fill varied)"]),
)
