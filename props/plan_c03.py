from planlib import geo, desc_fuzz

MODES = ["roundtrip:intt(ntt(x))", "roundtrip:ntt(intt(x))", "linearity:ntt", "linearity:intt", "evaluation-map", "convolution",
         "inverse-evaluation"]
FAMS = ["all-ones", "zero", "alternating", "cq-1", "cq", "single", "uniform64", "canonical", "topbit", "mixed-extremal"]


KCOUNT = {0: 90000, 1: 90000, 2: 90000, 3: 90000, 4: 90000, 5: 90000, 6: 75000, 7: 60000, 8: 48000, 9: 21000, 10: 7500, 11: 6600,
          12: 3600, 13: 2250, 14: 1350, 15: 960, 16: 720}
KSPLIT = {13: 2, 14: 2, 15: 3, 16: 4}


def _jobs(tier):
    mult = 1 if tier == "quick" else 20
    jobs = []
    for k in range(0, 17):
        jobs.append(dict(sub="kernel", count=KCOUNT[k] * mult, fix=dict(k=k), split=KSPLIT.get(k, 1)))
    for k in range(0, 17):  # N = 1 included: the statement quantifies over every n in {1,2,..,65536}
        jobs.append(dict(sub="module", count=geo(k, 24000, 8, 480) * mult, fix=dict(k=k), split=(2 if k >= 15 else 1)))
    return jobs


PLAN_ID = "C03"
PLAN = dict(
    src="props/c03.cpp", flavour="rel",
    rule="kernel cases = (n=2^k for every k=0..16, mode, lane family of the 64-bit input lanes: all-ones, zero, alternating 0/2^64-1 with "
         "every period, c*q-1 and c*q for the largest c, single non-zero lane, uniform 64-bit, uniform <q, top bit set, mixed extremal). "
         "Modes: intt(ntt(x))=x and ntt(intt(x))=x mod q lane by lane; linearity T(x)+T(y)=T(x+y), s*T(x)=T(s*x) for T in {ntt,intt} with "
         "x+y and s*x formed mod q by the oracle (canonical or r+c*q representatives); evaluation map: r_j=ntt(X)[j] validated as n distinct "
         "roots of X^n+1, ntt(a)[j]=a(r_j) by an independent textbook NTT for all j and by Horner (all j for n<=1024, 64 generated j "
         "otherwise); inverse evaluation (intt(y))(r_j)=y_j; convolution intt(ntt(a).ntt(b))=a*b mod (X^n+1,q) with the pointwise product "
         "formed by the oracle and a*b by schoolbook (n<=512) / oracle NTT. module cases = NTT120 vec_znx_dft -> vec_znx_idft | "
         "vec_znx_idft_tmp_a on int64 vectors incl. INT64_MIN/MAX, a_size/dft size/big size 0..5 independently, strides N..N+3, exact int128 "
         "equality with zero-extension/truncation, input hashes, canaries and exact tmp_bytes. Non-trivial: n>=2 and >=2 non-zero input "
         "lanes (module: also all three sizes >=1). Distinct = descriptor hash.",
    assumptions=["q120_new_ntt_bb_precomp / q120_new_intt_bb_precomp set input_bit_size = 64: every 64-bit lane value is in the documented domain of both kernels",
                 "the order of the transform output is not asserted; only that it is a fixed evaluation order at the n primitive 2n-th roots",
                 "NTT120 modules exist only where avx2 is available (the host has it); buffers sized by hand: 32*N bytes per DFT limb, 16*N per big limb, 16-byte aligned",
                 "primes Q1..Q4 from q120_common.h; roots of unity, inverses and the reference transform are re-derived by the oracle"],
    quick=_jobs("quick"), thorough=_jobs("thorough"),
    fuzz=desc_fuzz("C03", fix=dict(k=(0, 10)), runs=80000),
    required_classes=dict(all=["k:%d" % k for k in range(0, 17)] + ["mode:" + m for m in MODES] + ["fam:" + f for f in FAMS]
                          + ["fam2:" + f for f in FAMS]
                          + ["kernel:q120_ntt_bb_avx2", "kernel:q120_intt_bb_avx2", "conv-oracle:schoolbook", "conv-oracle:ntt",
                             "module:vec_znx_dft", "module:vec_znx_idft", "module:vec_znx_idft_tmp_a", "a_size=0", "dft_size=0", "big_size=0",
                             "dft<a (truncate)", "dft>a (zero-extend)", "big<dft (truncate)", "big>dft (zero-extend)", "stride>N",
                             "value:INT64_MIN", "value:INT64_MAX"]),
)
