// C15 — results depend only on arguments: no hidden state, history or alignment dependence.
// A case is a *history* of 50..400 calls (all derived from the descriptor) mixing the cached *_simple convenience API
// with varying dimensions / divisors / bounds, module entry points on several live modules of both types and table
// kernels.  After each call an earlier call may be re-issued with different buffer placement (offset 0..56, guard side)
// and different prefill of outputs and scratch: outputs must be bit-identical.  Every *_simple call must also be
// bit-identical to the same call through a table built fresh for exactly those parameters.
#include <xmmintrin.h>

#include <cmath>
#include <map>
#include <thread>

#include "alloc_track.hpp"
#include "arena.hpp"
#include "harness.hpp"
#include "spq.hpp"

using namespace vh;
const char* vh_property_id = "C15";

enum Fn {
  REIM_FFT_S = 0, REIM_IFFT_S, REIM_MUL_S, REIM_ADDMUL_S, REIM_FROM64_S, REIM_TO64_S, CPLX_FFT_S, CPLX_IFFT_S, CPLX_MUL_S, CPLX_ADDMUL_S, CPLX_FROM_ZNX32_S,
  CPLX_FROM_TNX32_S, CPLX_TO_TNX32_S, R4_MUL_S, R4_ADDMUL_S, R4_FROM_CPLX_S, R4_TO_CPLX_S,
  NSIMPLE,
  M_SMALL = NSIMPLE, M_VMP, M_SVP, M_NORM, M_DFT_IDFT,
  K_CONV, K_DOT, K_Q120_BBC,
  NFN
};
static const char* FNAMES[NFN] = {"reim_fft_simple", "reim_ifft_simple", "reim_fftvec_mul_simple", "reim_fftvec_addmul_simple", "reim_from_znx64_simple", "reim_to_znx64_simple",
                                  "cplx_fft_simple", "cplx_ifft_simple", "cplx_fftvec_mul_simple", "cplx_fftvec_addmul_simple", "cplx_from_znx32_simple", "cplx_from_tnx32_simple",
                                  "cplx_to_tnx32_simple", "reim4_fftvec_mul_simple", "reim4_fftvec_addmul_simple", "reim4_from_cplx_simple", "reim4_to_cplx_simple",
                                  "znx_small_single_product", "vmp_apply_dft", "svp_apply_dft", "vec_znx_normalize_base2k", "vec_znx_dft+idft",
                                  "reim4_convolution", "reim4_vec_mat_products", "q120_vec_mat1col_product_bbc"};

struct Spec {
  int fn;
  uint64_t logm;
  double divisor;
  uint32_t p1;       // log2bound / log2overhead / base-2^k
  uint64_t s1, s2, nrows, ncols;
  int mtype;
  uint64_t dseed;
  int tiny = 0;  // 1: operands scaled so that products fall into the subnormal range (visible if a call leaves FTZ/DAZ set)
  bool same_params(const Spec& o) const { return logm == o.logm && divisor == o.divisor && p1 == o.p1; }
};

static Spec gen_spec(Rng& r, uint64_t maxlog, uint32_t fnmask) {
  Spec s;
  do { s.fn = (int)r.below(NFN); } while (!((fnmask >> (s.fn % 8)) & 1));
  // mostly small dimensions, one call in four anywhere up to maxlog (which goes up to 16: the largest and the smallest dimension meet
  // in one history -- a cache slot shared by two dimensions needs exactly that)
  s.logm = r.below(4) == 0 ? r.below(maxlog + 1) : r.below(std::min<uint64_t>(maxlog, 7) + 1);
  s.tiny = r.below(8) == 0;
  if (s.fn >= R4_MUL_S && s.fn <= R4_TO_CPLX_S && s.logm < 2) s.logm = 2;
  s.divisor = std::ldexp(1.0, (int)r.below(12) - 2);
  s.p1 = 0;
  if (s.fn == REIM_FROM64_S) s.p1 = (uint32_t)r.below(51);
  if (s.fn == REIM_TO64_S) s.p1 = (r.next() & 1) ? 40 + (uint32_t)r.below(11) : 51 + (uint32_t)r.below(13);  // both sides of the 50-bit variant switch
  if (s.fn == CPLX_TO_TNX32_S) s.p1 = r.below(3) ? (uint32_t)r.below(19) : 19 + (uint32_t)r.below(12);  // log2overhead: the fast range 0..18 and beyond it (up to 30: x*2^32/d must fit the reference kernel's int64)
  if (s.fn == M_NORM) s.p1 = 1 + (uint32_t)r.below(62);
  s.s1 = r.below(4); s.s2 = r.below(4); s.nrows = 1 + r.below(3); s.ncols = 1 + r.below(3);
  s.mtype = (int)(r.next() & 1);
  s.dseed = r.next();
  if (s.fn >= NSIMPLE && s.logm > (s.fn == M_NORM ? 13u : 11u)) s.logm = s.fn == M_NORM ? 13 : 11;  // normalisation up to N=8192 (cache-blocked code paths)
  if (s.fn >= NSIMPLE && s.logm < 1) s.logm = 1;  // module N = 2^logm >= 2
  return s;
}

struct Place {
  Arena ar;
  Rng r;
  int pf;
  Place(uint64_t seed, int prefill) : r(seed), pf(prefill) {}
  uint8_t* get(size_t len, int prefill) { return ar.alloc(len, (int)r.below(3), 8 * r.below(8), prefill, r.next()).p; }
  uint8_t* in(size_t len) { return get(len, 3); }
  uint8_t* out(size_t len) { return get(len, pf); }
  uint8_t* scratch(size_t len) { return get(len, pf + 1); }
};

static void dfill(double* p, size_t cnt, Rng& r, double scale) {
  for (size_t i = 0; i < cnt; ++i) p[i] = std::ldexp(r.sunit(), (int)r.below(20)) * scale;
}
static void ifill(int64_t* p, size_t cnt, Rng& r, unsigned bits) {
  for (size_t i = 0; i < cnt; ++i) p[i] = r.sbits(bits);
}

// executes spec; fresh=true: through a table built for exactly these parameters (only for the *_simple functions)
static std::vector<uint8_t> execute(const Spec& s, uint64_t place_seed, int prefill, bool fresh) {
  Place P(place_seed, prefill);
  Rng d(s.dseed);
  const uint64_t m = 1ull << s.logm;
  std::vector<uint8_t> out;
  auto grab = [&](const void* p, size_t len) { out.insert(out.end(), (const uint8_t*)p, (const uint8_t*)p + len); };
  switch (s.fn) {
    case REIM_FFT_S: case REIM_IFFT_S: case CPLX_FFT_S: case CPLX_IFFT_S: {
      double* x = (double*)P.out(2 * m * 8);
      dfill(x, 2 * m, d, 1.0);
      if (!fresh) {
        if (s.fn == REIM_FFT_S) reim_fft_simple(m, x); else if (s.fn == REIM_IFFT_S) reim_ifft_simple(m, x);
        else if (s.fn == CPLX_FFT_S) cplx_fft_simple(m, x); else cplx_ifft_simple(m, x);
      } else if (s.fn == REIM_FFT_S) { auto* t = new_reim_fft_precomp(m, 0); reim_fft(t, x); free(t); }
      else if (s.fn == REIM_IFFT_S) { auto* t = new_reim_ifft_precomp(m, 0); reim_ifft(t, x); free(t); }
      else if (s.fn == CPLX_FFT_S) { auto* t = new_cplx_fft_precomp(m, 0); cplx_fft(t, x); free(t); }
      else { auto* t = new_cplx_ifft_precomp(m, 0); cplx_ifft(t, x); free(t); }
      grab(x, 2 * m * 8);
      break;
    }
    case REIM_MUL_S: case REIM_ADDMUL_S: case CPLX_MUL_S: case CPLX_ADDMUL_S: case R4_MUL_S: case R4_ADDMUL_S: {
      double *a = (double*)P.in(2 * m * 8), *b = (double*)P.in(2 * m * 8), *r = (double*)P.out(2 * m * 8);
      const double sc = s.tiny ? std::ldexp(1.0, -530) : 1.0;  // tiny: every product is subnormal (exact results, but only without FTZ/DAZ)
      dfill(a, 2 * m, d, sc); dfill(b, 2 * m, d, sc);
      const bool acc = s.fn == REIM_ADDMUL_S || s.fn == CPLX_ADDMUL_S || s.fn == R4_ADDMUL_S;
      if (acc) dfill(r, 2 * m, d, sc * sc);
      switch (s.fn) {
        case REIM_MUL_S: if (!fresh) reim_fftvec_mul_simple(m, r, a, b); else { auto* t = new_reim_fftvec_mul_precomp(m); reim_fftvec_mul(t, r, a, b); free(t); } break;
        case REIM_ADDMUL_S: if (!fresh) reim_fftvec_addmul_simple(m, r, a, b); else { auto* t = new_reim_fftvec_addmul_precomp(m); reim_fftvec_addmul(t, r, a, b); free(t); } break;
        case CPLX_MUL_S: if (!fresh) cplx_fftvec_mul_simple(m, r, a, b); else { auto* t = new_cplx_fftvec_mul_precomp(m); cplx_fftvec_mul(t, r, a, b); free(t); } break;
        case CPLX_ADDMUL_S: if (!fresh) cplx_fftvec_addmul_simple(m, r, a, b); else { auto* t = new_cplx_fftvec_addmul_precomp(m); cplx_fftvec_addmul(t, r, a, b); free(t); } break;
        case R4_MUL_S: if (!fresh) reim4_fftvec_mul_simple(m, r, a, b); else { auto* t = new_reim4_fftvec_mul_precomp(m); reim4_fftvec_mul(t, r, a, b); free(t); } break;
        default: if (!fresh) reim4_fftvec_addmul_simple(m, r, a, b); else { auto* t = new_reim4_fftvec_addmul_precomp(m); reim4_fftvec_addmul(t, r, a, b); free(t); }
      }
      grab(r, 2 * m * 8);
      break;
    }
    case REIM_FROM64_S: {
      int64_t* x = (int64_t*)P.in(2 * m * 8);
      ifill(x, 2 * m, d, 50);
      double* r = (double*)P.out(2 * m * 8);
      if (!fresh) reim_from_znx64_simple(m, s.p1, r, x); else { auto* t = new_reim_from_znx64_precomp(m, s.p1); reim_from_znx64(t, r, x); free(t); }
      grab(r, 2 * m * 8);
      break;
    }
    case REIM_TO64_S: {
      double* x = (double*)P.in(2 * m * 8);
      dfill(x, 2 * m, d, s.divisor);  // |x/d| < 2^20 ...
      {
        // ... plus a few values in the top two binades below the declared bound 2^min(log2bound,52) (the fast variant is only valid below
        // 2^50, the wide one below 2^52): a cache that hands out the wrong variant is only visible on such magnitudes
        const unsigned L = s.p1 < 52 ? s.p1 : 52;
        for (uint64_t q = 0; q < 2 * m; q += 3) {
          double mag = std::ldexp(0.5 + 0.499 * d.unit(), (int)L - (int)d.below(2));
          x[q] = std::floor(mag) * s.divisor * (d.below(2) ? -1.0 : 1.0);
        }
        // and exact .5 ties: whichever way a kernel rounds them, it must do so independently of buffer placement and history
        for (uint64_t q = 1; q < 2 * m; q += 5) x[q] = ((double)((int64_t)d.below(2001) - 1000) + 0.5) * s.divisor;
      }
      int64_t* r = (int64_t*)P.out(2 * m * 8);
      if (!fresh) reim_to_znx64_simple(m, s.divisor, s.p1, r, x); else { auto* t = new_reim_to_znx64_precomp(m, s.divisor, s.p1); reim_to_znx64(t, r, x); free(t); }
      grab(r, 2 * m * 8);
      break;
    }
    case CPLX_FROM_ZNX32_S: case CPLX_FROM_TNX32_S: {
      int32_t* x = (int32_t*)P.in(2 * m * 4);
      for (size_t i = 0; i < 2 * m; ++i) x[i] = (int32_t)d.next();
      double* r = (double*)P.out(2 * m * 8);
      if (s.fn == CPLX_FROM_ZNX32_S) { if (!fresh) cplx_from_znx32_simple(m, r, x); else { auto* t = new_cplx_from_znx32_precomp(m); cplx_from_znx32(t, r, x); free(t); } }
      else { if (!fresh) cplx_from_tnx32_simple(m, r, x); else { auto* t = new_cplx_from_tnx32_precomp(m); cplx_from_tnx32(t, r, x); free(t); } }
      grab(r, 2 * m * 8);
      break;
    }
    case CPLX_TO_TNX32_S: {
      double* x = (double*)P.in(2 * m * 8);
      for (size_t i = 0; i < 2 * m; ++i) x[i] = d.sunit() * s.divisor * std::ldexp(1.0, (int)s.p1) * 0.99;  // |x/d| < 2^log2overhead
      int32_t* r = (int32_t*)P.out(2 * m * 4);
      if (!fresh) cplx_to_tnx32_simple(m, s.divisor, s.p1, r, x); else { auto* t = new_cplx_to_tnx32_precomp(m, s.divisor, s.p1); cplx_to_tnx32(t, r, x); free(t); }
      grab(r, 2 * m * 4);
      break;
    }
    case R4_FROM_CPLX_S: case R4_TO_CPLX_S: {
      double* x = (double*)P.in(2 * m * 8);
      dfill(x, 2 * m, d, 1.0);
      double* r = (double*)P.out(2 * m * 8);
      if (s.fn == R4_FROM_CPLX_S) { if (!fresh) reim4_from_cplx_simple(m, r, x); else { auto* t = new_reim4_from_cplx_precomp(m); reim4_from_cplx(t, r, x); free(t); } }
      else { if (!fresh) reim4_to_cplx_simple(m, r, x); else { auto* t = new_reim4_to_cplx_precomp(m); reim4_to_cplx(t, r, x); free(t); } }
      grab(r, 2 * m * 8);
      break;
    }
    case K_CONV: {  // windowed convolution: every output coefficient is written, also the ones whose index sum is empty
      const uint64_t sizea = s.s1 * 2 + (s.nrows & 1), sizeb = s.s2 * 2 + (s.ncols & 1), off = s.p1 % 13, dsz = 1 + (s.dseed % 9);
      double *a = (double*)P.in(sizea * 64), *b = (double*)P.in(sizeb * 64), *r = (double*)P.out(dsz * 64);
      dfill(a, sizea * 8, d, 1.0); dfill(b, sizeb * 8, d, 1.0);
      if (s.mtype) reim4_convolution_ref(r, dsz, off, a, sizea, b, sizeb);
      else if (dsz >= 2) { reim4_convolution_2coeff_ref(off, r, a, sizea, b, sizeb); for (uint64_t q = 2; q < dsz; ++q) reim4_convolution_1coeff_ref(off + q, r + 8 * q, a, sizea, b, sizeb); }
      else reim4_convolution_1coeff_ref(off, r, a, sizea, b, sizeb);
      grab(r, dsz * 64);
      break;
    }
    case K_DOT: {  // reim4 dot products incl. zero rows: the 8 / 16 outputs are always overwritten
      const uint64_t rows = (s.s1 * 4 + s.s2) % 14;
      double *u = (double*)P.in(rows * 64), *vv = (double*)P.in(rows * 128), *r = (double*)P.out(128);
      dfill(u, rows * 8, d, 1.0); dfill(vv, rows * 16, d, 1.0);
      switch (s.nrows % 4) {
        case 0: reim4_vec_mat1col_product_ref(rows, r, u, vv); memset(r + 8, 0, 64); break;
        case 1: reim4_vec_mat1col_product_avx2(rows, r, u, vv); memset(r + 8, 0, 64); break;
        case 2: reim4_vec_mat2cols_product_ref(rows, r, u, vv); break;
        default: reim4_vec_mat2cols_product_avx2(rows, r, u, vv);
      }
      grab(r, 128);
      break;
    }
    case K_Q120_BBC: {
      const uint64_t ell = (s.s1 * 4 + s.s2) % 12;
      uint64_t* x = (uint64_t*)P.in(ell * 32);
      uint32_t* y = (uint32_t*)P.in(ell * 32);
      for (uint64_t q = 0; q < 4 * ell; ++q) x[q] = d.next();
      for (uint64_t q = 0; q < 8 * ell; ++q) y[q] = (uint32_t)d.next();
      uint64_t* r = (uint64_t*)P.out(32);
      static q120_mat1col_product_bbc_precomp* pre = q120_new_vec_mat1col_product_bbc_precomp();
      if (s.mtype) q120_vec_mat1col_product_bbc_avx2(pre, ell, (q120b*)r, (q120b*)x, (q120c*)y);
      else q120_vec_mat1col_product_bbc_ref(pre, ell, (q120b*)r, (q120b*)x, (q120c*)y);
      for (int l = 0; l < 4; ++l) r[l] %= PRIMES_VEC[l];  // lazy representatives: compare residues
      grab(r, 32);
      break;
    }
    default: {  // module entry points on shared live modules
      const uint64_t n = 1ull << s.logm;
      MODULE_TYPE mt = (s.mtype && (s.fn == M_NORM || s.fn == M_DFT_IDFT)) ? NTT120 : FFT64;
      // fresh=true: through a module created for this one call from heap memory with generated initial contents (what malloc
      // returns depends on the history of earlier frees) and destroyed afterwards, instead of the long-lived shared module
      MODULE* mod;
      struct FreshGuard {
        MODULE* m = nullptr;
        ~FreshGuard() { if (m) delete_module_info(m); }
      } fg;
      if (fresh) {
        static const int fills[4] = {0x00, 0xFF, 0x7F, 0xA5};
        at::set_fill(fills[place_seed & 3]);
        mod = fg.m = new_module_info(n, mt);
        at::set_fill(-1);
      } else mod = spq::modules().get(n, mt, 0);
      const unsigned bits = (unsigned)((40 - (int)s.logm) / 2);
      if (s.fn == M_SMALL) {
        int64_t *a = (int64_t*)P.in(n * 8), *b = (int64_t*)P.in(n * 8), *r = (int64_t*)P.out(n * 8);
        ifill(a, n, d, bits); ifill(b, n, d, bits);
        uint8_t* t = P.scratch(znx_small_single_product_tmp_bytes(mod));
        znx_small_single_product(mod, r, a, b, t);
        grab(r, n * 8);
      } else if (s.fn == M_VMP) {
        int64_t* mat = (int64_t*)P.in(s.nrows * s.ncols * n * 8);
        ifill(mat, s.nrows * s.ncols * n, d, bits);
        uint8_t* pm = P.out(bytes_of_vmp_pmat(mod, s.nrows, s.ncols));
        uint8_t* tp = P.scratch(vmp_prepare_contiguous_tmp_bytes(mod, s.nrows, s.ncols));
        vmp_prepare_contiguous(mod, (VMP_PMAT*)pm, mat, s.nrows, s.ncols, tp);
        int64_t* a = (int64_t*)P.in(s.s1 * n * 8);
        ifill(a, s.s1 * n, d, bits);
        uint8_t* res = P.out(bytes_of_vec_znx_dft(mod, s.s2));
        uint8_t* t = P.scratch(vmp_apply_dft_tmp_bytes(mod, s.s2, s.s1, s.nrows, s.ncols));
        vmp_apply_dft(mod, (VEC_ZNX_DFT*)res, s.s2, a, s.s1, n, (VMP_PMAT*)pm, s.nrows, s.ncols, t);
        grab(res, bytes_of_vec_znx_dft(mod, s.s2));
      } else if (s.fn == M_SVP) {
        int64_t* p = (int64_t*)P.in(n * 8);
        ifill(p, n, d, bits);
        uint8_t* pp = P.out(bytes_of_svp_ppol(mod));
        svp_prepare(mod, (SVP_PPOL*)pp, p);
        int64_t* a = (int64_t*)P.in(s.s1 * n * 8);
        ifill(a, s.s1 * n, d, bits);
        uint8_t* res = P.out(bytes_of_vec_znx_dft(mod, s.s2));
        svp_apply_dft(mod, (VEC_ZNX_DFT*)res, s.s2, (SVP_PPOL*)pp, a, s.s1, n);
        grab(res, bytes_of_vec_znx_dft(mod, s.s2));
      } else if (s.fn == M_NORM) {
        int64_t* a = (int64_t*)P.in(s.s1 * n * 8);
        ifill(a, s.s1 * n, d, 62);
        int64_t* r = (int64_t*)P.out(s.s2 * n * 8);
        uint8_t* t = P.scratch(vec_znx_normalize_base2k_tmp_bytes(mod));
        vec_znx_normalize_base2k(mod, s.p1, r, s.s2, n, a, s.s1, n, t);
        grab(r, s.s2 * n * 8);
      } else {
        int64_t* a = (int64_t*)P.in(s.s1 * n * 8);
        ifill(a, s.s1 * n, d, mt == FFT64 ? bits : 63);
        if (mt == FFT64 && (s.ncols & 1)) {
          // in place (res == a_dft): the limbs beyond a_size must be cleared whatever the shared buffer held before
          const uint64_t limbs = std::max(s.s1, s.s2);
          uint8_t* x = P.out(limbs * n * 8);
          vec_znx_dft(mod, (VEC_ZNX_DFT*)x, s.s1, a, s.s1, n);
          uint8_t* t = P.scratch(vec_znx_idft_tmp_bytes(mod));
          vec_znx_idft(mod, (VEC_ZNX_BIG*)x, s.s2, (VEC_ZNX_DFT*)x, s.s1, t);
          grab(x, s.s2 * n * 8);
        } else {
          uint8_t* dd = P.out(s.s1 * spq::dft_limb_bytes(mt, n));
          vec_znx_dft(mod, (VEC_ZNX_DFT*)dd, s.s1, a, s.s1, n);
          uint8_t* g = P.out(s.s2 * spq::big_limb_bytes(mt, n));
          uint8_t* t = P.scratch(vec_znx_idft_tmp_bytes(mod));
          vec_znx_idft(mod, (VEC_ZNX_BIG*)g, s.s2, (VEC_ZNX_DFT*)dd, s.s1, t);
          grab(dd, s.s1 * spq::dft_limb_bytes(mt, n));
          grab(g, s.s2 * spq::big_limb_bytes(mt, n));
        }
      }
    }
  }
  if (P.ar.check_canaries() >= 0) out.assign(1, 0xEE);  // turns into a mismatch / reported by the caller
  return out;
}

static std::string spec_str(const Spec& s) {
  char b[256];
  snprintf(b, sizeof b, "%s(m=2^%llu, divisor=%g, p=%u, shape=%llu/%llu/%llux%llu, %s, data=%llx)", FNAMES[s.fn], (unsigned long long)s.logm, s.divisor, s.p1, (unsigned long long)s.s1,
           (unsigned long long)s.s2, (unsigned long long)s.nrows, (unsigned long long)s.ncols, s.mtype ? "NTT120" : "FFT64", (unsigned long long)s.dseed);
  return b;
}

std::vector<Sub> vh_subs() {
  std::vector<Sub> subs;
  Sub s;
  s.name = "history";
  s.fields = {{"len", 50, 400}, {"maxlog", 2, 16}, {"reissue", 10, 90}, {"fnmask", 1, 255}, {"seed", 0, INT64_MAX - 1}};
  s.run = [](const Vals& v, Ctx& ctx) {
    const uint64_t len = v[0];
    Rng r((uint64_t)v[4]);
    std::vector<Spec> hist;
    std::vector<std::vector<uint8_t>> outs;
    uint64_t repeats = 0, interesting = 0, fresh_checks = 0, fresh_modules = 0, other_thread_calls = 0;
    const unsigned csr0 = _mm_getcsr() & 0xFFC0u;
    std::map<int, int> fam;
    for (uint64_t t = 0; t < len; ++t) {
      Spec sp = gen_spec(r, (uint64_t)v[1], (uint32_t)v[3]);
      // bias towards re-using a (function, dimension) with a different parameter: that is what a cache keyed on too little gets wrong
      if (!hist.empty() && r.below(100) < 35) {
        const Spec& prev = hist[r.below(hist.size())];
        sp.fn = prev.fn; sp.logm = prev.logm; sp.s1 = prev.s1; sp.s2 = prev.s2; sp.nrows = prev.nrows; sp.ncols = prev.ncols; sp.mtype = prev.mtype;
        if (sp.fn == REIM_TO64_S) sp.p1 = (r.next() & 1) ? 40 + (uint32_t)r.below(11) : 51 + (uint32_t)r.below(13);
        else if (sp.fn == REIM_FROM64_S) sp.p1 = (uint32_t)r.below(51);
        else if (sp.fn == CPLX_TO_TNX32_S) sp.p1 = r.below(2) ? (uint32_t)r.below(19) : 19 + (uint32_t)r.below(12);
        else if (sp.fn == M_NORM) sp.p1 = 1 + (uint32_t)r.below(62);
        else sp.p1 = prev.p1;
      }
      // one call in eight is made by another (freshly created) thread: state that is shared between threads although the cache it
      // belongs to is per thread shows up as a main-thread call that depends on what the other thread did in between
      std::vector<uint8_t> o;
      {
        const uint64_t ps = r.next();
        const int pf = (int)r.below(4);
        if (r.below(8) == 0) {
          std::thread th([&]() { o = execute(sp, ps, pf, false); });
          th.join();
          ++other_thread_calls;
        } else {
          o = execute(sp, ps, pf, false);
        }
      }
      if (o.size() == 1 && o[0] == 0xEE) return ctx.failf("call %llu %s wrote outside its buffers", (unsigned long long)t, spec_str(sp).c_str());
      {
        // hidden thread state: the floating-point control bits (rounding mode, FTZ, DAZ, exception masks) must be what they were
        const unsigned csr = _mm_getcsr() & 0xFFC0u;
        if (csr != csr0) {
          _mm_setcsr((_mm_getcsr() & ~0xFFC0u) | csr0);
          return ctx.failf("call %llu of the history, %s, left the floating-point control state changed (MXCSR control bits 0x%04x -> 0x%04x): later results depend on it",
                           (unsigned long long)t, spec_str(sp).c_str(), csr0, csr);
        }
      }
      const bool module_call = sp.fn >= M_SMALL && sp.fn <= M_DFT_IDFT;
      if (sp.fn < NSIMPLE || (module_call && sp.logm <= 10 && r.below(3) == 0)) {
        std::vector<uint8_t> f = execute(sp, r.next(), (int)r.below(4), true);
        ++fresh_checks;
        if (module_call) ++fresh_modules;
        if (f != o) {
          size_t off = 0;
          while (off < o.size() && off < f.size() && o[off] == f[off]) ++off;
          return ctx.failf("call %llu of the history: %s differs from the same call through a freshly built table / module (first differing output byte %zu)", (unsigned long long)t,
                           spec_str(sp).c_str(), off);
        }
      }
      hist.push_back(sp);
      outs.push_back(o);
      fam[sp.fn]++;
      if (r.below(100) < (uint64_t)v[2]) {
        size_t j = r.below(hist.size());
        std::vector<uint8_t> again = execute(hist[j], r.next(), (int)r.below(4), false);
        ++repeats;
        bool diffparam = false;
        for (size_t q = j + 1; q < hist.size(); ++q)
          if (hist[q].fn == hist[j].fn && !hist[q].same_params(hist[j])) diffparam = true;
        if (diffparam) ++interesting;
        if (again != outs[j]) {
          size_t off = 0;
          while (off < again.size() && off < outs[j].size() && again[off] == outs[j][off]) ++off;
          return ctx.failf("re-issuing call %zu (%s) after %zu further calls gives a different result (first differing output byte %zu)%s", j, spec_str(hist[j]).c_str(),
                           hist.size() - 1 - j, off, diffparam ? "; the same function was called with other parameters in between" : "");
        }
      }
    }
    ctx.notef("history of %llu calls (maxlog=%lld, %llu re-issues of which %llu after a call of the same function with other parameters, %llu fresh-table comparisons); first calls: %s ; %s",
              (unsigned long long)len, (long long)v[1], (unsigned long long)repeats, (unsigned long long)interesting, (unsigned long long)fresh_checks,
              spec_str(hist[0]).c_str(), spec_str(hist[1]).c_str());
    ctx.nontrivial = interesting >= 1;
    for (auto& kv : fam) ctx.cls(std::string("fn:") + FNAMES[kv.first]);
    if (interesting) ctx.cls("repeat_after_other_params");
    if (fresh_modules) ctx.cls("fresh-module == long-lived module (heap fill varied)");
    if (other_thread_calls) ctx.cls("calls made by another thread");
    {
      uint64_t lo = 99, hi = 0;
      bool tiny = false;
      for (auto& h : hist) { if (h.fn < NSIMPLE) { lo = std::min(lo, h.logm); hi = std::max(hi, h.logm); } tiny = tiny || h.tiny; }
      if (lo == 0 && hi >= 16) ctx.cls("simple:m=1 and m=65536 in one history");
      if (hi >= 12) ctx.cls("simple:m>=4096");
      if (tiny) ctx.cls("subnormal-range operands");
    }
  };
  subs.push_back(s);
  return subs;
}
