// Writes seed inputs for fuzz/api_program.cpp: runs the program generator with a recording chooser (SplitMix64 choices)
// and serialises the draws in FuzzedDataProvider's encoding (integrals are consumed from the END of the input, most
// significant byte first).  usage: mkcorpus OUTDIR COUNT
#include <sys/stat.h>

#include "pipeline.hpp"

struct Recorder {
  vh::Rng r;
  std::vector<uint8_t> consumed;  // bytes in consumption order
  explicit Recorder(uint64_t seed) : r(seed) {}
  void put(uint64_t v, uint64_t range) {  // mirrors ConsumeIntegralInRange(0, range)
    int nb = 0;
    for (uint64_t t = range; t > 0 && nb < 8; t >>= 8) ++nb;
    for (int i = nb - 1; i >= 0; --i) consumed.push_back((uint8_t)(v >> (8 * i)));
  }
  uint64_t below(uint64_t n) {
    if (n <= 1) return 0;
    uint64_t v = r.below(n);
    put(v, n - 1);
    return v;
  }
};

int main(int argc, char** argv) {
  if (argc < 3) return 2;
  mkdir(argv[1], 0755);
  int count = atoi(argv[2]);
  for (int i = 0; i < count; ++i) {
    Recorder rec(1000 + i);
    uint64_t k = 1 + rec.below(7);
    uint64_t mtd = rec.below(4);
    MODULE_TYPE mt = mtd == 0 ? NTT120 : FFT64;
    unsigned mask = spq::FULL;
    if (mt == FFT64) { uint64_t b = rec.r.below(2); rec.put(b, 255); mask = b ? spq::GENERIC : spq::FULL; }
    uint64_t len = 1 + rec.below(40);
    pipeline::Machine<Recorder> m(k, mt, mask, rec);
    for (uint64_t s = 0; s < len && m.fail.empty(); ++s) m.step();
    if (m.fail.empty()) m.flush();
    if (!m.fail.empty()) { fprintf(stderr, "seed %d fails: %s\n", i, m.fail.c_str()); return 1; }
    std::vector<uint8_t> file(rec.consumed.rbegin(), rec.consumed.rend());
    // pad at the FRONT (consumed last) so that the fuzz target's remaining_bytes() guard never stops the program early
    file.insert(file.begin(), 64, 0);
    char path[512];
    snprintf(path, sizeof path, "%s/seed%03d", argv[1], i);
    FILE* fp = fopen(path, "wb");
    fwrite(file.data(), 1, file.size(), fp);
    fclose(fp);
  }
  return 0;
}
