// Generic coverage-guided driver for the rapidcheck subs of one property: linked with props/cXX.cpp (which defines vh_subs())
// instead of engine/harness.cpp.  The input bytes are decoded (FuzzedDataProvider) into a sub index and one in-range value per
// descriptor field, so every input is a case of the documented domain by construction; the sub's own run function expands it,
// calls the library (built with -fsanitize=fuzzer-no-link, so libFuzzer sees which library branches a descriptor reaches) and
// applies the property's oracle.  A failed oracle prints the descriptor in the harness's replay format and traps.
//
// Environment (set by ./check):
//   VERIF_FUZZ_FIX   "field=lo..hi;field=lo..hi"   narrows a field wherever a sub has it (keeps single executions cheap)
//   VERIF_FUZZ_SKIP  "sub,sub"                      subs not driven here (exhaustive strata, subs that spawn processes)
//   VERIF_FUZZ_STATS / VERIF_FUZZ_REPORT            counters / violation text
#include <fuzzer/FuzzedDataProvider.h>

#include <algorithm>
#include <cstdlib>
#include <map>
#include <string>
#include <unordered_set>

#include "harness.hpp"

namespace vh {
bool g_replaying = false;
int harness_main(int, char**, const char*, const std::vector<Sub>&) { return 2; }
}  // namespace vh

static std::vector<vh::Sub>* g_subs = nullptr;
static uint64_t g_execs = 0, g_nontrivial = 0, g_discards = 0;
static std::unordered_set<uint64_t>* g_seen = nullptr;
static std::map<std::string, uint64_t>* g_classes = nullptr;
static std::map<std::string, uint64_t>* g_persub = nullptr;

static std::string jesc(const std::string& s) {
  std::string o;
  for (char ch : s) {
    if (ch == '"' || ch == '\\') { o += '\\'; o += ch; }
    else if ((unsigned char)ch < 0x20) o += ' ';
    else o += ch;
  }
  return o;
}

static void dump_stats() {
  const char* p = getenv("VERIF_FUZZ_STATS");
  if (!p) return;
  FILE* fp = fopen(p, "w");
  if (!fp) return;
  fprintf(fp, "{\"execs\":%llu,\"nontrivial\":%llu,\"distinct_nontrivial\":%llu,\"discards\":%llu,\"full_chain\":0,\"subs\":{", (unsigned long long)g_execs,
          (unsigned long long)g_nontrivial, (unsigned long long)(g_seen ? g_seen->size() : 0), (unsigned long long)g_discards);
  bool first = true;
  if (g_persub)
    for (auto& kv : *g_persub) { fprintf(fp, "%s\"%s\":%llu", first ? "" : ",", jesc(kv.first).c_str(), (unsigned long long)kv.second); first = false; }
  fprintf(fp, "},\"classes\":{");
  first = true;
  if (g_classes)
    for (auto& kv : *g_classes) { fprintf(fp, "%s\"%s\":%llu", first ? "" : ",", jesc(kv.first).c_str(), (unsigned long long)kv.second); first = false; }
  fprintf(fp, "}}\n");
  fclose(fp);
}

static std::vector<std::string> split(const std::string& s, char sep) {
  std::vector<std::string> out;
  size_t b = 0;
  while (b <= s.size()) {
    size_t e = s.find(sep, b);
    if (e == std::string::npos) e = s.size();
    if (e > b) out.push_back(s.substr(b, e - b));
    b = e + 1;
  }
  return out;
}

extern "C" int LLVMFuzzerInitialize(int*, char***) {
  g_seen = new std::unordered_set<uint64_t>();
  g_classes = new std::map<std::string, uint64_t>();
  g_persub = new std::map<std::string, uint64_t>();
  std::vector<vh::Sub> all = vh_subs();
  std::vector<std::string> skip = split(getenv("VERIF_FUZZ_SKIP") ? getenv("VERIF_FUZZ_SKIP") : "", ',');
  g_subs = new std::vector<vh::Sub>();
  for (auto& s : all)
    if (std::find(skip.begin(), skip.end(), s.name) == skip.end()) g_subs->push_back(s);
  for (auto& item : split(getenv("VERIF_FUZZ_FIX") ? getenv("VERIF_FUZZ_FIX") : "", ';')) {
    size_t eq = item.find('='), dd = item.find("..");
    if (eq == std::string::npos || dd == std::string::npos) continue;
    std::string name = item.substr(0, eq);
    int64_t lo = atoll(item.substr(eq + 1, dd - eq - 1).c_str()), hi = atoll(item.substr(dd + 2).c_str());
    for (auto& s : *g_subs)
      for (auto& f : s.fields)
        if (f.name == name) {
          f.lo = std::max(f.lo, lo);
          f.hi = std::min(f.hi, hi);
          if (f.lo > f.hi) { fprintf(stderr, "descriptor fuzzer: empty range for %s in sub %s\n", name.c_str(), s.name.c_str()); abort(); }
        }
  }
  if (g_subs->empty()) { fprintf(stderr, "descriptor fuzzer: no subs\n"); abort(); }
  atexit(dump_stats);
  return 0;
}

extern "C" int LLVMFuzzerTestOneInput(const uint8_t* data, size_t size) {
  if (size < 2) return 0;
  FuzzedDataProvider fdp(data, size);
  const vh::Sub& sub = (*g_subs)[fdp.ConsumeIntegralInRange<size_t>(0, g_subs->size() - 1)];
  vh::Vals v;
  v.reserve(sub.fields.size());
  for (auto& f : sub.fields) v.push_back(f.lo == f.hi ? f.lo : fdp.ConsumeIntegralInRange<int64_t>(f.lo, f.hi));
  vh::Ctx c;
  vh::g_case_hash = vh::fnv1a(v.data(), v.size() * sizeof(int64_t), vh::fnv1a(sub.name.data(), sub.name.size()));
  sub.run(v, c);
  if (c.discard) { ++g_discards; return 0; }
  ++g_execs;
  (*g_persub)[sub.name]++;
  if (g_classes->size() < 4000)
    for (auto& k : c.classes) (*g_classes)[k]++;
  if (c.nontrivial) {
    ++g_nontrivial;
    if (g_seen->size() < 2000000) {
      uint64_t h = vh::fnv1a(sub.name.data(), sub.name.size());
      h = vh::fnv1a(v.data(), v.size() * sizeof(int64_t), h);
      g_seen->insert(h);
    }
  }
  if (c.failed()) {
    std::string j = "{\"property\":\"" + std::string(vh_property_id) + "\",\"sub\":\"" + sub.name + "\",\"fields\":{";
    for (size_t i = 0; i < v.size(); ++i) j += (i ? ",\"" : "\"") + sub.fields[i].name + "\":" + std::to_string(v[i]);
    j += "},\"message\":\"" + jesc(c.fail) + "\",\"note\":\"" + jesc(c.note) + "\"}";
    fprintf(stderr, "FUZZ-VIOLATION %s\n", j.c_str());
    const char* rp = getenv("VERIF_FUZZ_REPORT");
    FILE* fp = rp ? fopen(rp, "w") : nullptr;
    if (fp) { fprintf(fp, "%s\n", j.c_str()); fclose(fp); }
    dump_stats();
    __builtin_trap();
  }
  return 0;
}
