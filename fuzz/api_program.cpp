// libFuzzer target (structure-aware): bytes -> FuzzedDataProvider -> a well-typed straight-line program over the public
// MODULE API, executed in lock step with the exact interpreter of engine/pipeline.hpp (the C16 oracle; the arena and
// ASan/UBSan make it a C11 oracle as well).  Built with -fsanitize=fuzzer,address + the UBSan subset against the
// fuzzer-no-link instrumented library.  A violation writes the program to $VERIF_FUZZ_REPORT and traps.
#include <fuzzer/FuzzedDataProvider.h>

#include <unordered_set>

#include "pipeline.hpp"

struct FdpChooser {
  FuzzedDataProvider& f;
  uint64_t below(uint64_t n) { return n > 1 ? f.ConsumeIntegralInRange<uint64_t>(0, n - 1) : 0; }
};

static uint64_t g_execs = 0, g_nontrivial = 0, g_fullchain = 0;
static std::unordered_set<uint64_t>* g_seen = nullptr;
static void dump_stats() {
  const char* p = getenv("VERIF_FUZZ_STATS");
  if (!p) return;
  FILE* fp = fopen(p, "w");
  if (!fp) return;
  fprintf(fp, "{\"execs\":%llu,\"nontrivial\":%llu,\"distinct_nontrivial\":%llu,\"full_chain\":%llu}\n", (unsigned long long)g_execs, (unsigned long long)g_nontrivial,
          (unsigned long long)(g_seen ? g_seen->size() : 0), (unsigned long long)g_fullchain);
  fclose(fp);
}

extern "C" int LLVMFuzzerInitialize(int*, char***) {
  g_seen = new std::unordered_set<uint64_t>();
  atexit(dump_stats);
  return 0;
}

extern "C" int LLVMFuzzerTestOneInput(const uint8_t* data, size_t size) {
  if (size < 4) return 0;
  FuzzedDataProvider fdp(data, size);
  // header: dimension (small N keeps the exact oracle fast; N<8 and N>=8 layouts both reachable), module type, cfg, length
  const uint64_t k = fdp.ConsumeIntegralInRange<uint64_t>(1, 7);
  const MODULE_TYPE mt = fdp.ConsumeIntegralInRange<int>(0, 3) == 0 ? NTT120 : FFT64;
  const unsigned mask = (mt == FFT64 && fdp.ConsumeBool()) ? spq::GENERIC : spq::FULL;
  const uint64_t len = fdp.ConsumeIntegralInRange<uint64_t>(1, 40);
  vh::g_case_hash = vh::fnv1a(data, size);
  FdpChooser ch{fdp};
  pipeline::Machine<FdpChooser> m(k, mt, mask, ch);
  for (uint64_t i = 0; i < len && m.fail.empty() && fdp.remaining_bytes() > 0; ++i) m.step();
  if (m.fail.empty()) m.flush();
  ++g_execs;
  if (m.full_chain || __builtin_popcount(m.reached) >= 3) {
    ++g_nontrivial;
    if (m.full_chain) ++g_fullchain;
    if (g_seen->size() < 300000) {
      std::string p = m.program();
      g_seen->insert(vh::fnv1a(p.data(), p.size()));
    }
  }
  if (!m.fail.empty()) {
    const char* rp = getenv("VERIF_FUZZ_REPORT");
    FILE* fp = rp ? fopen(rp, "w") : nullptr;
    std::string prog = m.program();
    fprintf(stderr, "FUZZ-VIOLATION N=%llu %s cfg=%s: %s\nprogram: %s\n", 1ull << k, mt == FFT64 ? "FFT64" : "NTT120", mask ? "generic" : "full", m.fail.c_str(), prog.c_str());
    if (fp) {
      fprintf(fp, "N=%llu %s cfg=%s: %s\nprogram: %s\n", 1ull << k, mt == FFT64 ? "FFT64" : "NTT120", mask ? "generic" : "full", m.fail.c_str(), prog.c_str());
      fclose(fp);
    }
    dump_stats();
    __builtin_trap();
  }
  return 0;
}
