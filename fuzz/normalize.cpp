// libFuzzer target for C05 with BYTE-LEVEL operand data: the limbs of every coefficient come straight from the fuzzer's bytes
// (front of the input), the shape from a FuzzedDataProvider header (end of the input), so libFuzzer's mutators and its value
// profile (-use_value_profile=1) search the *values* -- carries that stop exactly at a digit boundary, +-2^62 next to +-2^(k-1),
// a carry travelling through dropped limbs -- where the rapidcheck sub expands a seed through fixed families.  Oracle and runner
// are the ones of props/c05.cpp (exact int128 carry chain, GMP self-check, whole-buffer comparison, guard pages).
#include <fuzzer/FuzzedDataProvider.h>

#include <unordered_set>

#include "../props/c05.cpp"

namespace vh {
bool g_replaying = false;
int harness_main(int, char**, const char*, const std::vector<Sub>&) { return 2; }
}  // namespace vh

static uint64_t g_execs = 0, g_nontrivial = 0;
static std::unordered_set<uint64_t>* g_seen = nullptr;
static void dump_stats() {
  const char* p = getenv("VERIF_FUZZ_STATS");
  if (!p) return;
  FILE* fp = fopen(p, "w");
  if (!fp) return;
  fprintf(fp, "{\"execs\":%llu,\"nontrivial\":%llu,\"distinct_nontrivial\":%llu,\"full_chain\":0}\n", (unsigned long long)g_execs, (unsigned long long)g_nontrivial,
          (unsigned long long)(g_seen ? g_seen->size() : 0));
  fclose(fp);
}
extern "C" int LLVMFuzzerInitialize(int*, char***) {
  g_seen = new std::unordered_set<uint64_t>();
  atexit(dump_stats);
  return 0;
}

static int64_t clamp62(int64_t x) {  // documented operand range |a_i| <= 2^62: fold the two top binades back instead of rejecting
  while (x > P62 || x < -P62) x >>= 1;
  return x;
}

extern "C" int LLVMFuzzerTestOneInput(const uint8_t* data, size_t size) {
  if (size < 12) return 0;
  FuzzedDataProvider f(data, size);
  const bool kernel = f.ConsumeIntegralInRange<int>(0, 4) == 0;
  const unsigned k = f.ConsumeIntegralInRange<unsigned>(1, 62);
  Ctx c;
  if (!kernel) {
    const uint64_t kN = f.ConsumeIntegralInRange<uint64_t>(1, 4);
    const int variant = f.ConsumeIntegralInRange<int>(0, 2);
    const uint64_t res_size = f.ConsumeIntegralInRange<uint64_t>(0, 7), a_size = f.ConsumeIntegralInRange<uint64_t>(0, 7);
    const uint64_t res_pad = f.ConsumeIntegralInRange<uint64_t>(0, 3), a_pad = f.ConsumeIntegralInRange<uint64_t>(0, 3);
    const bool inplace = f.ConsumeBool();
    const uint64_t begin = f.ConsumeIntegralInRange<uint64_t>(0, 3), step = f.ConsumeIntegralInRange<uint64_t>(1, 4);
    const int mtype = f.ConsumeIntegralInRange<int>(0, 1), prefill = f.ConsumeIntegralInRange<int>(0, 3);
    const uint64_t seed = f.ConsumeIntegral<uint16_t>();
    // data: one tuple of a_size limbs per coefficient (tiled over the N coefficients when the input is shorter)
    std::vector<std::vector<int64_t>> forced;
    const uint64_t n = 1ull << kN;
    for (uint64_t q = 0; q < n; ++q) {
      if (f.remaining_bytes() < 8 * a_size || (a_size == 0 && q > 0)) break;
      std::vector<int64_t> t(a_size);
      for (auto& x : t) {
        std::vector<uint8_t> b = f.ConsumeBytes<uint8_t>(8);
        int64_t v = 0;
        memcpy(&v, b.data(), std::min<size_t>(8, b.size()));
        x = clamp62(v);
      }
      forced.push_back(t);
    }
    if (forced.empty()) forced.push_back(std::vector<int64_t>(a_size, 0));
    run_vec(c, kN, k, variant, res_size, a_size, res_pad, a_pad, inplace, begin, step, 0, mtype, prefill, seed, &forced);
  } else {
    // single-limb primitive with explicit in / carry_in values
    const int combo = f.ConsumeIntegralInRange<int>(0, 5);
    const int alias = f.ConsumeIntegralInRange<int>(0, 3);
    const uint64_t n = 1ull << f.ConsumeIntegralInRange<unsigned>(0, 3);
    const bool has_out = combo <= 3, has_cout = combo == 1 || combo == 3 || combo >= 4, has_cin = combo == 2 || combo == 3 || combo == 5;
    Arena ar;
    Buf IN = ar.alloc(n * 8, OVER), OUT = ar.alloc(n * 8, OVER, 0, 1), CIN = ar.alloc(n * 8, UNDER), COUT = ar.alloc(n * 8, OVER, 0, 2);
    int64_t *in = IN.as<int64_t>(), *cin = CIN.as<int64_t>();
    const int64_t cmax = (int64_t)1 << std::min<unsigned>(63 - k, 62);  // |carry_in| <= 2^(63-k)
    for (uint64_t i = 0; i < n; ++i) {
      std::vector<uint8_t> b = f.ConsumeBytes<uint8_t>(16);
      b.resize(16, 0);
      int64_t x, y;
      memcpy(&x, b.data(), 8);
      memcpy(&y, b.data() + 8, 8);
      in[i] = clamp62(x);
      while (y > cmax || y < -cmax) y >>= 1;
      cin[i] = y;
    }
    std::vector<int64_t> in0(in, in + n), cin0(cin, cin + n);
    int64_t* outp = has_out ? ((alias & 1) ? in : OUT.as<int64_t>()) : nullptr;
    int64_t* coutp = has_cout ? (((alias & 2) && has_cin) ? cin : COUT.as<int64_t>()) : nullptr;
    znx_normalize(n, k, outp, coutp, in, has_cin ? cin : nullptr);
    const orc::i128 B = (orc::i128)1 << k;
    for (uint64_t i = 0; i < n && !c.failed(); ++i) {
      orc::i128 t = (orc::i128)in0[i] + (has_cin ? cin0[i] : 0);
      int64_t d = orc::balanced_digit(t, k);
      orc::i128 co = (t - d) / B;
      if (has_out && outp[i] != d) c.failf("znx_normalize k=%u in=%lld cin=%lld: out=%lld, expected %lld", k, (long long)in0[i], (long long)(has_cin ? cin0[i] : 0), (long long)outp[i], (long long)d);
      if (has_cout && (orc::i128)coutp[i] != co) c.failf("znx_normalize k=%u in=%lld cin=%lld: carry_out=%lld, expected %lld", k, (long long)in0[i], (long long)(has_cin ? cin0[i] : 0), (long long)coutp[i], (long long)co);
    }
    if (!c.failed() && ar.check_canaries() >= 0) c.failf("znx_normalize wrote outside its buffers");
    c.nontrivial = has_cin || has_cout;
  }
  ++g_execs;
  if (c.nontrivial) {
    ++g_nontrivial;
    if (g_seen->size() < 2000000) g_seen->insert(vh::fnv1a(data, size));
  }
  if (c.failed()) {
    fprintf(stderr, "FUZZ-VIOLATION C05 %s || %s\n", c.fail.c_str(), c.note.c_str());
    const char* rp = getenv("VERIF_FUZZ_REPORT");
    FILE* fp = rp ? fopen(rp, "w") : nullptr;
    if (fp) { fprintf(fp, "%s || %s\n", c.fail.c_str(), c.note.c_str()); fclose(fp); }
    dump_stats();
    __builtin_trap();
  }
  return 0;
}
