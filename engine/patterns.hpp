// Value pattern families for integer polynomials (DESIGN §1 "values"): every family satisfies |x_i| <= M.
#pragma once
#include <cmath>
#include <cstdint>

#include "harness.hpp"

namespace pat {

enum Family { ALLMAX = 0, ALTERNATING, RESONANT, MONOMIAL, SPARSE, MIXED, UNIFORM, DENSE_SMALL, NFAM };
inline const char* name(int f) {
  static const char* n[] = {"allmax", "alternating", "resonant", "monomial", "sparse", "mixed", "uniform", "dense_small"};
  return n[f % NFAM];
}

// Structural triggers of value-dependent shortcuts ("is this limb zero?", "does it fit 32 bits?"), applied to one polynomial in four
// after its family was generated (magnitudes only shrink, so every budget of the caller still holds): every low 32-bit half cleared
// (coefficients become multiples of 2^32), zero on the leading / trailing part, a single coefficient kept at index 0, N/2, N-1 or a
// generated index, the zero polynomial, all coefficients equal.
inline void structure(int64_t* a, uint64_t n, int64_t M, vh::Rng& r) {
  const uint64_t s = r.below(32);
  if (s >= 8 || n == 0) return;
  const uint64_t cut = n > 1 ? 1 + r.below(n - 1) : 0;
  switch (s) {
    case 0:
      if (M >= ((int64_t)1 << 34)) {
        bool any = false;
        for (uint64_t i = 0; i < n; ++i) { a[i] = (int64_t)((uint64_t)a[i] & ~0xFFFFFFFFull); if (a[i] < -M) a[i] += (int64_t)1 << 32; any = any || a[i]; }
        if (!any) a[r.below(n)] = (int64_t)1 << 32;
      }
      break;
    case 1: for (uint64_t i = 0; i < cut; ++i) a[i] = 0; break;
    case 2: for (uint64_t i = cut; i < n; ++i) a[i] = 0; break;
    case 3: case 4: {
      static const int where[4] = {0, 1, 2, 3};
      const uint64_t w = r.below(4);
      const uint64_t idx = where[w] == 0 ? 0 : where[w] == 1 ? n / 2 : where[w] == 2 ? n - 1 : r.below(n);
      int64_t v = a[idx] ? a[idx] : (M > 0 ? ((r.next() & 1) ? M : -M) : 0);
      for (uint64_t i = 0; i < n; ++i) a[i] = 0;
      a[idx] = v;
      break;
    }
    case 5: for (uint64_t i = 0; i < n; ++i) a[i] = 0; break;
    case 6: { int64_t v = a[r.below(n)]; for (uint64_t i = 0; i < n; ++i) a[i] = v; break; }
    default: break;
  }
}

// fills a[0..n) with family f, magnitude bound M >= 0; j = resonance index (evaluation point 2j+1)
inline void fill(int64_t* a, uint64_t n, int f, int64_t M, uint64_t j, vh::Rng& r) {
  for (uint64_t i = 0; i < n; ++i) a[i] = 0;
  if (M <= 0 || n == 0) return;
  switch (f % NFAM) {
    case ALLMAX:
      for (uint64_t i = 0; i < n; ++i) a[i] = M;
      break;
    case ALTERNATING:
      for (uint64_t i = 0; i < n; ++i) a[i] = (i & 1) ? -M : M;
      break;
    case RESONANT: {
      // sign pattern aligned with the evaluation point exp(i*pi*(2j+1)/n): maximises one FFT output
      const long double th = M_PIl * (long double)(2 * (j % n) + 1) / (long double)n;
      const bool use_sin = (j / n) & 1;
      for (uint64_t i = 0; i < n; ++i) {
        long double c = use_sin ? sinl(th * i) : cosl(th * i);
        a[i] = c >= 0 ? M : -M;
      }
      break;
    }
    case MONOMIAL:
      a[r.below(n)] = (r.next() & 1) ? M : -M;
      break;
    case SPARSE: {
      uint64_t t = 1 + r.below(8);
      for (uint64_t q = 0; q < t; ++q) a[r.below(n)] = (r.next() & 1) ? M : -M;
      break;
    }
    case MIXED: {
      unsigned bits = 0;
      while (bits < 62 && ((int64_t)1 << (bits + 1)) <= M) ++bits;
      for (uint64_t i = 0; i < n; ++i) {
        unsigned b = (unsigned)r.below(bits + 1);
        int64_t x = r.sbits(b + 1);
        if (x > M) x = M;
        if (x < -M) x = -M;
        a[i] = x;
      }
      break;
    }
    case UNIFORM:
      for (uint64_t i = 0; i < n; ++i) a[i] = r.sym(M);
      break;
    default: {
      int64_t m = M < 3 ? M : 3;
      for (uint64_t i = 0; i < n; ++i) a[i] = r.sym(m);
    }
  }
  structure(a, n, M, r);
}

}  // namespace pat
