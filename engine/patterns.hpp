// Value pattern families for integer polynomials (DESIGN §1 "values"): every family satisfies |x_i| <= M.
#pragma once
#include <cmath>
#include <cstdint>

#include "harness.hpp"

namespace pat {

enum Family { ALLMAX = 0, ALTERNATING, RESONANT, MONOMIAL, SPARSE, MIXED, UNIFORM, DENSE_SMALL, NFAM };
inline const char* name(int f) {
  static const char* n[] = {"allmax", "alternating", "resonant", "monomial", "sparse", "mixed", "uniform", "dense_small"};
  return n[f % NFAM];
}

// fills a[0..n) with family f, magnitude bound M >= 0; j = resonance index (evaluation point 2j+1)
inline void fill(int64_t* a, uint64_t n, int f, int64_t M, uint64_t j, vh::Rng& r) {
  for (uint64_t i = 0; i < n; ++i) a[i] = 0;
  if (M <= 0 || n == 0) return;
  switch (f % NFAM) {
    case ALLMAX:
      for (uint64_t i = 0; i < n; ++i) a[i] = M;
      break;
    case ALTERNATING:
      for (uint64_t i = 0; i < n; ++i) a[i] = (i & 1) ? -M : M;
      break;
    case RESONANT: {
      // sign pattern aligned with the evaluation point exp(i*pi*(2j+1)/n): maximises one FFT output
      const long double th = M_PIl * (long double)(2 * (j % n) + 1) / (long double)n;
      const bool use_sin = (j / n) & 1;
      for (uint64_t i = 0; i < n; ++i) {
        long double c = use_sin ? sinl(th * i) : cosl(th * i);
        a[i] = c >= 0 ? M : -M;
      }
      break;
    }
    case MONOMIAL:
      a[r.below(n)] = (r.next() & 1) ? M : -M;
      break;
    case SPARSE: {
      uint64_t t = 1 + r.below(8);
      for (uint64_t q = 0; q < t; ++q) a[r.below(n)] = (r.next() & 1) ? M : -M;
      break;
    }
    case MIXED: {
      unsigned bits = 0;
      while (bits < 62 && ((int64_t)1 << (bits + 1)) <= M) ++bits;
      for (uint64_t i = 0; i < n; ++i) {
        unsigned b = (unsigned)r.below(bits + 1);
        int64_t x = r.sbits(b + 1);
        if (x > M) x = M;
        if (x < -M) x = -M;
        a[i] = x;
      }
      break;
    }
    case UNIFORM:
      for (uint64_t i = 0; i < n; ++i) a[i] = r.sym(M);
      break;
    default: {
      int64_t m = M < 3 ? M : 3;
      for (uint64_t i = 0; i < n; ++i) a[i] = r.sym(m);
    }
  }
}

}  // namespace pat
