// Library headers (public + internal: every symbol is exported) and small helpers shared by the props.
// Harness TUs are compiled with -DNDEBUG -DSPQLIOS_VERIF like the library (struct layouts depend on NDEBUG).
#pragma once
#include <cstdint>
#include <map>
#include <tuple>

#include "spqlios/arithmetic/vec_znx_arithmetic_private.h"
#include "spqlios/coeffs/coeffs_arithmetic.h"
#include "spqlios/commons_private.h"
#include "spqlios/cplx/cplx_fft_internal.h"
#include "spqlios/cplx/cplx_fft_private.h"
#include "spqlios/q120/q120_arithmetic.h"
#include "spqlios/q120/q120_arithmetic_private.h"
#include "spqlios/q120/q120_ntt.h"
#include "spqlios/q120/q120_ntt_private.h"
#include "spqlios/reim/reim_fft_internal.h"
#include "spqlios/reim/reim_fft_private.h"
#include "spqlios/reim4/reim4_arithmetic.h"
#include "spqlios/reim4/reim4_fftvec_internal.h"
#include "spqlios/reim4/reim4_fftvec_private.h"
#include "spqlios/reim4/reim4_fftvec_public.h"

namespace spq {

enum CpuCfg { FULL = 0, GENERIC = 3, NO_AVX2 = 1, NO_FMA = 2 };  // value = hidden-feature mask of the hook

struct MaskGuard {
  explicit MaskGuard(unsigned m) { spqlios_verif_set_cpu_mask(m); }
  ~MaskGuard() { spqlios_verif_set_cpu_mask(0); }
};

// MODULE cache: modules are immutable after creation (C12), creating one for N=65536 costs ~10 ms.
// Deleting a module re-evaluates CPU_SUPPORTS, so the cache restores the creation mask around delete.
struct ModuleCache {
  std::map<std::tuple<uint64_t, int, unsigned>, MODULE*> m;
  MODULE* get(uint64_t nn, MODULE_TYPE t, unsigned mask = 0) {
    auto key = std::make_tuple(nn, (int)t, mask);
    auto it = m.find(key);
    if (it != m.end()) return it->second;
    MaskGuard g(mask);
    MODULE* mod = new_module_info(nn, t);
    m[key] = mod;
    return mod;
  }
  ~ModuleCache() {
    for (auto& kv : m) {
      MaskGuard g(std::get<2>(kv.first));
      delete_module_info(kv.second);
    }
  }
};
inline ModuleCache& modules() {
  static ModuleCache c;
  return c;
}

// sizes of opaque NTT120 objects (the vtable slots bytes_of_* are NULL for NTT120; same formulas as
// test/testlib/ntt120_layouts.cpp)
inline uint64_t dft_limb_bytes(MODULE_TYPE t, uint64_t nn) { return t == FFT64 ? nn * 8 : nn * 32; }
inline uint64_t big_limb_bytes(MODULE_TYPE t, uint64_t nn) { return t == FFT64 ? nn * 8 : nn * 16; }

}  // namespace spq
