// Library headers (public + internal: every symbol is exported) and small helpers shared by the props.
// Harness TUs are compiled with -DNDEBUG -DSPQLIOS_VERIF like the library (struct layouts depend on NDEBUG).
#pragma once
#include <cstdint>
#include <cstdlib>
#include <map>
#include <tuple>
#include <vector>

#include "harness.hpp"

#include "spqlios/arithmetic/vec_znx_arithmetic_private.h"
#include "spqlios/coeffs/coeffs_arithmetic.h"
#include "spqlios/commons_private.h"
#include "spqlios/cplx/cplx_fft_internal.h"
#include "spqlios/cplx/cplx_fft_private.h"
#include "spqlios/q120/q120_arithmetic.h"
#include "spqlios/q120/q120_arithmetic_private.h"
#include "spqlios/q120/q120_ntt.h"
#include "spqlios/q120/q120_ntt_private.h"
#include "spqlios/reim/reim_fft_internal.h"
#include "spqlios/reim/reim_fft_private.h"
#include "spqlios/reim4/reim4_arithmetic.h"
#include "spqlios/reim4/reim4_fftvec_internal.h"
#include "spqlios/reim4/reim4_fftvec_private.h"
#include "spqlios/reim4/reim4_fftvec_public.h"

namespace spq {

enum CpuCfg { FULL = 0, GENERIC = 3, NO_AVX2 = 1, NO_FMA = 2 };  // value = hidden-feature mask of the hook

struct MaskGuard {
  explicit MaskGuard(unsigned m) { spqlios_verif_set_cpu_mask(m); }
  ~MaskGuard() { spqlios_verif_set_cpu_mask(0); }
};

// ---------------------------------------------------------------------------------------------------------------------
// Bystanders: other live objects.  An application holds many modules / precomputed tables of different dimensions and types at
// once and creates and destroys them at any time; none of that may change what an existing object computes.  In one case out of
// eight (a pure function of the case descriptor, so a replay repeats it), AFTER the object under test exists, one more object of
// another dimension / type is created, used once, and either destroyed at once or parked (up to 4 parked, the oldest is
// destroyed).  Called from ModuleCache::get and from the props' own table caches.
struct Bystanders {
  struct Live { int kind; void* p; };
  std::vector<Live> parked;
  uint64_t last_case = 0;
  uint64_t created = 0;
  static uint64_t mix(uint64_t z) {
    z = (z ^ (z >> 30)) * 0xBF58476D1CE4E5B9ull;
    z = (z ^ (z >> 27)) * 0x94D049BB133111EBull;
    return z ^ (z >> 31);
  }
  static void destroy(const Live& l) {
    switch (l.kind) {
      case 0: case 1: delete_module_info((MODULE*)l.p); break;
      case 2: q120_del_ntt_bb_precomp((q120_ntt_precomp*)l.p); break;
      case 3: q120_del_intt_bb_precomp((q120_ntt_precomp*)l.p); break;
      case 4: delete_reim_fft_precomp((REIM_FFT_PRECOMP*)l.p); break;
      case 5: delete_reim_ifft_precomp((REIM_IFFT_PRECOMP*)l.p); break;
      default: free(l.p);  // cplx tables are plain aligned blocks (their delete_* is #defined to free)
    }
  }
  void run(uint64_t h) {
    const unsigned prev = (spqlios_verif_cpu_allows("avx2") ? 0u : 1u) | (spqlios_verif_cpu_allows("fma") ? 0u : 2u);
    spqlios_verif_set_cpu_mask(0);
    const int kind = (int)(h % 10);
    const uint64_t k = 1 + (h >> 8) % 10, n = 1ull << k;
    Live l{kind, nullptr};
    alignas(64) static double buf[4096];
    for (auto& x : buf) x = 0;
    switch (kind) {
      case 0: l.p = new_module_info(n, FFT64); break;
      case 1: l.p = new_module_info(n, NTT120); break;
      case 2: l.p = q120_new_ntt_bb_precomp(n); q120_ntt_bb_avx2((q120_ntt_precomp*)l.p, (q120b*)buf); break;
      case 3: l.p = q120_new_intt_bb_precomp(n); q120_intt_bb_avx2((q120_ntt_precomp*)l.p, (q120b*)buf); break;
      case 4: l.p = new_reim_fft_precomp((uint32_t)n, 0); reim_fft((REIM_FFT_PRECOMP*)l.p, buf); break;
      case 5: l.p = new_reim_ifft_precomp((uint32_t)n, 0); reim_ifft((REIM_IFFT_PRECOMP*)l.p, buf); break;
      case 6: l.p = new_cplx_fft_precomp((uint32_t)n, 0); cplx_fft((CPLX_FFT_PRECOMP*)l.p, buf); break;
      case 7: l.p = new_cplx_ifft_precomp((uint32_t)n, 0); cplx_ifft((CPLX_IFFT_PRECOMP*)l.p, buf); break;
      case 8: reim_fft_simple((uint32_t)n, buf); reim_ifft_simple((uint32_t)n, buf); break;  // the cached *_simple front ends
      default: cplx_fft_simple((uint32_t)n, buf); cplx_ifft_simple((uint32_t)n, buf);
    }
    ++created;
    if (l.p) {
      if ((h >> 20) & 1) destroy(l);
      else {
        parked.push_back(l);
        if (parked.size() > 4) { destroy(parked.front()); parked.erase(parked.begin()); }
      }
    }
    spqlios_verif_set_cpu_mask(prev);
  }
};
inline Bystanders& bystanders() {
  static Bystanders b;
  return b;
}
inline void maybe_bystander() {
  Bystanders& b = bystanders();
  static const bool off = getenv("VERIF_NO_BYSTANDERS") != nullptr;  // sensitivity measurements only (seeded/NOTES.md round 4)
  if (off) return;
  const uint64_t c = vh::g_case_hash;
  if (c == 0 || c == b.last_case) return;  // once per case, at the first object the case obtains
  b.last_case = c;
  const uint64_t h = Bystanders::mix(c ^ 0xB157A2DE5ull);
  if ((h & 7) == 0) b.run(h >> 3);
}

// MODULE cache: modules are immutable after creation (C12), creating one for N=65536 costs ~10 ms.
// Deleting a module re-evaluates CPU_SUPPORTS, so the cache restores the creation mask around delete.
struct ModuleCache {
  std::map<std::tuple<uint64_t, int, unsigned>, MODULE*> m;
  MODULE* get(uint64_t nn, MODULE_TYPE t, unsigned mask = 0) {
    if (vh::g_side_thread && nn <= 4096) {
      // a case running on a freshly created thread gets a module built by that thread (destroyed after the case): thread-local or
      // first-use state inside constructors is then exercised from a thread that did not initialise the library
      MODULE* fm;
      {
        MaskGuard g(mask);
        fm = new_module_info(nn, t);
      }
      vh::g_case_cleanup.push_back([fm, mask]() {
        MaskGuard g(mask);
        delete_module_info(fm);
      });
      maybe_bystander();
      return fm;
    }
    auto key = std::make_tuple(nn, (int)t, mask);
    auto it = m.find(key);
    MODULE* mod;
    if (it != m.end()) mod = it->second;
    else {
      MaskGuard g(mask);
      mod = new_module_info(nn, t);
      m[key] = mod;
    }
    maybe_bystander();
    return mod;
  }
  ~ModuleCache() {
    for (auto& kv : m) {
      MaskGuard g(std::get<2>(kv.first));
      delete_module_info(kv.second);
    }
  }
};
inline ModuleCache& modules() {
  static ModuleCache c;
  return c;
}

// sizes of opaque NTT120 objects (the vtable slots bytes_of_* are NULL for NTT120; same formulas as
// test/testlib/ntt120_layouts.cpp)
inline uint64_t dft_limb_bytes(MODULE_TYPE t, uint64_t nn) { return t == FFT64 ? nn * 8 : nn * 32; }
inline uint64_t big_limb_bytes(MODULE_TYPE t, uint64_t nn) { return t == FFT64 ? nn * 8 : nn * 16; }

}  // namespace spq
