// Exact arithmetic modulo the four q120 primes, independent of the library (DESIGN 2: oracle_modq).
// Only the four primes themselves are taken from the library header (q120_common.h: Q1..Q4 are the
// *configuration* under which the properties are stated).  Everything else is re-derived here:
//   * modular add/sub/mul/pow/inverse on 64/128-bit unsigned integers,
//   * a primitive 2n-th root of unity found by search (never the library's OMEGA constants),
//   * a textbook recursive radix-2 DFT -> negacyclic evaluation map a -> (a(psi^(2i+1)))_i and its inverse,
//   * Horner evaluation, schoolbook negacyclic convolution (n <= 512), NTT-based negacyclic convolution,
//   * CRT by Garner's mixed-radix algorithm to the centred representative modulo Q = q1 q2 q3 q4 (< 2^120),
//     which does not use the library's Q*_CRT_CST constants nor its summation formula,
//   * selftest(): every piece is cross-checked against an even simpler method.
// Include after spq.hpp (or anything that defines Q1..Q4).
#pragma once
#include <algorithm>
#include <cstdint>
#include <map>
#include <string>
#include <vector>

#ifndef Q1
#include "spqlios/q120/q120_common.h"
#endif

namespace mq {

typedef unsigned __int128 u128;
typedef __int128 i128;

static const uint64_t QS[4] = {(uint64_t)Q1, (uint64_t)Q2, (uint64_t)Q3, (uint64_t)Q4};

// ---------------------------------------------------------------------------- scalar arithmetic (q < 2^32)
inline uint64_t red64(uint64_t x, uint64_t q) { return x % q; }
inline uint64_t red128(u128 x, uint64_t q) { return (uint64_t)(x % q); }
inline uint64_t addm(uint64_t a, uint64_t b, uint64_t q) {  // a,b < q
  uint64_t s = a + b;
  return s >= q ? s - q : s;
}
inline uint64_t subm(uint64_t a, uint64_t b, uint64_t q) { return a >= b ? a - b : a + q - b; }
inline uint64_t mulm(uint64_t a, uint64_t b, uint64_t q) { return (uint64_t)(((u128)a * b) % q); }  // any a,b
inline uint64_t powm(uint64_t a, uint64_t e, uint64_t q) {
  uint64_t r = 1 % q;
  a %= q;
  while (e) {
    if (e & 1) r = mulm(r, a, q);
    a = mulm(a, a, q);
    e >>= 1;
  }
  return r;
}
inline uint64_t invm(uint64_t a, uint64_t q) { return powm(a, q - 2, q); }  // q prime, a != 0 mod q
// residue in [0,q) of a signed 64-bit / 128-bit integer
inline uint64_t smod64(int64_t x, uint64_t q) {
  i128 r = (i128)x % (i128)q;
  if (r < 0) r += q;
  return (uint64_t)r;
}
inline uint64_t smod128(i128 x, uint64_t q) {
  i128 r = x % (i128)q;
  if (r < 0) r += q;
  return (uint64_t)r;
}
inline bool is_prime(uint64_t q) {
  if (q < 2) return false;
  for (uint64_t d = 2; d * d <= q; ++d)
    if (q % d == 0) return false;
  return true;
}

// ---------------------------------------------------------------------------- 120-bit modulus and CRT
inline u128 bigQ() { return (u128)QS[0] * QS[1] * QS[2] * QS[3]; }
inline i128 half_bigQ() { return (i128)((bigQ() - 1) / 2); }  // Q is odd: centred range is [-(Q-1)/2, (Q-1)/2]

// Garner: residues r[k] (any 64-bit representatives) -> the unique x in [0,Q) with x = r[k] mod q_k
inline u128 crt_unsigned(const uint64_t r[4]) {
  uint64_t v[4];
  for (int k = 0; k < 4; ++k) {
    const uint64_t q = QS[k];
    // v_k = (r_k - (v_0 + q_0 (v_1 + q_1 (...)))) * (q_0 ... q_{k-1})^-1 mod q_k
    uint64_t acc = 0, prod = 1;
    for (int j = 0; j < k; ++j) {
      acc = addm(acc, mulm(v[j], prod, q), q);
      prod = mulm(prod, QS[j] % q, q);
    }
    v[k] = mulm(subm(r[k] % q, acc, q), invm(prod, q), q);
  }
  u128 x = 0, prod = 1;
  for (int k = 0; k < 4; ++k) {
    x += prod * v[k];
    prod *= QS[k];
  }
  return x;
}
// the unique representative in [-(Q-1)/2, (Q-1)/2]
inline i128 crt_centred(const uint64_t r[4]) {
  u128 x = crt_unsigned(r);
  return x > (u128)half_bigQ() ? (i128)x - (i128)bigQ() : (i128)x;
}
inline void residues(i128 x, uint64_t r[4]) {
  for (int k = 0; k < 4; ++k) r[k] = smod128(x, QS[k]);
}

// ---------------------------------------------------------------------------- roots of unity
// a primitive 2n-th root of unity mod q (n a power of two, 2n | q-1), found by search over small bases
inline uint64_t find_psi(uint64_t n, uint64_t q) {
  if ((q - 1) % (2 * n) != 0) return 0;
  for (uint64_t c = 2; c < 1000; ++c) {
    uint64_t g = powm(c, (q - 1) / (2 * n), q);
    if (powm(g, n, q) == q - 1) return g;  // g^n = -1  <=> order exactly 2n (n power of two)
  }
  return 0;
}

// ---------------------------------------------------------------------------- textbook recursive DFT
// out[i] = sum_j in[j*stride] * w^(i*j), 0 <= i < n, w a primitive n-th root; values < q
inline void dft_rec(uint64_t n, const uint64_t* in, uint64_t stride, uint64_t* out, uint64_t w, uint64_t q) {
  if (n == 1) {
    out[0] = in[0];
    return;
  }
  const uint64_t h = n / 2;
  const uint64_t w2 = w * w % q;
  dft_rec(h, in, 2 * stride, out, w2, q);               // even-indexed inputs
  dft_rec(h, in + stride, 2 * stride, out + h, w2, q);  // odd-indexed inputs
  uint64_t wk = 1;
  for (uint64_t i = 0; i < h; ++i) {
    const uint64_t e = out[i], o = out[i + h] * wk % q;
    out[i] = addm(e, o, q);
    out[i + h] = subm(e, o, q);
    wk = wk * w % q;
  }
}

// Negacyclic evaluation context for (n, prime index k): points p_i = psi^(2i+1), i < n, in the oracle's own
// (natural) order, plus a value -> index lookup so that an implementation's output order never matters.
struct Eval {
  uint64_t n = 0, q = 0, psi = 0, psi_inv = 0, n_inv = 0;
  std::vector<uint64_t> pts;     // psi^(2i+1)
  std::vector<uint64_t> sorted;  // (point << 32) | i, sorted
  void init(uint64_t n_, int k) {
    n = n_;
    q = QS[k];
    psi = n == 1 ? q - 1 : find_psi(n, q);  // n == 1: X+1, single root -1
    psi_inv = invm(psi, q);
    n_inv = invm(n % q, q);
    pts.resize(n);
    sorted.resize(n);
    uint64_t p = psi, psi2 = psi * psi % q;
    for (uint64_t i = 0; i < n; ++i) {
      pts[i] = p;
      sorted[i] = (p << 32) | i;
      p = p * psi2 % q;
    }
    std::sort(sorted.begin(), sorted.end());
  }
  // index i with pts[i] == r, or -1 when r is not a primitive 2n-th root of unity
  int64_t index_of(uint64_t r) const {
    auto it = std::lower_bound(sorted.begin(), sorted.end(), r << 32);
    if (it == sorted.end() || (*it >> 32) != r) return -1;
    return (int64_t)(*it & 0xFFFFFFFFull);
  }
  // a (n values < q) -> A[i] = a(pts[i])
  void forward(const uint64_t* a, uint64_t* A) const {
    std::vector<uint64_t> t(n);
    uint64_t p = 1;
    for (uint64_t i = 0; i < n; ++i) {
      t[i] = a[i] % q * p % q;
      p = p * psi % q;
    }
    dft_rec(n, t.data(), 1, A, psi * psi % q, q);
  }
  // inverse of forward
  void backward(const uint64_t* A, uint64_t* a) const {
    std::vector<uint64_t> t(n);
    for (uint64_t i = 0; i < n; ++i) t[i] = A[i] % q;
    dft_rec(n, t.data(), 1, a, psi_inv * psi_inv % q, q);
    uint64_t p = n_inv;
    for (uint64_t i = 0; i < n; ++i) {
      a[i] = a[i] * p % q;
      p = p * psi_inv % q;
    }
  }
};
inline const Eval& eval_ctx(uint64_t n, int k) {  // memoised (pure function of (n,k))
  static std::map<std::pair<uint64_t, int>, Eval> cache;
  auto key = std::make_pair(n, k);
  auto it = cache.find(key);
  if (it != cache.end()) return it->second;
  Eval& e = cache[key];
  e.init(n, k);
  return e;
}

// a(r) mod q by Horner; a holds any 64-bit values (reduced on the fly)
inline uint64_t horner(uint64_t n, const uint64_t* a, uint64_t stride, uint64_t r, uint64_t q) {
  uint64_t acc = 0;
  for (uint64_t i = n; i-- > 0;) acc = (acc * r + a[i * stride] % q) % q;
  return acc;
}

// c = a*b mod (X^n+1, q), schoolbook; inputs any 64-bit values
inline void negacyclic_schoolbook(uint64_t n, const uint64_t* a, const uint64_t* b, uint64_t* c, uint64_t q) {
  std::vector<uint64_t> ar(n), br(n);
  for (uint64_t i = 0; i < n; ++i) ar[i] = a[i] % q, br[i] = b[i] % q;
  for (uint64_t k = 0; k < n; ++k) {
    u128 pos = 0, neg = 0;  // n * q^2 < 2^76
    for (uint64_t i = 0; i <= k; ++i) pos += (u128)(ar[i] * br[k - i]);
    for (uint64_t i = k + 1; i < n; ++i) neg += (u128)(ar[i] * br[n + k - i]);
    c[k] = subm((uint64_t)(pos % q), (uint64_t)(neg % q), q);
  }
}
// same through the oracle's own NTT (any power of two n with 2n | q-1)
inline void negacyclic_ntt(uint64_t n, const uint64_t* a, const uint64_t* b, uint64_t* c, int k) {
  const Eval& e = eval_ctx(n, k);
  std::vector<uint64_t> A(n), B(n);
  e.forward(a, A.data());
  e.forward(b, B.data());
  for (uint64_t i = 0; i < n; ++i) A[i] = A[i] * B[i] % e.q;
  e.backward(A.data(), c);
}
inline void negacyclic(uint64_t n, const uint64_t* a, const uint64_t* b, uint64_t* c, int k) {
  if (n <= 512) negacyclic_schoolbook(n, a, b, c, QS[k]);
  else negacyclic_ntt(n, a, b, c, k);
}

// largest multiple of q that fits 64 bits:  cmax(q) * q <= 2^64-1
inline uint64_t cmax(uint64_t q) { return UINT64_MAX / q; }

// ---------------------------------------------------------------------------- exact dot products on raw words
// out[k] = sum_i x[i*xs+k] * y[i*ys+k] mod q_k; x,y any 64-bit words (a- or b-layout), strides in words
inline void dot_ww(uint64_t ell, const uint64_t* x, uint64_t xs, const uint64_t* y, uint64_t ys, uint64_t out[4]) {
  for (int k = 0; k < 4; ++k) {
    const uint64_t q = QS[k];
    u128 acc = 0;  // ell * q^2 < 2^74 for ell <= 10000
    for (uint64_t i = 0; i < ell; ++i) acc += (u128)((x[i * xs + k] % q) * (y[i * ys + k] % q));
    out[k] = (uint64_t)(acc % q);
  }
}
// b x c: out[k] = sum_i (x_lo * c0 + x_hi * c1) mod q_k on the raw words, x = x_hi*2^32 + x_lo = x[i*xs+k],
// (c0,c1) = (y[i*ys+2k], y[i*ys+2k+1]) any 32-bit words.  Equals sum x*y for proper encodings (y mod q, y*2^32 mod q).
inline void dot_bc(uint64_t ell, const uint64_t* x, uint64_t xs, const uint32_t* y, uint64_t ys, uint64_t out[4]) {
  for (int k = 0; k < 4; ++k) {
    const uint64_t q = QS[k];
    u128 acc = 0;
    for (uint64_t i = 0; i < ell; ++i) {
      const uint64_t w = x[i * xs + k];
      const uint64_t lo = (w & 0xFFFFFFFFull) % q, hi = (w >> 32) % q;
      acc += (u128)(lo * (y[i * ys + 2 * k] % q)) + (u128)(hi * (y[i * ys + 2 * k + 1] % q));
    }
    out[k] = (uint64_t)(acc % q);
  }
}
// proper c-encoding of a value v (any 64-bit) for prime k
inline void c_encode(uint64_t v, int k, uint32_t& c0, uint32_t& c1) {
  const uint64_t q = QS[k];
  c0 = (uint32_t)(v % q);
  c1 = (uint32_t)(((v % q) << 32) % q);  // (v mod q) < 2^32: the shift fits 64 bits
}

// ---------------------------------------------------------------------------- implementation roots (order-agnostic oracle)
// The transform under test is only required to be *an* evaluation map at the n primitive 2n-th roots of unity, in
// whatever order.  build() takes the implementation's transform of the polynomial X (raw 64-bit lanes, n x 4),
// validates that the n values per prime are pairwise distinct roots of X^n+1 and records where each of them sits in
// the oracle's own ordering.  After that  expected(transform(a))[j] = a(r_j) = forward(a)[idx[j]].
struct Roots {
  uint64_t n = 0;
  std::vector<uint64_t> r[4];
  std::vector<uint32_t> idx[4];
  std::string err;  // empty when valid
  void build(uint64_t n_, const uint64_t* transform_of_X) {
    n = n_;
    err.clear();
    for (int k = 0; k < 4; ++k) {
      const uint64_t q = QS[k];
      const Eval& e = eval_ctx(n, k);
      r[k].assign(n, 0);
      idx[k].assign(n, 0);
      std::vector<uint8_t> used(n, 0);
      for (uint64_t j = 0; j < n; ++j) {
        const uint64_t v = n == 1 ? q - 1 : transform_of_X[4 * j + k] % q;  // n == 1: Z[X]/(X+1), the only point is -1
        r[k][j] = v;
        if (powm(v, n, q) != q - 1) {
          err = "transform(X)[" + std::to_string(j) + "] = " + std::to_string(v) + " mod q" + std::to_string(k + 1) + " is not a root of X^n+1 (r^n != -1)";
          return;
        }
        const int64_t i = e.index_of(v);
        if (i < 0) {
          err = "oracle lookup failed for a value with r^n = -1 (oracle inconsistency)";
          return;
        }
        if (used[i]) {
          err = "transform(X) repeats the evaluation point " + std::to_string(v) + " mod q" + std::to_string(k + 1) + " (position " + std::to_string(j) + ")";
          return;
        }
        used[i] = 1;
        idx[k][j] = (uint32_t)i;
      }
    }
  }
  // E[4*j+k] = a(r_j) mod q_k for a given as raw lanes (n x 4)
  void evaluate(const uint64_t* a, uint64_t* E) const {
    std::vector<uint64_t> col(n), A(n);
    for (int k = 0; k < 4; ++k) {
      const Eval& e = eval_ctx(n, k);
      for (uint64_t i = 0; i < n; ++i) col[i] = a[4 * i + k] % e.q;
      e.forward(col.data(), A.data());
      for (uint64_t j = 0; j < n; ++j) E[4 * j + k] = A[idx[k][j]];
    }
  }
};

// ---------------------------------------------------------------------------- 64-bit lane pattern families (generator side)
// shared by the NTT checks (C03, C04): d = n x 4 lanes, lane k belongs to prime k.  R = any SplitMix-like rng with
// next() / below(n).
enum LaneFam { LF_ALL_ONES = 0, LF_ZERO, LF_ALTERNATING, LF_CQ_MINUS_1, LF_CQ, LF_SINGLE, LF_UNIFORM64, LF_CANONICAL, LF_TOPBIT, LF_MIXED_EXTREMAL, LF_N };
inline const char* lane_fam_name(int f) {
  static const char* nm[] = {"all-ones", "zero", "alternating", "cq-1", "cq", "single", "uniform64", "canonical", "topbit", "mixed-extremal"};
  return nm[f % LF_N];
}
inline bool lane_fam_extremal(int f) {
  f %= LF_N;
  return f == LF_ALL_ONES || f == LF_ALTERNATING || f == LF_CQ_MINUS_1 || f == LF_CQ || f == LF_MIXED_EXTREMAL;
}
template <class R>
inline uint64_t extremal_word(int k, R& r) {
  const uint64_t q = QS[k], cm = cmax(q);
  const uint64_t e[] = {UINT64_MAX, UINT64_MAX, cm * q - 1, cm * q, UINT64_MAX - 1, 1ull << 63, (1ull << 63) - 1,
                        0xFFFFFFFF00000000ull, 0x00000000FFFFFFFFull, 1ull << 32, 0, 0, q - 1, q, (cm - 1) * q, 0x8000000080000000ull};
  return e[r.below(sizeof e / sizeof e[0])];
}
template <class R>
inline void fill_lanes(uint64_t* d, uint64_t n, int fam, R& r) {
  const uint64_t W = 4 * n;
  switch (fam % LF_N) {
    case LF_ALL_ONES:
      for (uint64_t i = 0; i < W; ++i) d[i] = UINT64_MAX;
      break;
    case LF_ZERO:
      for (uint64_t i = 0; i < W; ++i) d[i] = 0;
      break;
    case LF_ALTERNATING: {  // 0 / 2^64-1 with period 2^(t+1) over the coefficient index (t = 0: neighbours differ), either polarity;
                            // t = log2(n)-1 puts the maxima in one half: the two operands of a first-level butterfly are (max, 0)
      unsigned lg = 0;
      while ((2ull << lg) <= n) ++lg;  // lg = log2 n
      const unsigned t = lg ? (unsigned)r.below(lg) : 0;
      const uint64_t pol = r.next() & 1, bylane = (r.next() & 3) == 0;
      for (uint64_t i = 0; i < n; ++i)
        for (int k = 0; k < 4; ++k) d[4 * i + k] = ((((i >> t) & 1) ^ pol ^ (bylane ? (uint64_t)(k & 1) : 0)) & 1) ? UINT64_MAX : 0;
      break;
    }
    case LF_CQ_MINUS_1:
      for (uint64_t i = 0; i < W; ++i) d[i] = cmax(QS[i & 3]) * QS[i & 3] - 1;
      break;
    case LF_CQ:
      for (uint64_t i = 0; i < W; ++i) d[i] = cmax(QS[i & 3]) * QS[i & 3];
      break;
    case LF_SINGLE: {
      for (uint64_t i = 0; i < W; ++i) d[i] = 0;
      const uint64_t p = r.below(W);
      uint64_t v = (r.next() & 1) ? extremal_word((int)(p & 3), r) : r.next();
      d[p] = v ? v : 1;
      break;
    }
    case LF_UNIFORM64:
      for (uint64_t i = 0; i < W; ++i) d[i] = r.next();
      break;
    case LF_CANONICAL:
      for (uint64_t i = 0; i < W; ++i) d[i] = r.below(QS[i & 3]);
      break;
    case LF_TOPBIT:
      for (uint64_t i = 0; i < W; ++i) d[i] = r.next() | (1ull << 63);
      break;
    default:
      for (uint64_t i = 0; i < W; ++i) d[i] = extremal_word((int)(i & 3), r);
  }
}

// ---------------------------------------------------------------------------- self test
// returns "" when every cross-check passes; run once per process by the checks
inline std::string selftest_impl() {
  for (int k = 0; k < 4; ++k) {
    if (!is_prime(QS[k])) return "prime " + std::to_string(k) + " is composite";
    if ((QS[k] - 1) % (1u << 17) != 0) return "2^17 does not divide q-1";
    for (int j = 0; j < k; ++j)
      if (QS[j] == QS[k]) return "primes not distinct";
  }
  if (bigQ() >> 120) return "Q does not fit 120 bits";
  uint64_t s = 0x243F6A8885A308D3ull;
  auto rnd = [&]() {
    s ^= s << 13, s ^= s >> 7, s ^= s << 17;
    return s;
  };
  for (int k = 0; k < 4; ++k) {
    const uint64_t q = QS[k];
    for (int t = 0; t < 50; ++t) {
      uint64_t a = rnd() % (q - 1) + 1;
      if (mulm(a, invm(a, q), q) != 1) return "inverse";
      // powm against repeated multiplication
      uint64_t e = rnd() % 40, p = 1;
      for (uint64_t i = 0; i < e; ++i) p = p * a % q;
      if (powm(a, e, q) != p) return "powm";
    }
    for (uint64_t n : {1ull, 2ull, 4ull, 8ull, 64ull, 1024ull, 65536ull}) {
      const Eval& e = eval_ctx(n, k);
      if (n > 1 && (e.psi == 0 || powm(e.psi, n, q) != q - 1)) return "psi is not a primitive 2n-th root";
      if (n <= 1024) {
        std::vector<uint64_t> a(n), A(n), back(n);
        for (auto& x : a) x = rnd();
        e.forward(a.data(), A.data());
        for (uint64_t i = 0; i < n; i += (n > 64 ? 37 : 1)) {
          if (powm(e.pts[i], n, q) != q - 1) return "point^n != -1";
          if (A[i] != horner(n, a.data(), 1, e.pts[i], q)) return "forward != Horner";
          if (e.index_of(e.pts[i]) != (int64_t)i) return "index_of";
        }
        if (e.index_of(1) != -1) return "index_of(1) should fail";
        e.backward(A.data(), back.data());
        for (uint64_t i = 0; i < n; ++i)
          if (back[i] != a[i] % q) return "backward(forward) != id";
        if (n <= 64) {
          std::vector<uint64_t> b(n), c1(n), c2(n);
          for (auto& x : b) x = rnd();
          negacyclic_schoolbook(n, a.data(), b.data(), c1.data(), q);
          negacyclic_ntt(n, a.data(), b.data(), c2.data(), k);
          if (c1 != c2) return "schoolbook != NTT convolution";
          // X * a = rotation with sign
          if (n >= 2) {
            std::vector<uint64_t> x(n, 0), c3(n);
            x[1] = 1;
            negacyclic_schoolbook(n, x.data(), a.data(), c3.data(), q);
            if (c3[0] != subm(0, a[n - 1] % q, q) || c3[1] != a[0] % q) return "X*a";
          }
        }
      }
    }
  }
  // CRT: round trips, boundaries, independence from the representative
  const i128 H = half_bigQ();
  const i128 probes[] = {0, 1, -1, H, -H, H - 1, -H + 1, (i128)INT64_MAX, (i128)INT64_MIN, (i128)1 << 100, -((i128)1 << 119) / 3};
  for (i128 v : probes) {
    uint64_t r[4];
    residues(v, r);
    if (crt_centred(r) != v) return "crt_centred(residues(v)) != v";
    for (int k = 0; k < 4; ++k) r[k] += QS[k] * (rnd() % (cmax(QS[k])));
    if (crt_centred(r) != v) return "crt on non-canonical residues";
  }
  {
    uint64_t r[4];
    residues(H + 1, r);  // H+1 = -H mod Q
    if (crt_centred(r) != -H) return "centring at the boundary";
  }
  for (int t = 0; t < 200; ++t) {
    uint64_t r[4];
    for (int k = 0; k < 4; ++k) r[k] = rnd();
    i128 v = crt_centred(r);
    if (v > H || v < -H) return "crt range";
    for (int k = 0; k < 4; ++k)
      if (smod128(v, QS[k]) != r[k] % QS[k]) return "crt residue";
  }
  // dot products: raw-word formulas against plain u128 arithmetic
  for (int t = 0; t < 20; ++t) {
    uint64_t x[12], y[12], o[4];
    uint32_t c[24];
    for (auto& w : x) w = rnd();
    for (auto& w : y) w = rnd();
    for (int i = 0; i < 3; ++i)
      for (int k = 0; k < 4; ++k) c_encode(y[4 * i + k], k, c[8 * i + 2 * k], c[8 * i + 2 * k + 1]);
    dot_ww(3, x, 4, y, 4, o);
    for (int k = 0; k < 4; ++k) {
      u128 e = 0;
      for (int i = 0; i < 3; ++i) e = (e + ((u128)x[4 * i + k] % QS[k]) * ((u128)y[4 * i + k] % QS[k])) % QS[k];
      if ((uint64_t)e != o[k]) return "dot_ww";
    }
    uint64_t o2[4];
    dot_bc(3, x, 4, c, 8, o2);
    for (int k = 0; k < 4; ++k)
      if (o2[k] != o[k]) return "dot_bc on proper encodings != dot_ww";
  }
  return "";
}
inline const std::string& selftest() {
  static const std::string r = selftest_impl();
  return r;
}

}  // namespace mq
