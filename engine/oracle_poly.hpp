// Exact arithmetic in Z[X]/(X^N+1), independent of the library.
//  * schoolbook product on __int128 (any N, O(N^2); used for N<=512 or sparse operands)
//  * NTT modulo the Goldilocks prime p = 2^64-2^32+1 for large N (exact whenever every coefficient of
//    the true product is < p/2 in absolute value, which the callers guarantee: in-budget FFT64 products are < 2^63)
//  * norms in long double, the documented error bound E of C01
#pragma once
#include <cmath>
#include <cstdint>
#include <vector>

namespace orc {

typedef __int128 i128;
typedef unsigned __int128 u128;

inline void negacyclic_schoolbook(uint64_t n, const int64_t* a, const int64_t* b, i128* out) {
  for (uint64_t i = 0; i < n; ++i) out[i] = 0;
  for (uint64_t i = 0; i < n; ++i) {
    if (a[i] == 0) continue;
    const i128 ai = a[i];
    for (uint64_t j = 0; j < n; ++j) {
      if (b[j] == 0) continue;
      uint64_t k = i + j;
      if (k < n)
        out[k] += ai * b[j];
      else
        out[k - n] -= ai * b[j];
    }
  }
}

// ---- Goldilocks
static const uint64_t GP = 0xFFFFFFFF00000001ull;
inline uint64_t gmul(uint64_t a, uint64_t b) { return (uint64_t)(((u128)a * b) % GP); }
inline uint64_t gadd(uint64_t a, uint64_t b) {
  u128 s = (u128)a + b;
  return (uint64_t)(s >= GP ? s - GP : s);
}
inline uint64_t gsub(uint64_t a, uint64_t b) { return a >= b ? a - b : a + (GP - b); }
inline uint64_t gpow(uint64_t a, uint64_t e) {
  uint64_t r = 1;
  while (e) {
    if (e & 1) r = gmul(r, a);
    a = gmul(a, a);
    e >>= 1;
  }
  return r;
}
inline uint64_t gfrom(int64_t x) {
  if (x >= 0) return (uint64_t)x % GP;
  uint64_t r = ((uint64_t)(-(x + 1)) + 1) % GP;
  return r ? GP - r : 0;
}
inline uint64_t gfrom128(i128 x) {
  bool neg = x < 0;
  u128 m = neg ? (u128)(-(x + 1)) + 1 : (u128)x;
  uint64_t r = (uint64_t)(m % GP);
  return neg ? (r ? GP - r : 0) : r;
}
inline i128 gcentered(uint64_t v) { return v > GP / 2 ? (i128)v - (i128)GP : (i128)v; }

// in-place iterative cyclic NTT of size n (power of two) with root w of order n
inline void gntt(std::vector<uint64_t>& a, uint64_t w) {
  const uint64_t n = a.size();
  for (uint64_t i = 1, j = 0; i < n; ++i) {
    uint64_t bit = n >> 1;
    for (; j & bit; bit >>= 1) j ^= bit;
    j ^= bit;
    if (i < j) std::swap(a[i], a[j]);
  }
  for (uint64_t len = 2; len <= n; len <<= 1) {
    uint64_t wl = gpow(w, n / len);
    for (uint64_t i = 0; i < n; i += len) {
      uint64_t cur = 1;
      for (uint64_t j = 0; j < len / 2; ++j) {
        uint64_t u = a[i + j], v = gmul(a[i + j + len / 2], cur);
        a[i + j] = gadd(u, v);
        a[i + j + len / 2] = gsub(u, v);
        cur = gmul(cur, wl);
      }
    }
  }
}

// A polynomial in "Goldilocks evaluation form" (twisted NTT), so sums of products can be accumulated
struct GEval {
  std::vector<uint64_t> v;
};
inline uint64_t gpsi(uint64_t n) { return gpow(7, (GP - 1) / (2 * n)); }  // primitive 2n-th root (7 generates F_p^*)

inline GEval geval(uint64_t n, const int64_t* a) {
  GEval e;
  e.v.resize(n);
  const uint64_t psi = gpsi(n);
  uint64_t t = 1;
  for (uint64_t i = 0; i < n; ++i) {
    e.v[i] = gmul(gfrom(a[i]), t);
    t = gmul(t, psi);
  }
  gntt(e.v, gmul(psi, psi));
  return e;
}
inline void gaccumulate(GEval& acc, const GEval& x, const GEval& y) {
  if (acc.v.empty()) acc.v.assign(x.v.size(), 0);
  for (size_t i = 0; i < x.v.size(); ++i) acc.v[i] = gadd(acc.v[i], gmul(x.v[i], y.v[i]));
}
inline void gcoeffs(const GEval& e, i128* out) {
  const uint64_t n = e.v.size();
  std::vector<uint64_t> a = e.v;
  const uint64_t psi = gpsi(n);
  const uint64_t w = gmul(psi, psi);
  gntt(a, gpow(w, GP - 2));
  const uint64_t ninv = gpow(n % GP, GP - 2), psiinv = gpow(psi, GP - 2);
  uint64_t t = ninv;
  for (uint64_t i = 0; i < n; ++i) {
    out[i] = gcentered(gmul(a[i], t));
    t = gmul(t, psiinv);
  }
}

inline uint64_t count_nonzero(uint64_t n, const int64_t* a) {
  uint64_t c = 0;
  for (uint64_t i = 0; i < n; ++i) c += a[i] != 0;
  return c;
}

// exact negacyclic product; picks the cheaper exact method
inline void negacyclic_product(uint64_t n, const int64_t* a, const int64_t* b, i128* out) {
  uint64_t na = count_nonzero(n, a), nb = count_nonzero(n, b);
  if (n <= 512 || na * nb <= 400000) return negacyclic_schoolbook(n, a, b, out);
  GEval acc;
  gaccumulate(acc, geval(n, a), geval(n, b));
  gcoeffs(acc, out);
}

struct Norms {
  long double l1 = 0, l2 = 0, linf = 0;
};
inline Norms norms(uint64_t n, const int64_t* a) {
  Norms r;
  long double s2 = 0;
  for (uint64_t i = 0; i < n; ++i) {
    long double x = fabsl((long double)a[i]);
    r.l1 += x;
    s2 += x * x;
    if (x > r.linf) r.linf = x;
  }
  r.l2 = sqrtl(s2);
  return r;
}
// documented FFT64 error bound (C01): E = 8*log2(N)*2^-53*(|a|_1|b|_2+|a|_2|b|_1)
inline long double fft64_E(uint64_t n, const Norms& a, const Norms& b) {
  long double lg = log2l((long double)n);
  return 8.0L * lg * ldexpl(1.0L, -53) * (a.l1 * b.l2 + a.l2 * b.l1);
}
// is (a,b) inside the documented 52-bit budget?
inline bool in_budget(const Norms& a, const Norms& b) {
  const long double B50 = ldexpl(1.0L, 50), B52 = ldexpl(1.0L, 52);
  if (!(a.linf < B50 && b.linf < B50)) return false;
  long double m = std::min(a.l1 * b.linf, a.linf * b.l1);
  return m < B52;
}

}  // namespace orc

namespace orc {
// exact column j of a vector-matrix product: sum_{i<rows} a_i * M[i][j]  (a_i at a + i*a_sl, M row-major nrows x ncols of
// polynomials of n coefficients); also returns the summed C01 bound  sum_i E_i.
inline void vmp_column_exact(uint64_t n, uint64_t rows, const int64_t* a, uint64_t a_sl, const int64_t* mat, uint64_t ncols,
                             uint64_t j, i128* out, long double* Esum) {
  for (uint64_t q = 0; q < n; ++q) out[q] = 0;
  *Esum = 0;
  if (rows == 0) return;
  if (n <= 256) {
    std::vector<i128> t(n);
    for (uint64_t i = 0; i < rows; ++i) {
      const int64_t* m = mat + (i * ncols + j) * n;
      negacyclic_schoolbook(n, a + i * a_sl, m, t.data());
      for (uint64_t q = 0; q < n; ++q) out[q] += t[q];
      *Esum += fft64_E(n, norms(n, a + i * a_sl), norms(n, m));
    }
  } else {
    GEval acc;
    for (uint64_t i = 0; i < rows; ++i) {
      const int64_t* m = mat + (i * ncols + j) * n;
      gaccumulate(acc, geval(n, a + i * a_sl), geval(n, m));
      *Esum += fft64_E(n, norms(n, a + i * a_sl), norms(n, m));
    }
    gcoeffs(acc, out);
  }
}
}  // namespace orc
