// Shared call generator + limb-wise model for the vec_znx / vec_znx_big element-wise API
// (zero, copy, negate, add, sub, rotate, automorphism and the big / mixed small-big forms).
// Used by C08 (size/stride semantics), C13 (aliasing), C18 (read-only sources), C11 (memory contract).
#pragma once
#include <algorithm>
#include <string>
#include <vector>

#include "arena.hpp"
#include "harness.hpp"
#include "ringmaps.hpp"
#include "spq.hpp"

namespace vecops {
using namespace vh;

enum OpId {
  ZERO = 0, COPY, NEGATE, ADD, SUB, ROTATE, AUTOMORPHISM,
  BIG_ADD, BIG_ADD_SMALL, BIG_ADD_SMALL2, BIG_SUB, BIG_SUB_SMALL_A, BIG_SUB_SMALL_B, BIG_SUB_SMALL2, BIG_ROTATE, BIG_AUTOMORPHISM,
  NOPS
};
struct OpInfo {
  const char* name;
  int nin;        // number of inputs
  bool res_big;   // output is a VEC_ZNX_BIG (stride fixed to N)
  bool a_big, b_big;
  char arith;     // 'z' zero, 'c' copy, 'n' negate, '+', '-', 'r' rotate, 'a' automorphism
};
static const OpInfo OPS[NOPS] = {
    {"vec_znx_zero", 0, false, false, false, 'z'},
    {"vec_znx_copy", 1, false, false, false, 'c'},
    {"vec_znx_negate", 1, false, false, false, 'n'},
    {"vec_znx_add", 2, false, false, false, '+'},
    {"vec_znx_sub", 2, false, false, false, '-'},
    {"vec_znx_rotate", 1, false, false, false, 'r'},
    {"vec_znx_automorphism", 1, false, false, false, 'a'},
    {"vec_znx_big_add", 2, true, true, true, '+'},
    {"vec_znx_big_add_small", 2, true, true, false, '+'},
    {"vec_znx_big_add_small2", 2, true, false, false, '+'},
    {"vec_znx_big_sub", 2, true, true, true, '-'},
    {"vec_znx_big_sub_small_a", 2, true, false, true, '-'},
    {"vec_znx_big_sub_small_b", 2, true, true, false, '-'},
    {"vec_znx_big_sub_small2", 2, true, false, false, '-'},
    {"vec_znx_big_rotate", 1, true, true, false, 'r'},
    {"vec_znx_big_automorphism", 1, true, true, false, 'a'},
};

struct Case {
  uint64_t k = 1;
  int op = 0;
  uint64_t rs = 0, as = 0, bs = 0;        // limb counts
  uint64_t rpad = 0, apad = 0, bpad = 0;  // stride = N + pad (ignored for big operands: stride N)
  uint64_t extra = 0;                     // limbs allocated in res beyond res_size (must stay untouched)
  int mtype = 0;                          // 0 FFT64, 1 NTT120 (big ops exist on FFT64 only)
  unsigned mask = 0;                      // CPU mask at module creation
  int alias = 0;                          // 0 none, 1 res==a, 2 res==b, 3 res==a==b, 4 a==b (two views of one input, output separate)
  int64_t p = 0;
  int prefill = 3;
  int bits = 61;                          // |values| < 2^bits (<= 61 so add/sub stay in int64)
  uint64_t seed = 0;
  int amode = -1;                         // -1: OVER/UNDER chosen from the seed; 2: MID (malloc-exact under ASan) at byte offset `misalign`
  uint64_t misalign = 0;
};

struct Outcome {
  bool ran = false;
  bool inputs_snapshot_ok = true;
  std::string desc;
};

inline const char* opname(int op) { return OPS[op].name; }

inline void invoke(const Case& c, MODULE* mod, int64_t* res, uint64_t rsl, const int64_t* a, uint64_t asl, const int64_t* b, uint64_t bsl) {
  VEC_ZNX_BIG* R = (VEC_ZNX_BIG*)res;
  const VEC_ZNX_BIG* A = (const VEC_ZNX_BIG*)a;
  const VEC_ZNX_BIG* B = (const VEC_ZNX_BIG*)b;
  switch (c.op) {
    case ZERO: vec_znx_zero(mod, res, c.rs, rsl); break;
    case COPY: vec_znx_copy(mod, res, c.rs, rsl, a, c.as, asl); break;
    case NEGATE: vec_znx_negate(mod, res, c.rs, rsl, a, c.as, asl); break;
    case ADD: vec_znx_add(mod, res, c.rs, rsl, a, c.as, asl, b, c.bs, bsl); break;
    case SUB: vec_znx_sub(mod, res, c.rs, rsl, a, c.as, asl, b, c.bs, bsl); break;
    case ROTATE: vec_znx_rotate(mod, c.p, res, c.rs, rsl, a, c.as, asl); break;
    case AUTOMORPHISM: vec_znx_automorphism(mod, c.p, res, c.rs, rsl, a, c.as, asl); break;
    case BIG_ADD: vec_znx_big_add(mod, R, c.rs, A, c.as, B, c.bs); break;
    case BIG_ADD_SMALL: vec_znx_big_add_small(mod, R, c.rs, A, c.as, b, c.bs, bsl); break;
    case BIG_ADD_SMALL2: vec_znx_big_add_small2(mod, R, c.rs, a, c.as, asl, b, c.bs, bsl); break;
    case BIG_SUB: vec_znx_big_sub(mod, R, c.rs, A, c.as, B, c.bs); break;
    case BIG_SUB_SMALL_A: vec_znx_big_sub_small_a(mod, R, c.rs, a, c.as, asl, B, c.bs); break;
    case BIG_SUB_SMALL_B: vec_znx_big_sub_small_b(mod, R, c.rs, A, c.as, b, c.bs, bsl); break;
    case BIG_SUB_SMALL2: vec_znx_big_sub_small2(mod, R, c.rs, a, c.as, asl, b, c.bs, bsl); break;
    case BIG_ROTATE: vec_znx_big_rotate(mod, c.p, R, c.rs, A, c.as); break;
    case BIG_AUTOMORPHISM: vec_znx_big_automorphism(mod, c.p, R, c.rs, A, c.as); break;
  }
}

// limb i of the model result from snapshots of the inputs (nullptr-safe zero extension)
inline void model_limb(const Case& c, uint64_t n, uint64_t i, const int64_t* a_snap, uint64_t asl, const int64_t* b_snap, uint64_t bsl, int64_t* out) {
  const OpInfo& o = OPS[c.op];
  const int64_t* ai = (o.nin >= 1 && i < c.as) ? a_snap + i * asl : nullptr;
  const int64_t* bi = (o.nin >= 2 && i < c.bs) ? b_snap + i * bsl : nullptr;
  switch (o.arith) {
    case 'z':
      for (uint64_t q = 0; q < n; ++q) out[q] = 0;
      break;
    case 'c':
      for (uint64_t q = 0; q < n; ++q) out[q] = ai ? ai[q] : 0;
      break;
    case 'n':
      for (uint64_t q = 0; q < n; ++q) out[q] = ai ? -ai[q] : 0;
      break;
    case '+':
      for (uint64_t q = 0; q < n; ++q) out[q] = (ai ? ai[q] : 0) + (bi ? bi[q] : 0);
      break;
    case '-':
      for (uint64_t q = 0; q < n; ++q) out[q] = (ai ? ai[q] : 0) - (bi ? bi[q] : 0);
      break;
    case 'r':
    case 'a':
      if (ai)
        ring::model<int64_t>(o.arith == 'r' ? ring::ROT : ring::AUT, n, c.p, out, ai);
      else
        for (uint64_t q = 0; q < n; ++q) out[q] = 0;
      break;
  }
}

// Executes the case. Checks: model on the first res_size limbs, everything else in the res buffer untouched, sources
// untouched unless aliased with the output, canaries, and (when aliased) aliased call == out-of-place library call.
// `why` tags the failure message with the property's angle.
inline void run(Ctx& ctx, Case c) {
  const OpInfo& o = OPS[c.op];
  const uint64_t n = 1ull << c.k;
  MODULE_TYPE mt = (c.mtype && !o.res_big) ? NTT120 : FFT64;
  MODULE* mod = spq::modules().get(n, mt, c.mask);
  if (o.nin < 1) { c.as = 0; if (c.alias & 1) c.alias &= ~1; }
  if (o.nin < 2) { c.bs = 0; c.alias &= ~2; c.alias &= ~4; }
  if (c.alias & 3) c.alias &= ~4;
  const bool in_ab = (c.alias & 4) && o.a_big == o.b_big;  // a and b are the same buffer with possibly different limb counts
  if (!in_ab) c.alias &= ~4;
  uint64_t rsl = o.res_big ? n : n + c.rpad;
  uint64_t asl = o.a_big ? n : n + c.apad;
  uint64_t bsl = o.b_big ? n : n + c.bpad;
  // aliasing requires the same stride: an aliased small operand takes the output's stride
  if (c.alias & 1) asl = rsl;
  if (c.alias & 2) bsl = rsl;
  if (in_ab) bsl = asl;
  auto ext = [&](uint64_t limbs, uint64_t sl) { return limbs ? ((limbs - 1) * sl + n) * 8 : (uint64_t)0; };
  uint64_t r_limbs = c.rs + c.extra;
  if (c.alias & 1) r_limbs = std::max(r_limbs, c.as);
  if (c.alias & 2) r_limbs = std::max(r_limbs, c.bs);
  Rng rng(c.seed);
  Arena ar;
  // one case in four lays res / a / b out back to back in one region (caller-side arena layout)
  if (c.amode != 2 && ((c.seed >> 5) & 3) == 3) ar.set_packed(((c.seed >> 7) & 1) ? +1 : -1);
  const bool mid = c.amode == 2;
  Buf R = ar.alloc(ext(r_limbs, rsl), mid ? MID : (c.seed & 1) ? OVER : UNDER, c.misalign, c.prefill, c.seed);
  Buf A = (c.alias & 1) ? R : ar.alloc(ext(c.as, asl), mid ? MID : (c.seed & 2) ? OVER : UNDER, (c.misalign * 3 + 8) % 64, 3, c.seed + 11);
  Buf A0;  // a==b: one buffer holding max(a_size, b_size) limbs
  if (in_ab) A0 = ar.alloc(ext(std::max(c.as, c.bs), asl), mid ? MID : (c.seed & 2) ? OVER : UNDER, (c.misalign * 3 + 8) % 64, 3, c.seed + 11);
  if (in_ab) A = A0;
  Buf B = in_ab ? A0 : (c.alias & 2) ? R : ar.alloc(ext(c.bs, bsl), mid ? MID : (c.seed & 4) ? OVER : UNDER, (c.misalign * 5 + 16) % 64, 3, c.seed + 12);
  int64_t *res = R.as<int64_t>(), *a = A.as<int64_t>(), *b = B.as<int64_t>();
  const bool same_ab = (c.alias & 3) == 3 || in_ab;  // a and b are the very same buffer
  // per-limb data family: dense random (half of the limbs), the zero polynomial, zero on a leading / trailing part, one non-zero
  // coefficient, one repeated value -- "skip the zero limb" / "all coefficients equal" shortcuts must see their trigger
  auto fill_limb = [&](int64_t* p) {
    const uint64_t fam = rng.below(12);
    const uint64_t cut = n > 1 ? 1 + rng.below(n - 1) : 0;
    const int64_t rep = rng.sbits(c.bits);
    const uint64_t one = rng.below(n);
    for (uint64_t q = 0; q < n; ++q) {
      int64_t x = rng.sbits(c.bits);
      switch (fam) {
        case 5: x = 0; break;
        case 6: if (q < cut) x = 0; break;
        case 7: if (q >= cut) x = 0; break;
        case 8: if (q != one) x = 0; break;
        case 9: x = rep; break;
        case 10: x = (int64_t)((uint64_t)x & ~0xFFFFFFFFull); if (c.bits >= 34 && q == one && x == 0) x = (int64_t)1 << 32; break;  // multiples of 2^32 (low halves vanish)
        case 11: if (q != n - 1 && q != n / 2) x = 0; break;  // only the last / the middle coefficient
        default: break;
      }
      p[q] = x;
    }
  };
  for (uint64_t i = 0; i < (same_ab ? std::max(c.as, c.bs) : c.as); ++i) fill_limb(a + i * asl);
  if (!same_ab)
    for (uint64_t i = 0; i < c.bs; ++i) fill_limb(b + i * bsl);
  // boundary values in a few places
  if (c.as && n) a[rng.below(n)] = ((int64_t)1 << c.bits) - 1;
  if (c.bs && n && !same_ab) b[rng.below(n)] = -(((int64_t)1 << c.bits) - 1);
  std::vector<int64_t> a_snap(A.len / 8), b_snap(B.len / 8), expect(R.len / 8);
  if (A.len) memcpy(a_snap.data(), a, A.len);
  if (B.len) memcpy(b_snap.data(), b, B.len);
  if (R.len) memcpy(expect.data(), res, R.len);
  std::vector<int64_t> limb(n);
  for (uint64_t i = 0; i < c.rs; ++i) {
    model_limb(c, n, i, a_snap.data(), asl, b_snap.data(), bsl, limb.data());
    memcpy(expect.data() + i * rsl, limb.data(), n * 8);
  }
  char desc[512];
  snprintf(desc, sizeof desc, "%s N=%llu %s cfg=%s res_size=%llu a_size=%llu b_size=%llu res_sl=%llu a_sl=%llu b_sl=%llu extra=%llu alias=%d p=%lld", o.name,
           (unsigned long long)n, mt == FFT64 ? "FFT64" : "NTT120", c.mask ? "generic" : "full", (unsigned long long)c.rs, (unsigned long long)c.as,
           (unsigned long long)c.bs, (unsigned long long)rsl, (unsigned long long)asl, (unsigned long long)bsl, (unsigned long long)c.extra, c.alias,
           (long long)c.p);
  ctx.note = desc;
  // out-of-place library reference for aliased calls (C13): same data, separate output
  std::vector<int64_t> oop;
  if (c.alias) {
    Arena ar2;
    Buf R2 = ar2.alloc(R.len, OVER, 0, c.prefill, c.seed);
    Buf A2 = ar2.alloc(A.len, OVER), B2 = ar2.alloc(B.len, OVER);
    if (A.len) memcpy(A2.p, a_snap.data(), A.len);
    if (B.len) memcpy(B2.p, b_snap.data(), B.len);
    // same initial contents as the aliased buffer so untouched regions compare equal
    if (R.len) memcpy(R2.p, expect.data(), 0);  // (R2 keeps its own prefill; only the first res_size limbs are compared)
    invoke(c, mod, R2.as<int64_t>(), rsl, A2.as<int64_t>(), asl, B2.as<int64_t>(), bsl);
    oop.assign(R2.as<int64_t>(), R2.as<int64_t>() + R2.len / 8);
  }
  invoke(c, mod, res, rsl, a, asl, b, bsl);
  for (uint64_t w = 0; w < R.len / 8; ++w)
    if (res[w] != expect[w]) {
      uint64_t li = w / rsl, q = w % rsl;
      const char* where = (li < c.rs && q < n) ? "result coefficient" : (q >= n ? "stride padding (must be untouched)" : "limb beyond res_size (must be untouched)");
      return ctx.failf("%s: word %llu (limb %llu, offset %llu: %s) = %lld, expected %lld", desc, (unsigned long long)w, (unsigned long long)li,
                       (unsigned long long)q, where, (long long)res[w], (long long)expect[w]);
    }
  if (c.alias) {
    for (uint64_t i = 0; i < c.rs; ++i)
      for (uint64_t q = 0; q < n; ++q)
        if (res[i * rsl + q] != oop[i * rsl + q])
          return ctx.failf("%s: aliased call differs from the out-of-place call at limb %llu coeff %llu: %lld vs %lld", desc, (unsigned long long)i,
                           (unsigned long long)q, (long long)res[i * rsl + q], (long long)oop[i * rsl + q]);
  }
  if (!(c.alias & 1) && A.len && memcmp(a, a_snap.data(), A.len) != 0) return ctx.failf("%s: source operand a was modified", desc);
  if (!(c.alias & 2) && B.len && memcmp(b, b_snap.data(), B.len) != 0) return ctx.failf("%s: source operand b was modified", desc);
  size_t wbyte;
  int bad = ar.check_canaries(&wbyte);
  if (bad >= 0) return ctx.failf("%s: write outside the declared extents (buffer %d byte %zu)", desc, bad, wbyte);
  // classes
  ctx.cls(std::string("op:") + o.name);
  ctx.cls("k:" + std::to_string(c.k));
  ctx.cls(mt == FFT64 ? "module:FFT64" : "module:NTT120");
  ctx.cls(c.mask ? "cfg:generic" : "cfg:full");
  if (c.rs == 0) ctx.cls("res_size=0");
  if (o.nin >= 1 && c.as == 0) ctx.cls("a_size=0");
  if (o.nin >= 2 && c.bs == 0) ctx.cls("b_size=0");
  if (rsl > n || asl > n || bsl > n) ctx.cls("stride>N");
  if (c.rpad >= 4096 || c.apad >= 4096 || c.bpad >= 4096) ctx.cls("stride:huge");
  if (o.nin == 2) {
    // ordering class of the three sizes
    auto sgn = [](uint64_t x, uint64_t y) { return x < y ? '<' : x > y ? '>' : '='; };
    std::string ord = std::string("order:r") + sgn(c.rs, c.as) + "a,a" + sgn(c.as, c.bs) + "b,r" + sgn(c.rs, c.bs) + "b";
    ctx.cls(ord);
  } else if (o.nin == 1) {
    ctx.cls(c.rs < c.as ? "order:r<a" : c.rs > c.as ? "order:r>a" : "order:r=a");
  }
  if (c.alias) ctx.cls("alias:" + std::to_string(c.alias));
  if (c.extra) ctx.cls("extra_limbs");
}

}  // namespace vecops
