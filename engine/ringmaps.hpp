// Reference model of rotation / automorphism / (X^p-1) in Z[X]/(X^nn+1) (index arithmetic mod 2nn on u128)
// and the 2-adic construction of p (DESIGN C09).  Shared by C08/C09/C13/C16/C18.
#pragma once
#include <cstdint>

namespace ring {
typedef unsigned __int128 u128;
enum Op { ROT = 0, AUT = 1, XPM1 = 2 };

inline uint64_t pmod(int64_t p, uint64_t two_nn) { return ((uint64_t)p) & (two_nn - 1); }  // exact for powers of two

template <class T>
inline void model(int op, uint64_t nn, int64_t p, T* dst, const T* src) {
  const uint64_t tn = 2 * nn;
  const uint64_t pr = pmod(p, tn);
  for (uint64_t i = 0; i < nn; ++i) {
    uint64_t e = (op == AUT) ? (uint64_t)(((u128)i * pr) % tn) : (i + pr) % tn;
    if (e < nn)
      dst[e] = src[i];
    else
      dst[e - nn] = -src[i];
  }
  if (op == XPM1)
    for (uint64_t i = 0; i < nn; ++i) dst[i] = dst[i] - src[i];
}

// mode 0: residue in [0,2nn); 1: +-1 + u'*2^j (u' odd); 2: specials; 3: far outside, up to 2^63-1
inline int64_t make_p(int mode, uint64_t k, int64_t j, uint64_t u, int neg, bool odd) {
  const uint64_t nn = 1ull << k;
  int64_t p;
  switch (mode) {
    case 0:
      p = (int64_t)(u % (2 * nn));
      break;
    case 1: {
      uint64_t jj = 1 + (uint64_t)j % (k + 2);
      uint64_t uo = (u % 64) | 1;
      p = (int64_t)(uo << jj) + ((u >> 8 & 1) ? 1 : -1);
      break;
    }
    case 2: {
      const int64_t sp[] = {0, (int64_t)nn, 2 * (int64_t)nn, (int64_t)nn - 1, (int64_t)nn + 1, 2 * (int64_t)nn - 1,
                            1,  3,          5,               (int64_t)nn / 2, 3 * (int64_t)nn, 4 * (int64_t)nn + 1};
      p = sp[u % 12];
      break;
    }
    default:
      p = (int64_t)(u & 0x7FFFFFFFFFFFFFFFull);
      if ((u >> 61 & 3) == 0) p = INT64_MAX - (int64_t)(u % 1024);
      break;
  }
  if (odd) p |= 1;
  if (neg && p != 0) p = -p;  // INT64_MIN never produced (statement: p in (-2^63, 2^63))
  return p;
}
}  // namespace ring
