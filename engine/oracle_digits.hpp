// Exact balanced base-2^k expansion (C05), independent of the library.
//  * carry chain on __int128 from the least significant limb
//  * validity predicate on multiword integers (GMP): digits in range and
//    sum r_i B^(n-1-i) == sum a_i B^(n-1-i)  (mod B^n)
#pragma once
#include <gmp.h>

#include <cstdint>
#include <vector>

namespace orc {

typedef __int128 i128;

// balanced residue of t modulo 2^k in [-2^(k-1), 2^(k-1))
inline int64_t balanced_digit(i128 t, unsigned k) {
  const i128 B = (i128)1 << k;
  i128 d = t % B;  // in (-B, B)
  if (d < 0) d += B;
  if (d >= B / 2) d -= B;
  return (int64_t)d;
}

// limbs[0] is the most significant limb. Returns the n balanced digits (digit 0 most significant; its carry is dropped).
inline std::vector<int64_t> balanced_digits(const std::vector<int64_t>& limbs, unsigned k) {
  const size_t n = limbs.size();
  std::vector<int64_t> d(n);
  i128 c = 0;
  for (size_t q = n; q-- > 0;) {
    i128 t = (i128)limbs[q] + c;
    int64_t dig = balanced_digit(t, k);
    d[q] = dig;
    c = (t - dig) / ((i128)1 << k);  // exact: t - dig is a multiple of 2^k
  }
  return d;
}

// independent validity predicate
inline bool digits_valid(const std::vector<int64_t>& limbs, const std::vector<int64_t>& digits, unsigned k) {
  const size_t n = limbs.size();
  if (digits.size() != n) return false;
  const int64_t half = (int64_t)1 << (k - 1);
  for (size_t i = 0; i < n; ++i)
    if (digits[i] < -half || digits[i] >= half) return false;
  if (n == 0) return true;
  mpz_t A, R, M, t;
  mpz_inits(A, R, M, t, NULL);
  for (size_t i = 0; i < n; ++i) {
    mpz_mul_2exp(A, A, k);
    mpz_set_si(t, limbs[i]);
    mpz_add(A, A, t);
    mpz_mul_2exp(R, R, k);
    mpz_set_si(t, digits[i]);
    mpz_add(R, R, t);
  }
  mpz_set_ui(M, 1);
  mpz_mul_2exp(M, M, k * n);
  mpz_sub(A, A, R);
  mpz_mod(A, A, M);
  bool ok = mpz_sgn(A) == 0;
  mpz_clears(A, R, M, t, NULL);
  return ok;
}

}  // namespace orc
