// Allocation tracker (link-time interposition with -Wl,--wrap=malloc,... see WRAP_FLAGS in props/planlib.py).
// Gives (a) the heap blocks that belong to a MODULE / PRECOMP object (allocated while it was being constructed),
// so their content can be snapshotted (C18, C06, C15), and (b) outstanding-allocation counts around new_*/delete_* (C11).
#pragma once
#include <cstddef>
#include <cstdint>
#include <vector>

namespace at {
struct Block {
  void* p;
  size_t n;
};
void begin();                     // start recording (clears the table)
std::vector<Block> end();         // stop recording; returns blocks allocated since begin() that are still live
size_t live();                    // number of recorded blocks still live (valid between begin and end)
uint64_t hash_blocks(const std::vector<Block>& b);
}  // namespace at
