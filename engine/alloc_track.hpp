// Allocation tracker (link-time interposition with -Wl,--wrap=malloc,... see WRAP_FLAGS in props/planlib.py).
// Gives (a) the heap blocks that belong to a MODULE / PRECOMP object (allocated while it was being constructed),
// so their content can be snapshotted (C18, C06, C15), and (b) outstanding-allocation counts around new_*/delete_* (C11).
#pragma once
#include <cstddef>
#include <cstdint>
#include <vector>

namespace at {
struct Block {
  void* p;
  size_t n;
};
void begin();                     // start recording (clears the table)
std::vector<Block> end();         // stop recording; returns blocks allocated since begin() that are still live
size_t live();                    // number of recorded blocks still live (valid between begin and end)
uint64_t hash_blocks(const std::vector<Block>& b);
// every block handed out by malloc / aligned_alloc / posix_memalign from now on is filled with `byte` (0..255) first; -1 = leave
// it as the allocator returns it.  Two runs of the same calls under different fills must give the same results: the library
// may not read heap memory it has not written (C11 "no result depends on uninitialised memory", C15 "regardless of history").
void set_fill(int byte);
}  // namespace at
