#!/usr/bin/env python3
"""setup_cmd: verify the offline toolchain, build the library flavours and the harness objects."""
import os
import shutil
import subprocess
import sys

HERE = os.path.dirname(os.path.abspath(__file__))
sys.path.insert(0, HERE)
import buildlib  # noqa: E402

for tool in ("gcc", "clang", "clang++", "ar", "patch"):
    if not shutil.which(tool):
        sys.exit("setup: missing tool " + tool)
if not os.path.exists("/usr/include/rapidcheck.h"):
    sys.exit("setup: rapidcheck headers missing")
for f in ("rel", "asan", "tsan", "fuzz"):
    lib, stamp = buildlib.build(f)
    print("built", f, lib)
# pre-build the check binaries (rapidcheck harnesses and libFuzzer targets) so the first quick run does not pay for the compiles
import importlib.machinery, importlib.util  # noqa: E402
from concurrent.futures import ThreadPoolExecutor  # noqa: E402
loader = importlib.machinery.SourceFileLoader("vcheck", os.path.join(os.path.dirname(HERE), "check"))
spec = importlib.util.spec_from_loader("vcheck", loader)
vc = importlib.util.module_from_spec(spec)
loader.exec_module(vc)


def prebuild(pid):
    plan = vc.plans.PLANS[pid]
    fl = sorted({j.get("flavour", plan["flavour"]) for j in plan["quick"]} | {plan["flavour"]})
    for f in fl:
        vc.build_harness(plan["src"], f, plan.get("extra_srcs", ()), plan.get("extra_link", ()))
    for aux in plan.get("aux", ()):
        vc.build_aux(aux)
    for fz in vc.fuzz_targets(plan):
        vc.build_fuzz_target(plan, fz)
    return pid


with ThreadPoolExecutor(max_workers=8) as ex:
    for pid in ex.map(prebuild, sorted(vc.plans.PLANS)):
        print("built checks of", pid)
print("setup ok")
