#!/usr/bin/env python3
"""setup_cmd: verify the offline toolchain, build the library flavours and the harness objects."""
import os
import shutil
import subprocess
import sys

HERE = os.path.dirname(os.path.abspath(__file__))
sys.path.insert(0, HERE)
import buildlib  # noqa: E402

for tool in ("gcc", "clang", "clang++", "ar", "patch"):
    if not shutil.which(tool):
        sys.exit("setup: missing tool " + tool)
if not os.path.exists("/usr/include/rapidcheck.h"):
    sys.exit("setup: rapidcheck headers missing")
for f in ("rel", "asan", "tsan", "fuzz"):
    lib, stamp = buildlib.build(f)
    print("built", f, lib)
print("setup ok")
