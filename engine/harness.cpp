// Harness driver: rapidcheck generation + shrinking, exhaustive enumeration, replay, fork-based
// shrinking of crashing cases, crash/sanitizer death capture, result JSON.
#include "harness.hpp"

#include <thread>

#include <rapidcheck.h>
#include <fcntl.h>
#include <signal.h>
#include <sys/wait.h>
#include <unistd.h>

#include <algorithm>
#include <chrono>
#include <set>
#include <sstream>

extern "C" void __sanitizer_set_death_callback(void (*)(void)) __attribute__((weak));

namespace vh {

bool g_replaying = false;

static const char* g_prop = "";
static char g_cur_json[8192];  // pre-rendered replay JSON of the running case (async-signal-safe dump)
static char g_crash_path[1024];
static volatile sig_atomic_t g_in_case = 0;

static std::string json_escape(const std::string& s) {
  std::string o;
  for (char c : s) {
    if (c == '"' || c == '\\') {
      o += '\\';
      o += c;
    } else if (c == '\n') {
      o += "\\n";
    } else if ((unsigned char)c < 0x20) {
      o += ' ';
    } else
      o += c;
  }
  return o;
}

static std::string case_json(const Sub& sub, const Vals& v, const std::string& msg, const std::string& note) {
  std::ostringstream o;
  o << "{\"property\":\"" << g_prop << "\",\"sub\":\"" << sub.name << "\",\"fields\":{";
  for (size_t i = 0; i < v.size(); ++i) {
    if (i) o << ",";
    o << "\"" << sub.fields[i].name << "\":" << v[i];
  }
  o << "},\"message\":\"" << json_escape(msg) << "\",\"note\":\"" << json_escape(note) << "\"}";
  return o.str();
}

static void dump_crash() {
  if (!g_in_case || !g_crash_path[0]) return;
  int fd = open(g_crash_path, O_WRONLY | O_CREAT | O_TRUNC, 0644);
  if (fd >= 0) {
    size_t n = strlen(g_cur_json);
    ssize_t w = write(fd, g_cur_json, n);
    (void)w;
    close(fd);
  }
}
static void on_signal(int sig) {
  dump_crash();
  const char m[] = "harness: fatal signal inside a case\n";
  ssize_t w = write(2, m, sizeof m - 1);
  (void)w;
  _exit(86);
}
static void on_sanitizer_death() { dump_crash(); }

static void install_handlers() {
  static char altstack[1 << 16];
  stack_t ss;
  ss.ss_sp = altstack;
  ss.ss_size = sizeof altstack;
  ss.ss_flags = 0;
  sigaltstack(&ss, nullptr);
  struct sigaction sa;
  memset(&sa, 0, sizeof sa);
  sa.sa_handler = on_signal;
  sa.sa_flags = SA_ONSTACK | SA_RESETHAND;
  for (int s : {SIGSEGV, SIGBUS, SIGFPE, SIGILL, SIGABRT, SIGALRM}) sigaction(s, &sa, nullptr);
  if (__sanitizer_set_death_callback) __sanitizer_set_death_callback(on_sanitizer_death);
}

struct Stats {
  uint64_t evaluations = 0, discards = 0;
  std::set<uint64_t> nontrivial;
  std::map<std::string, uint64_t> classes;
  std::vector<std::string> samples;
  bool failed = false;
  std::string fail_json;
};
static Stats g_st;

static uint64_t case_hash(const Sub& sub, const Vals& v) {
  uint64_t h = fnv1a(sub.name.data(), sub.name.size());
  return fnv1a(v.data(), v.size() * sizeof(int64_t), h);
}

// runs one case; returns true when it passed
static bool run_case(const Sub& sub, const Vals& v, Ctx& ctx) {
  std::string cj = case_json(sub, v, "crash (fatal signal or sanitizer report) or no completion within 600 s while executing this case", "");
  strncpy(g_cur_json, cj.c_str(), sizeof g_cur_json - 1);
  g_in_case = 1;
  g_case_hash = case_hash(sub, v);
  alarm(600);  // watchdog: a single case takes milliseconds to a few seconds; a library call that never returns is reported like a crash
  static const bool no_side = getenv("VERIF_NO_SIDE_THREAD") != nullptr;  // sensitivity measurements only
  if (!no_side && ((g_case_hash >> 17) & 15) == 3) {
    std::thread th([&]() {
      g_side_thread = true;
      sub.run(v, ctx);
    });
    th.join();
    ctx.cls("executed-on-side-thread");
  } else {
    sub.run(v, ctx);
  }
  for (auto& f : g_case_cleanup) f();
  g_case_cleanup.clear();
  alarm(0);
  g_in_case = 0;
  if (ctx.discard) {
    g_st.discards++;
    return true;
  }
  g_st.evaluations++;
  for (auto& c : ctx.classes) g_st.classes[c]++;
  if (ctx.nontrivial) {
    bool fresh = g_st.nontrivial.insert(case_hash(sub, v)).second;
    if (fresh && g_st.samples.size() < 4) g_st.samples.push_back(case_json(sub, v, "", ctx.note));
  }
  if (ctx.failed()) {
    g_st.failed = true;
    g_st.fail_json = case_json(sub, v, ctx.fail, ctx.note);
    return false;
  }
  return true;
}

// ---------------------------------------------------------------------------------------------
static bool parse_replay(const std::string& path, std::string& subname, std::map<std::string, int64_t>& f) {
  FILE* fp = fopen(path.c_str(), "r");
  if (!fp) return false;
  std::string s;
  char buf[4096];
  size_t n;
  while ((n = fread(buf, 1, sizeof buf, fp)) > 0) s.append(buf, n);
  fclose(fp);
  // tolerant of whitespace / indentation (the driver re-writes the case with json.dump(indent=1))
  size_t p = s.find("\"sub\"");
  if (p == std::string::npos) return false;
  p = s.find(':', p);
  if (p == std::string::npos) return false;
  p = s.find('"', p);
  if (p == std::string::npos) return false;
  ++p;
  subname = s.substr(p, s.find('"', p) - p);
  p = s.find("\"fields\"");
  if (p == std::string::npos) return false;
  p = s.find('{', p);
  if (p == std::string::npos) return false;
  ++p;
  size_t e = s.find('}', p);
  if (e == std::string::npos) return false;
  std::string body = s.substr(p, e - p);
  size_t i = 0;
  while (i < body.size()) {
    size_t q1 = body.find('"', i);
    if (q1 == std::string::npos) break;
    size_t q2 = body.find('"', q1 + 1);
    std::string name = body.substr(q1 + 1, q2 - q1 - 1);
    size_t c = body.find(':', q2);
    size_t end = body.find(',', c);
    if (end == std::string::npos) end = body.size();
    f[name] = strtoll(body.substr(c + 1, end - c - 1).c_str(), nullptr, 10);
    i = end + 1;
  }
  return true;
}

static const Sub* find_sub(const std::vector<Sub>& subs, const std::string& n) {
  for (auto& s : subs)
    if (s.name == n) return &s;
  return nullptr;
}

static void write_result(const std::string& out, const std::string& subname, const char* mode, double wall,
                         bool exhaustive) {
  if (out.empty()) return;
  FILE* fp = fopen(out.c_str(), "w");
  if (!fp) return;
  fprintf(fp, "{\"property\":\"%s\",\"sub\":\"%s\",\"mode\":\"%s\",\"evaluations\":%llu,\"discards\":%llu,", g_prop,
          subname.c_str(), mode, (unsigned long long)g_st.evaluations, (unsigned long long)g_st.discards);
  fprintf(fp, "\"exhaustive\":%s,\"wall_s\":%.3f,\"failed\":%s,", exhaustive ? "true" : "false", wall,
          g_st.failed ? "true" : "false");
  fprintf(fp, "\"classes\":{");
  bool first = true;
  for (auto& kv : g_st.classes) {
    fprintf(fp, "%s\"%s\":%llu", first ? "" : ",", json_escape(kv.first).c_str(), (unsigned long long)kv.second);
    first = false;
  }
  fprintf(fp, "},\"samples\":[");
  for (size_t i = 0; i < g_st.samples.size(); ++i) fprintf(fp, "%s%s", i ? "," : "", g_st.samples[i].c_str());
  fprintf(fp, "],\"fail\":%s,", g_st.failed ? g_st.fail_json.c_str() : "null");
  fprintf(fp, "\"nontrivial\":\"");
  for (uint64_t h : g_st.nontrivial) fprintf(fp, "%016llx", (unsigned long long)h);
  fprintf(fp, "\"}\n");
  fclose(fp);
}

static int child_run(const Sub& sub, const Vals& v, int timeout_s) {
  fflush(stdout);
  fflush(stderr);
  pid_t pid = fork();
  if (pid == 0) {
    alarm(timeout_s);
    int dn = open("/dev/null", O_WRONLY);
    if (dn >= 0) {
      dup2(dn, 2);
      dup2(dn, 1);
    }
    g_crash_path[0] = 0;
    Ctx c;
    sub.run(v, c);
    _exit(c.failed() ? 1 : 0);
  }
  int st = 0;
  waitpid(pid, &st, 0);
  if (WIFEXITED(st)) return WEXITSTATUS(st);
  if (WIFSIGNALED(st) && WTERMSIG(st) == SIGALRM) return 0;  // timeout: not a failure
  return 99;
}

int harness_main(int argc, char** argv, const char* property_id, const std::vector<Sub>& subs) {
  g_prop = property_id;
  std::string subname, out, replay, shrink;
  uint64_t seed = 1;
  long count = 100;
  bool do_enum = false, do_list = false;
  std::map<std::string, std::pair<int64_t, int64_t>> fixes;
  for (int i = 1; i < argc; ++i) {
    std::string a = argv[i];
    auto next = [&]() -> std::string { return i + 1 < argc ? argv[++i] : ""; };
    if (a == "--sub") subname = next();
    else if (a == "--out") out = next();
    else if (a == "--replay") replay = next();
    else if (a == "--shrink") shrink = next();
    else if (a == "--seed") seed = strtoull(next().c_str(), nullptr, 10);
    else if (a == "--count") count = atol(next().c_str());
    else if (a == "--enum") do_enum = true;
    else if (a == "--list") do_list = true;
    else if (a == "--fix") {
      std::string f = next();
      size_t eq = f.find('=');
      std::string name = f.substr(0, eq), val = f.substr(eq + 1);
      size_t dd = val.find("..");
      if (dd == std::string::npos) {
        int64_t x = strtoll(val.c_str(), nullptr, 10);
        fixes[name] = {x, x};
      } else {
        fixes[name] = {strtoll(val.substr(0, dd).c_str(), nullptr, 10), strtoll(val.substr(dd + 2).c_str(), nullptr, 10)};
      }
    } else {
      fprintf(stderr, "harness: unknown argument %s\n", a.c_str());
      return 2;
    }
  }
  if (do_list) {
    printf("{\"property\":\"%s\",\"subs\":[", property_id);
    for (size_t i = 0; i < subs.size(); ++i) {
      printf("%s{\"name\":\"%s\",\"fields\":[", i ? "," : "", subs[i].name.c_str());
      for (size_t j = 0; j < subs[i].fields.size(); ++j)
        printf("%s{\"name\":\"%s\",\"lo\":%lld,\"hi\":%lld}", j ? "," : "", subs[i].fields[j].name.c_str(),
               (long long)subs[i].fields[j].lo, (long long)subs[i].fields[j].hi);
      printf("]}");
    }
    printf("]}\n");
    return 0;
  }
  auto t0 = std::chrono::steady_clock::now();
  auto wall = [&]() { return std::chrono::duration<double>(std::chrono::steady_clock::now() - t0).count(); };

  // ---------------- replay / shrink: bypass rapidcheck entirely
  if (!replay.empty() || !shrink.empty()) {
    std::map<std::string, int64_t> f;
    std::string sn;
    const std::string& path = replay.empty() ? shrink : replay;
    if (!parse_replay(path, sn, f)) {
      fprintf(stderr, "harness: cannot parse replay file %s\n", path.c_str());
      return 2;
    }
    const Sub* sub = find_sub(subs, sn);
    if (!sub) {
      fprintf(stderr, "harness: replay names unknown sub %s\n", sn.c_str());
      return 2;
    }
    Vals v;
    for (auto& fd : sub->fields) {
      auto it = f.find(fd.name);
      v.push_back(it == f.end() ? fd.lo : it->second);
    }
    if (!replay.empty()) {
      g_replaying = true;
      install_handlers();
      if (!out.empty()) snprintf(g_crash_path, sizeof g_crash_path, "%s.crash", out.c_str());
      Ctx c;
      bool ok = run_case(*sub, v, c);
      if (!ok) {
        printf("REPLAY-FAIL %s/%s: %s\n", property_id, sn.c_str(), c.fail.c_str());
        if (!c.note.empty()) printf("  case: %s\n", c.note.c_str());
        return 1;
      }
      printf("REPLAY-PASS %s/%s\n", property_id, sn.c_str());
      return 0;
    }
    // shrink by fork: greedy per-field descent towards lo while the child still fails
    if (child_run(*sub, v, 120) == 0) {
      fprintf(stderr, "harness: case to shrink does not fail\n");
      return 3;
    }
    bool progress = true;
    int rounds = 0;
    while (progress && rounds++ < 20) {
      progress = false;
      for (size_t i = 0; i < v.size(); ++i) {
        if (sub->fields[i].name == "seed") continue;
        int64_t lo = sub->fields[i].lo;
        while (v[i] > lo) {
          std::vector<int64_t> cands = {lo};
          int64_t d = (v[i] - lo) / 2;
          while (d > 0) {
            cands.push_back(v[i] - d);
            d /= 2;
          }
          bool acc = false;
          for (int64_t c : cands) {
            if (c >= v[i]) continue;
            Vals w = v;
            w[i] = c;
            if (child_run(*sub, w, 120) != 0) {
              v = w;
              acc = true;
              progress = true;
              break;
            }
          }
          if (!acc) break;
        }
      }
    }
    std::string cj = case_json(*sub, v, "crash (signal or sanitizer report) while executing this case; shrunk by fork", "");
    if (!out.empty()) {
      FILE* fp = fopen(out.c_str(), "w");
      if (fp) {
        fputs(cj.c_str(), fp);
        fclose(fp);
      }
    }
    printf("%s\n", cj.c_str());
    return 0;
  }

  const Sub* sub = find_sub(subs, subname);
  if (!sub) {
    fprintf(stderr, "harness: unknown sub '%s'\n", subname.c_str());
    return 2;
  }
  std::vector<Field> fields = sub->fields;
  for (auto& fd : fields) {
    auto it = fixes.find(fd.name);
    if (it != fixes.end()) {
      fd.lo = std::max(fd.lo, it->second.first);
      fd.hi = std::min(fd.hi, it->second.second);
      if (fd.lo > fd.hi) {
        fprintf(stderr, "harness: empty range for field %s\n", fd.name.c_str());
        return 2;
      }
      fixes.erase(it);
    }
  }
  if (!fixes.empty()) {
    fprintf(stderr, "harness: --fix names unknown field %s\n", fixes.begin()->first.c_str());
    return 2;
  }
  install_handlers();
  if (!out.empty()) snprintf(g_crash_path, sizeof g_crash_path, "%s.crash", out.c_str());

  if (do_enum) {
    // exhaustive enumeration of the (narrowed) box
    Vals v;
    for (auto& fd : fields) v.push_back(fd.lo);
    bool done = false;
    while (!done) {
      Ctx c;
      if (!run_case(*sub, v, c)) break;
      size_t i = 0;
      for (; i < v.size(); ++i) {
        if (v[i] < fields[i].hi) {
          ++v[i];
          break;
        }
        v[i] = fields[i].lo;
      }
      if (i == v.size()) done = true;
    }
    write_result(out, subname, "enum", wall(), !g_st.failed);
    if (g_st.failed) {
      printf("FAIL %s\n", g_st.fail_json.c_str());
      return 1;
    }
    return 0;
  }

  double t_first_fail = -1;
  const double shrink_budget = getenv("VERIF_SHRINK_S") ? atof(getenv("VERIF_SHRINK_S")) : 90.0;
  char params[256];
  snprintf(params, sizeof params, "seed=%llu max_success=%ld max_size=100 max_discard_ratio=20 noshrink=0",
           (unsigned long long)seed, count);
  setenv("RC_PARAMS", params, 1);
  bool ok = rc::check([&]() {
    Vals v;
    v.reserve(fields.size());
    for (auto& fd : fields) {
      if (fd.lo == fd.hi)
        v.push_back(fd.lo);
      else if (fd.hi == INT64_MAX)
        v.push_back(*rc::gen::resize(rc::kNominalSize, rc::gen::inRange<int64_t>(fd.lo, fd.hi)));
      else
        v.push_back(*rc::gen::resize(rc::kNominalSize, rc::gen::inRange<int64_t>(fd.lo, fd.hi + 1)));
    }
    Ctx c;
    // shrinking budget: the search for a smaller counterexample stops (every further candidate is treated as passing, without being
    // run) once it has taken VERIF_SHRINK_S seconds (default 90); the counterexample found so far is real either way
    if (g_st.failed) {
      if (t_first_fail < 0) t_first_fail = wall();
      if (wall() - t_first_fail > shrink_budget) return;
    }
    bool pass = run_case(*sub, v, c);
    if (c.discard) RC_DISCARD("case outside domain");
    if (!pass) RC_FAIL(c.fail);
  });
  // after shrinking, the last failing execution is the minimal counterexample (run_case recorded it)
  write_result(out, subname, "rapidcheck", wall(), false);
  if (!ok || g_st.failed) {
    printf("FAIL %s\n", g_st.fail_json.c_str());
    return 1;
  }
  return 0;
}

}  // namespace vh

int main(int argc, char** argv) { return vh::harness_main(argc, argv, vh_property_id, vh_subs()); }
