// Generic property harness: a property is a set of "subs"; each sub has a compact integer case
// descriptor (named fields with inclusive ranges) drawn by rapidcheck, and a run function that expands
// the descriptor deterministically (SplitMix64 from the "seed" field) into data, calls the library and
// checks the oracle.  See DESIGN.md 2.4.
#pragma once
#include <cstdarg>
#include <cstdint>
#include <cstdio>
#include <cstring>
#include <functional>
#include <map>
#include <string>
#include <vector>

namespace vh {

struct Field {
  std::string name;
  int64_t lo, hi;  // inclusive
};

using Vals = std::vector<int64_t>;

struct Ctx {
  bool nontrivial = false;
  std::vector<std::string> classes;
  std::string fail;
  std::string note;  // free-text description of the expanded case (goes into samples / replay)
  bool discard = false;
  void cls(const std::string& c) { classes.push_back(c); }
  void failf(const char* fmt, ...) __attribute__((format(printf, 2, 3))) {
    if (!fail.empty()) return;  // keep first
    char buf[1024];
    va_list ap;
    va_start(ap, fmt);
    vsnprintf(buf, sizeof buf, fmt, ap);
    va_end(ap);
    fail = buf;
  }
  void notef(const char* fmt, ...) __attribute__((format(printf, 2, 3))) {
    char buf[1024];
    va_list ap;
    va_start(ap, fmt);
    vsnprintf(buf, sizeof buf, fmt, ap);
    va_end(ap);
    note = buf;
  }
  bool failed() const { return !fail.empty(); }
};

struct Sub {
  std::string name;
  std::vector<Field> fields;
  std::function<void(const Vals&, Ctx&)> run;
};

// accessor by name (small linear search; descriptors have < 20 fields)
struct Args {
  const Sub& sub;
  const Vals& v;
  int64_t operator()(const char* name) const {
    for (size_t i = 0; i < sub.fields.size(); ++i)
      if (sub.fields[i].name == name) return v[i];
    fprintf(stderr, "harness: unknown field %s in sub %s\n", name, sub.name.c_str());
    abort();
  }
};

// deterministic bulk-data expansion
struct Rng {
  uint64_t s;
  explicit Rng(uint64_t seed) : s(seed * 0x9E3779B97F4A7C15ull + 0x1234567ull) {}
  uint64_t next() {
    uint64_t z = (s += 0x9E3779B97F4A7C15ull);
    z = (z ^ (z >> 30)) * 0xBF58476D1CE4E5B9ull;
    z = (z ^ (z >> 27)) * 0x94D049BB133111EBull;
    return z ^ (z >> 31);
  }
  uint64_t below(uint64_t n) { return n ? next() % n : 0; }
  // uniform in [-b, b]
  int64_t sym(int64_t b) { return b <= 0 ? 0 : (int64_t)(next() % (2 * (uint64_t)b + 1)) - b; }
  // signed value of at most `bits` bits magnitude: |x| < 2^bits
  int64_t sbits(unsigned bits) {
    if (bits == 0) return 0;
    if (bits >= 63) bits = 63;
    uint64_t m = (1ull << bits) - 1;
    int64_t x = (int64_t)(next() & m);
    return (next() & 1) ? -x : x;
  }
  double unit() { return (double)(next() >> 11) * (1.0 / 9007199254740992.0); }  // [0,1)
  double sunit() { return 2.0 * unit() - 1.0; }
};

inline uint64_t fnv1a(const void* p, size_t n, uint64_t h = 0xcbf29ce484222325ull) {
  const unsigned char* c = (const unsigned char*)p;
  for (size_t i = 0; i < n; ++i) {
    h ^= c[i];
    h *= 0x100000001b3ull;
  }
  return h;
}

// implemented in harness.cpp (the only TU that includes rapidcheck)
int harness_main(int argc, char** argv, const char* property_id, const std::vector<Sub>& subs);

// set by harness before running each case; readable by props for e.g. tier-dependent effort
extern bool g_replaying;
// hash of the descriptor of the case being executed (set by every driver before the sub's run function): lets shared helpers
// (spq::maybe_bystander) make per-case choices that are a pure function of the descriptor, so that a replay repeats them
inline uint64_t g_case_hash = 0;
// One case in sixteen (a pure function of the descriptor) is executed on a freshly created thread instead of the main thread:
// thread-local caches start empty there, "first use" state is fresh, and objects are built by a thread that is not the one that
// initialised the library.  g_side_thread is true while such a case runs; helpers use it to build fresh objects (spq::modules()).
inline thread_local bool g_side_thread = false;
// actions to run (on the main thread) after the current case: e.g. destroy objects created for a side-thread case
inline std::vector<std::function<void()>> g_case_cleanup;

}  // namespace vh

// every props/cXX.cpp defines these two
extern const char* vh_property_id;
std::vector<vh::Sub> vh_subs();
