// Exact interpreter over Z[X]/(X^N+1) + lock-step executor for random well-typed straight-line programs over the public
// MODULE API (C16).  Every choice (op, operands, shapes, strides, aliasing, values) is drawn from a `Chooser`, which is a
// SplitMix64 stream under rapidcheck and a FuzzedDataProvider under libFuzzer, so the same code serves both engines.
//
// Budget tracking (construction, not rejection): every slot carries its exact polynomials; an op is only *offered* when the
// result stays inside the representation's budget:
//   * FFT64 DFT-space values: bound B = sum over contributing products of |x|_1*|y|_1 (>= every intermediate magnitude)
//     must stay <= 2^40, which keeps the accumulated FFT rounding error far below 1/2 (c*log2N*2^-53*B with c<=64), so the
//     inverse DFT must return the exact integers; all coefficient-space values |x| <= 2^61 (add/sub) and |x|<2^50 before a DFT;
//   * NTT120: any int64 input, exact int128 big coefficients.
#pragma once
#include <algorithm>
#include <cmath>
#include <string>
#include <vector>

#include "arena.hpp"
#include "harness.hpp"
#include "oracle_digits.hpp"
#include "oracle_poly.hpp"
#include "ringmaps.hpp"
#include "spq.hpp"

namespace pipeline {
using namespace vh;
typedef __int128 i128;
typedef std::vector<i128> Poly;

enum Flag { F_DFT = 1, F_PRODUCT = 2, F_IDFT = 4, F_BIGOP = 8, F_NORMALIZE = 16 };

static const long double BUDGET = 1099511627776.0L;         // 2^40
static const long double LINF_MAX = 2305843009213693952.0L;  // 2^61

struct ZSlot { uint64_t size, sl; int64_t* p; std::vector<Poly> v; int flags; };
struct BSlot { uint64_t size; uint8_t* p; std::vector<Poly> v; int flags; };
struct DSlot { uint64_t size; uint8_t* p; std::vector<Poly> v; int flags; bool valid; };
struct PSlot { uint8_t* p; Poly v; int flags; };
struct MSlot { uint64_t nr, nc; uint8_t* p; std::vector<Poly> v; int flags; };

inline long double l1(const Poly& x) { long double s = 0; for (i128 c : x) s += fabsl((long double)c); return s; }
inline long double linf(const Poly& x) { long double s = 0; for (i128 c : x) s = std::max(s, fabsl((long double)c)); return s; }
inline long double linf(const std::vector<Poly>& v) { long double s = 0; for (auto& p : v) s = std::max(s, linf(p)); return s; }

inline Poly mul_exact(uint64_t n, const Poly& a, const Poly& b) {
  std::vector<int64_t> x(n), y(n);
  for (uint64_t i = 0; i < n; ++i) { x[i] = (int64_t)a[i]; y[i] = (int64_t)b[i]; }
  Poly out(n);
  orc::negacyclic_product(n, x.data(), y.data(), out.data());
  return out;
}

template <class Chooser>
struct Machine {
  uint64_t k, n;
  MODULE_TYPE mt;
  unsigned mask;
  MODULE* mod;
  Chooser& ch;
  Arena ar;
  std::vector<ZSlot> Z;
  std::vector<BSlot> B;
  std::vector<DSlot> D;
  std::vector<PSlot> P;
  std::vector<MSlot> M;
  std::string fail;
  std::vector<std::string> trace;
  int nops = 0;
  int reached = 0;  // union over slots of lineage flags that co-occur on one slot (max popcount slot)
  bool full_chain = false;

  Machine(uint64_t k_, MODULE_TYPE mt_, unsigned mask_, Chooser& c) : k(k_), n(1ull << k_), mt(mt_), mask(mask_), ch(c) {
    mod = spq::modules().get(n, mt, mask);
    // half of the programs lay all their objects out back to back in one region (packed up / down), the other half put every
    // buffer alone between guard pages / canaries
    uint64_t pk = ch.below(4);
    if (pk >= 2) ar.set_packed(pk == 2 ? +1 : -1);
    // half of the programs pass ONE scratch buffer (sized with the *_tmp_bytes functions, never re-initialised) as the tmp_space of
    // every call -- what the tmp_space arguments are for; the other half give each call a fresh, exactly sized, prefilled buffer
    shared_scratch = ch.below(2) != 0;
  }
  bool shared_scratch = false, loop_shared = false;
  uint8_t* sh_p = nullptr;
  size_t sh_cap = 0;
  uint8_t* scratch(size_t len) {
    if (!shared_scratch) return buf(len, (int)ch.below(4));
    if (len > sh_cap || !sh_p) {
      sh_cap = std::max<size_t>(len, 2 * sh_cap);
      if (sh_cap < 8 * n * 8 * 2) sh_cap = 8 * n * 8 * 2;  // a comfortable first size: the pointer then stays the same over the program
      sh_p = ar.alloc(sh_cap, OVER, 0, 3, 0x5C2A7C4).p;
    }
    return sh_p;
  }
  size_t dl() const { return spq::dft_limb_bytes(mt, n); }
  size_t bl() const { return spq::big_limb_bytes(mt, n); }
  uint8_t* buf(size_t len, int prefill) { return ar.alloc(len, (int)ch.below(3), 8 * ch.below(8), prefill, ch.below(1ull << 32)).p; }
  void note_flags(int f) {
    if ((f & 31) == 31) full_chain = true;
    if (__builtin_popcount(f) > __builtin_popcount(reached)) reached = f;
  }
  void failf(const std::string& s) { if (fail.empty()) fail = s; }
  static std::string u(uint64_t x) { return std::to_string(x); }

  // ------------------------------------------------------------------ slot creation
  int new_z(uint64_t size, int flags) {
    ZSlot s;
    s.size = size; s.sl = n + ch.below(3); s.flags = flags;
    s.p = (int64_t*)buf(size ? ((size - 1) * s.sl + n) * 8 : 0, (int)ch.below(4));
    s.v.assign(size, Poly(n, 0));
    Z.push_back(s);
    return (int)Z.size() - 1;
  }
  int new_b(uint64_t size, int flags) {
    BSlot s;
    s.size = size; s.flags = flags;
    s.p = buf(size * bl(), (int)ch.below(4));
    s.v.assign(size, Poly(n, 0));
    B.push_back(s);
    return (int)B.size() - 1;
  }
  int new_d(uint64_t size, int flags) {
    DSlot s;
    s.size = size; s.flags = flags; s.valid = true;
    s.p = buf(size * dl(), (int)ch.below(4));
    s.v.assign(size, Poly(n, 0));
    D.push_back(s);
    return (int)D.size() - 1;
  }
  void store_z(int zi) {  // writes the model values into the library buffer (used for inputs)
    ZSlot& s = Z[zi];
    for (uint64_t i = 0; i < s.size; ++i)
      for (uint64_t q = 0; q < n; ++q) s.p[i * s.sl + q] = (int64_t)s.v[i][q];
  }
  bool check_z(int zi, const char* what) {
    ZSlot& s = Z[zi];
    for (uint64_t i = 0; i < s.size; ++i)
      for (uint64_t q = 0; q < n; ++q)
        if ((i128)s.p[i * s.sl + q] != s.v[i][q]) {
          failf(std::string("op ") + u(nops) + " " + what + ": int64 limb " + u(i) + " coeff " + u(q) + " = " + std::to_string(s.p[i * s.sl + q]) + ", exact interpreter " +
                std::to_string((long long)s.v[i][q]));
          return false;
        }
    return true;
  }
  i128 big_at(const BSlot& s, uint64_t i, uint64_t q) const { return mt == FFT64 ? (i128)((int64_t*)s.p)[i * n + q] : ((i128*)s.p)[i * n + q]; }
  bool check_b(int bi, const char* what) {
    BSlot& s = B[bi];
    for (uint64_t i = 0; i < s.size; ++i)
      for (uint64_t q = 0; q < n; ++q)
        if (big_at(s, i, q) != s.v[i][q]) {
          failf(std::string("op ") + u(nops) + " " + what + ": big limb " + u(i) + " coeff " + u(q) + " = " + std::to_string((long long)big_at(s, i, q)) + ", exact interpreter " +
                std::to_string((long long)s.v[i][q]));
          return false;
        }
    return true;
  }
  Poly zlimb(const std::vector<Poly>& v, uint64_t i) const { return i < v.size() ? v[i] : Poly(n, 0); }

  // ------------------------------------------------------------------ ops
  void op_input(bool small) {
    uint64_t size = 1 + ch.below(4);
    int zi = new_z(size, 0);
    // small: DFT-able (|x|_1 <= ~2^17); large: up to 2^58 (coefficient-space ops and normalisation only)
    unsigned bits = small ? (unsigned)std::max<int64_t>(1, std::min<int64_t>(14, 17 - (int64_t)k)) : (unsigned)(20 + ch.below(39));
    if (small && bits > 1) bits = 1 + (unsigned)ch.below(bits);
    if (mt == NTT120 && !small) bits = (unsigned)(40 + ch.below(23));
    int sparse = (int)ch.below(3);
    for (auto& p : Z[zi].v) {
      // per-limb structure (value-dependent shortcuts must see their trigger): 0-5 none, 6 the zero polynomial, 7 one coefficient
      // only (index 0, N/2, N-1 or generated), 8 every low 32-bit half cleared (large inputs), 9 zero on the trailing part
      const uint64_t st = ch.below(10);
      const uint64_t keep = st == 7 ? (ch.below(4) == 0 ? 0 : ch.below(3) == 0 ? n / 2 : ch.below(2) == 0 ? n - 1 : ch.below(n)) : 0;
      const uint64_t cut = st == 9 ? ch.below(n) : n;
      for (uint64_t q = 0; q < n; ++q) {
        if (st == 6 || (st == 7 && q != keep) || q > cut) { p[q] = 0; continue; }
        if (sparse == 2 && st != 7 && ch.below(8) != 0) { p[q] = 0; continue; }
        uint64_t m = (1ull << bits) - 1;
        int64_t x = (int64_t)(ch.below(m + 1));
        if (st == 8 && bits >= 34) x = (int64_t)((uint64_t)x & ~0xFFFFFFFFull);
        p[q] = ch.below(2) ? -x : x;
      }
    }
    // NTT120 accepts every int64: one "large" input in two carries values at the very ends of the range (such a slot can only be
    // copied and transformed: the coefficient-space arithmetic documents |x| <= 2^62)
    bool boundary = false;
    if (mt == NTT120 && !small && ch.below(2)) {
      boundary = true;
      for (auto& p : Z[zi].v)
        for (uint64_t q = 0; q < n; q += 1 + ch.below(3)) {
          static const int64_t ends[6] = {INT64_MIN, INT64_MIN + 1, INT64_MAX, INT64_MAX - 1, -((int64_t)1 << 62) - 12345, INT64_MIN + ((int64_t)1 << 54)};
          uint64_t w = ch.below(8);
          p[q] = w < 6 ? (i128)ends[w] : (i128)(INT64_MIN + (int64_t)ch.below(1ull << 56));
        }
    }
    store_z(zi);
    trace.push_back("Z" + u(zi) + " = input(size=" + u(size) + ", bits=" + u(bits) + (sparse == 2 ? ", sparse" : "") + (boundary ? ", int64 boundary values" : "") + ")");
  }

  // element-wise coefficient ops; which: 0 copy 1 negate 2 rotate 3 automorphism 4 add 5 sub
  bool op_znx(int which, int a, int b) {
    const bool bin = which >= 4;
    const ZSlot A = Z[a];
    const ZSlot Bv = bin ? Z[b] : Z[a];
    if (bin && linf(A.v) + linf(Bv.v) >= LINF_MAX) return false;
    if (which != 0 && linf(A.v) > 4611686018427387904.0L) return false;  // negate / rotate / automorphism negate coefficients: |x| <= 2^62
    uint64_t rs = ch.below(5);
    int64_t p = 0;
    if (which == 2 || which == 3) p = ring::make_p((int)ch.below(4), k, (int64_t)ch.below(18), ch.below(1ull << 62), (int)ch.below(2), which == 3);
    const bool inplace = !bin && ch.below(4) == 0 && A.size >= 1;
    int ri;
    if (inplace) {
      ri = a;
      rs = std::min(rs, A.size);  // the slot's buffer holds A.size limbs
    } else {
      ri = new_z(rs, A.flags | (bin ? Bv.flags : 0));
    }
    ZSlot& R = Z[ri];
    std::vector<Poly> out(rs, Poly(n, 0));
    for (uint64_t i = 0; i < rs; ++i) {
      Poly x = zlimb(A.v, i), y = bin ? zlimb(Bv.v, i) : Poly();
      Poly& o = out[i];
      switch (which) {
        case 0: o = x; break;
        case 1: for (uint64_t q = 0; q < n; ++q) o[q] = -x[q]; break;
        case 2: if (i < A.size) ring::model<i128>(ring::ROT, n, p, o.data(), x.data()); break;
        case 3: if (i < A.size) ring::model<i128>(ring::AUT, n, p, o.data(), x.data()); break;
        case 4: for (uint64_t q = 0; q < n; ++q) o[q] = x[q] + y[q]; break;
        default: for (uint64_t q = 0; q < n; ++q) o[q] = x[q] - y[q];
      }
    }
    static const char* nm[] = {"vec_znx_copy", "vec_znx_negate", "vec_znx_rotate", "vec_znx_automorphism", "vec_znx_add", "vec_znx_sub"};
    switch (which) {
      case 0: vec_znx_copy(mod, R.p, rs, R.sl, A.p, A.size, A.sl); break;
      case 1: vec_znx_negate(mod, R.p, rs, R.sl, A.p, A.size, A.sl); break;
      case 2: vec_znx_rotate(mod, p, R.p, rs, R.sl, A.p, A.size, A.sl); break;
      case 3: vec_znx_automorphism(mod, p, R.p, rs, R.sl, A.p, A.size, A.sl); break;
      case 4: vec_znx_add(mod, R.p, rs, R.sl, A.p, A.size, A.sl, Bv.p, Bv.size, Bv.sl); break;
      default: vec_znx_sub(mod, R.p, rs, R.sl, A.p, A.size, A.sl, Bv.p, Bv.size, Bv.sl);
    }
    if (inplace) {
      for (uint64_t i = 0; i < rs; ++i) R.v[i] = out[i];  // limbs >= rs of the slot keep their old value
    } else {
      R.v = out;
    }
    trace.push_back("Z" + u(ri) + " = " + nm[which] + "(Z" + u(a) + (bin ? ", Z" + u(b) : "") + ", res_size=" + u(rs) + (which == 2 || which == 3 ? ", p=" + std::to_string(p) : "") +
                    (inplace ? ", in place" : "") + ")");
    return check_z(ri, nm[which]);
  }

  // normalisation: src_kind 0 = ZNX (vec_znx_normalize_base2k), 1 = BIG, 2 = BIG range
  bool op_normalize(int src_kind, int src) {
    unsigned kk = 1 + (unsigned)ch.below(62);
    std::vector<Poly> limbs;
    uint64_t begin = 0, step = 1, xend = 0;
    int flags;
    if (src_kind == 0) { limbs = Z[src].v; flags = Z[src].flags; }
    else {
      flags = B[src].flags;
      if (src_kind == 1) limbs = B[src].v;
      else {
        step = 1 + ch.below(3);
        begin = B[src].size ? ch.below(B[src].size + 1) : 0;
        xend = begin + (B[src].size > begin ? ch.below(B[src].size - begin + 1) : 0);
        for (uint64_t i = begin; i < xend; i += step) limbs.push_back(B[src].v[i]);
      }
    }
    if (linf(limbs) > 4611686018427387904.0L) return false;  // |a_i| <= 2^62
    const uint64_t as = limbs.size();
    // half of the time pick the base relative to the magnitude of the data (k ~ bits/d, d=1..4) so that carries really travel
    // across several limbs -- the realistic use: 40..50-bit big coefficients normalised to k = 10..20
    if (ch.below(2)) {
      long double li = linf(limbs);
      unsigned bits = li >= 1 ? (unsigned)floorl(log2l(li)) + 1 : 1;
      kk = std::max(1u, std::min(62u, bits / (1 + (unsigned)ch.below(4))));
    }
    // and half of the time keep only the most significant limb(s): the dropped low limbs must still propagate their carry
    uint64_t rs = ch.below(2) ? ch.below(2) + (as > 3 ? 0 : 0) : ch.below(5);
    const bool inplace = src_kind == 0 && ch.below(4) == 0;
    int ri;
    if (inplace) { ri = src; rs = std::min(rs, Z[src].size); }
    else ri = new_z(rs, flags | F_NORMALIZE);
    std::vector<Poly> out(rs, Poly(n, 0));
    for (uint64_t q = 0; q < n; ++q) {
      std::vector<int64_t> l(as);
      for (uint64_t i = 0; i < as; ++i) l[i] = (int64_t)limbs[i][q];
      std::vector<int64_t> d = orc::balanced_digits(l, kk);
      for (uint64_t i = 0; i < rs && i < as; ++i) out[i][q] = d[i];
    }
    uint64_t tb = src_kind == 0 ? vec_znx_normalize_base2k_tmp_bytes(mod) : src_kind == 1 ? vec_znx_big_normalize_base2k_tmp_bytes(mod) : vec_znx_big_range_normalize_base2k_tmp_bytes(mod);
    uint8_t* t = scratch(tb);
    ZSlot& R = Z[ri];
    if (src_kind == 0) vec_znx_normalize_base2k(mod, kk, R.p, rs, R.sl, Z[src].p, Z[src].size, Z[src].sl, t);
    else if (src_kind == 1) vec_znx_big_normalize_base2k(mod, kk, R.p, rs, R.sl, (VEC_ZNX_BIG*)B[src].p, B[src].size, t);
    else vec_znx_big_range_normalize_base2k(mod, kk, R.p, rs, R.sl, (VEC_ZNX_BIG*)B[src].p, begin, xend, step, t);
    if (inplace) { for (uint64_t i = 0; i < rs; ++i) R.v[i] = out[i]; R.flags |= F_NORMALIZE; }
    else R.v = out;
    note_flags(R.flags);
    trace.push_back("Z" + u(ri) + " = normalize_base2k(k=" + u(kk) + ", " + (src_kind == 0 ? "Z" : "B") + u(src) + (src_kind == 2 ? " range(" + u(begin) + "," + u(xend) + "," + u(step) + ")" : "") +
                    ", res_size=" + u(rs) + (inplace ? ", in place" : "") + ")");
    return check_z(ri, "normalize");
  }

  bool dftable(const std::vector<Poly>& v) const {
    for (auto& p : v) if (l1(p) > (mt == FFT64 ? BUDGET : 1e300L) || linf(p) >= 1125899906842624.0L * (mt == FFT64 ? 1 : 1e10L)) return false;
    return true;
  }
  bool op_dft(int a) {
    if (!dftable(Z[a].v)) return false;
    uint64_t rs = ch.below(2) ? Z[a].size : ch.below(5);
    int di = new_d(rs, Z[a].flags | F_DFT);
    for (uint64_t i = 0; i < rs; ++i) D[di].v[i] = zlimb(Z[a].v, i);
    vec_znx_dft(mod, (VEC_ZNX_DFT*)D[di].p, rs, Z[a].p, Z[a].size, Z[a].sl);
    trace.push_back("D" + u(di) + " = vec_znx_dft(Z" + u(a) + ", res_size=" + u(rs) + ")");
    return true;
  }
  bool op_idft(int d, bool tmp_a) {
    if (!D[d].valid) return false;
    uint64_t rs = ch.below(2) ? D[d].size : ch.below(5);
    // one inverse transform in four writes over its own input (res == a_dft, the supported in-place form): the big vector then lives
    // in the DFT vector's buffer, so res_size is limited by that buffer (an NTT120 DFT limb holds two big limbs)
    const bool inplace = D[d].size >= 1 && ch.below(4) == 0;
    int bi;
    if (inplace) {
      rs = std::min<uint64_t>(rs, D[d].size * dl() / bl());
      BSlot sb;
      sb.size = rs; sb.flags = D[d].flags | F_IDFT; sb.p = D[d].p;
      sb.v.assign(rs, Poly(n, 0));
      B.push_back(sb);
      bi = (int)B.size() - 1;
    } else {
      bi = new_b(rs, D[d].flags | F_IDFT);
    }
    for (uint64_t i = 0; i < rs; ++i) B[bi].v[i] = zlimb(D[d].v, i);
    if (tmp_a) {
      vec_znx_idft_tmp_a(mod, (VEC_ZNX_BIG*)B[bi].p, rs, (VEC_ZNX_DFT*)D[d].p, D[d].size);
      D[d].valid = false;  // documented: a_dft is overwritten
    } else {
      uint8_t* t = scratch(vec_znx_idft_tmp_bytes(mod));
      vec_znx_idft(mod, (VEC_ZNX_BIG*)B[bi].p, rs, (VEC_ZNX_DFT*)D[d].p, D[d].size, t);
    }
    if (inplace) D[d].valid = false;
    note_flags(B[bi].flags);
    trace.push_back("B" + u(bi) + " = vec_znx_idft" + (tmp_a ? "_tmp_a" : "") + "(D" + u(d) + ", res_size=" + u(rs) + (inplace ? ", in place" : "") + ")");
    return check_b(bi, tmp_a ? "vec_znx_idft_tmp_a" : "vec_znx_idft");
  }
  bool op_svp_prepare(int a) {
    if (Z[a].size == 0 || !dftable(Z[a].v)) return false;
    uint64_t limb = ch.below(Z[a].size);
    PSlot s;
    s.v = Z[a].v[limb];
    s.flags = Z[a].flags | F_DFT;
    s.p = buf(bytes_of_svp_ppol(mod), (int)ch.below(4));
    svp_prepare(mod, (SVP_PPOL*)s.p, Z[a].p + limb * Z[a].sl);
    P.push_back(s);
    trace.push_back("P" + u(P.size() - 1) + " = svp_prepare(Z" + u(a) + "[" + u(limb) + "])");
    return true;
  }
  bool op_svp_apply(int p, int a) {
    if (!dftable(Z[a].v)) return false;
    long double lp = l1(P[p].v);
    for (auto& x : Z[a].v) if (l1(x) * lp > BUDGET) return false;
    uint64_t rs = ch.below(5);
    int di = new_d(rs, P[p].flags | Z[a].flags | F_DFT | F_PRODUCT);
    for (uint64_t i = 0; i < rs; ++i) D[di].v[i] = i < Z[a].size ? mul_exact(n, Z[a].v[i], P[p].v) : Poly(n, 0);
    svp_apply_dft(mod, (VEC_ZNX_DFT*)D[di].p, rs, (SVP_PPOL*)P[p].p, Z[a].p, Z[a].size, Z[a].sl);
    trace.push_back("D" + u(di) + " = svp_apply_dft(P" + u(p) + ", Z" + u(a) + ", res_size=" + u(rs) + ")");
    return true;
  }
  void op_vmp_prepare() {
    MSlot s;
    s.nr = 1 + ch.below(4); s.nc = 1 + ch.below(4); s.flags = F_DFT;
    unsigned bits = 1 + (unsigned)ch.below((unsigned)std::max<int64_t>(1, std::min<int64_t>(10, 14 - (int64_t)k)));
    int sparse = (int)ch.below(2);
    std::vector<int64_t> mat(s.nr * s.nc * n);
    s.v.assign(s.nr * s.nc, Poly(n, 0));
    for (uint64_t e = 0; e < s.nr * s.nc; ++e) {
      if (ch.below(6) == 0) continue;  // a zero polynomial entry (its block of the prepared matrix must still be written)
      for (uint64_t q = 0; q < n; ++q) {
        int64_t x = (sparse && ch.below(4)) ? 0 : (int64_t)ch.below((1ull << bits)) * (ch.below(2) ? -1 : 1);
        mat[e * n + q] = x;
        s.v[e][q] = x;
      }
    }
    s.p = buf(bytes_of_vmp_pmat(mod, s.nr, s.nc), (int)ch.below(4));
    uint8_t* t = scratch(vmp_prepare_contiguous_tmp_bytes(mod, s.nr, s.nc));
    vmp_prepare_contiguous(mod, (VMP_PMAT*)s.p, mat.data(), s.nr, s.nc, t);
    M.push_back(s);
    trace.push_back("M" + u(M.size() - 1) + " = vmp_prepare_contiguous(" + u(s.nr) + "x" + u(s.nc) + ", bits=" + u(bits) + ")");
  }
  // src_kind 0: vmp_apply_dft(Z), 1: vmp_apply_dft_to_dft(D)
  bool op_vmp_apply(int src_kind, int src, int m) {
    const MSlot& mm = M[m];
    const std::vector<Poly> rows = src_kind == 0 ? Z[src].v : D[src].v;  // copy: new_d() below may reallocate D
    if (src_kind == 1 && !D[src].valid) return false;
    if (src_kind == 0 && !dftable(rows)) return false;
    const uint64_t usable = std::min<uint64_t>(mm.nr, rows.size());
    for (uint64_t j = 0; j < mm.nc; ++j) {
      long double b = 0;
      for (uint64_t i = 0; i < usable; ++i) b += l1(rows[i]) * l1(mm.v[i * mm.nc + j]);
      if (b > BUDGET) return false;
    }
    uint64_t rs = ch.below(6);
    int fl = (src_kind == 0 ? Z[src].flags : D[src].flags) | mm.flags | F_DFT | F_PRODUCT;
    int di = new_d(rs, fl);
    for (uint64_t j = 0; j < rs; ++j) {
      Poly acc(n, 0);
      if (j < mm.nc)
        for (uint64_t i = 0; i < usable; ++i) {
          Poly t = mul_exact(n, rows[i], mm.v[i * mm.nc + j]);
          for (uint64_t q = 0; q < n; ++q) acc[q] += t[q];
        }
      D[di].v[j] = acc;
    }
    if (src_kind == 0) {
      uint8_t* t = scratch(vmp_apply_dft_tmp_bytes(mod, rs, Z[src].size, mm.nr, mm.nc));
      vmp_apply_dft(mod, (VEC_ZNX_DFT*)D[di].p, rs, Z[src].p, Z[src].size, Z[src].sl, (VMP_PMAT*)mm.p, mm.nr, mm.nc, t);
    } else {
      uint8_t* t = scratch(vmp_apply_dft_to_dft_tmp_bytes(mod, rs, D[src].size, mm.nr, mm.nc));
      vmp_apply_dft_to_dft(mod, (VEC_ZNX_DFT*)D[di].p, rs, (VEC_ZNX_DFT*)D[src].p, D[src].size, (VMP_PMAT*)mm.p, mm.nr, mm.nc, t);
    }
    trace.push_back("D" + u(di) + " = " + (src_kind == 0 ? "vmp_apply_dft(Z" : "vmp_apply_dft_to_dft(D") + u(src) + ", M" + u(m) + ", res_size=" + u(rs) + ")");
    return true;
  }
  bool op_small_product(int a, int b) {
    if (Z[a].size == 0 || Z[b].size == 0) return false;
    uint64_t la = ch.below(Z[a].size), lb = ch.below(Z[b].size);
    const Poly x = Z[a].v[la], y = Z[b].v[lb];  // copies: new_z() below may reallocate Z
    if (l1(x) * l1(y) > BUDGET || linf(x) >= 1125899906842624.0L || linf(y) >= 1125899906842624.0L) return false;
    int ri = new_z(1, Z[a].flags | Z[b].flags | F_DFT | F_PRODUCT | F_IDFT);
    Z[ri].v[0] = mul_exact(n, x, y);
    uint8_t* t = scratch(znx_small_single_product_tmp_bytes(mod));
    znx_small_single_product(mod, Z[ri].p, Z[a].p + la * Z[a].sl, Z[b].p + lb * Z[b].sl, t);
    trace.push_back("Z" + u(ri) + " = znx_small_single_product(Z" + u(a) + "[" + u(la) + "], Z" + u(b) + "[" + u(lb) + "])");
    return check_z(ri, "znx_small_single_product");
  }
  // the key-switch / external-product loop: several prepared matrices applied to the SAME input vector, each product brought back
  // to coefficient space and normalised before the next one
  bool op_vmp_loop(int z) {
    if (!dftable(Z[z].v)) return false;
    if (M.empty()) op_vmp_prepare();
    const int iters = 2 + (int)ch.below(2);
    bool any = false;
    for (int t = 0; t < iters && fail.empty(); ++t) {
      if (ch.below(3) == 0 && M.size() < 6) op_vmp_prepare();
      int m = (int)ch.below(M.size());
      if (!op_vmp_apply(0, z, m)) break;
      any = true;
      int d = (int)D.size() - 1;
      if (!op_idft(d, ch.below(2))) break;
      if (!op_normalize(1, (int)B.size() - 1)) break;
    }
    if (any && shared_scratch) loop_shared = true;
    return any;
  }
  // big arithmetic; which: 0 add 1 add_small 2 add_small2 3 sub 4 sub_small_a 5 sub_small_b 6 sub_small2 7 rotate 8 automorphism
  bool op_big(int which, int a, int b) {
    const bool a_big = which == 0 || which == 1 || which == 3 || which == 5 || which >= 7;
    const bool b_big = which == 0 || which == 3 || which == 4;
    const bool unary = which >= 7;
    const std::vector<Poly> av = a_big ? B[a].v : Z[a].v;  // copies: new_b() below may reallocate the slot tables
    const std::vector<Poly> bv = unary ? std::vector<Poly>() : (b_big ? B[b].v : Z[b].v);
    if (!unary && linf(av) + linf(bv) >= LINF_MAX) return false;
    const bool sub = which >= 3 && which <= 6;
    uint64_t rs = ch.below(5);
    int64_t p = unary ? ring::make_p((int)ch.below(4), k, (int64_t)ch.below(18), ch.below(1ull << 62), (int)ch.below(2), which == 8) : 0;
    int fl = (a_big ? B[a].flags : Z[a].flags) | (unary ? 0 : (b_big ? B[b].flags : Z[b].flags)) | F_BIGOP;
    const bool inplace = a_big && ch.below(4) == 0 && B[a].size >= 1;
    int ri;
    if (inplace) { ri = a; rs = std::min(rs, B[a].size); }
    else ri = new_b(rs, fl);
    std::vector<Poly> out(rs, Poly(n, 0));
    for (uint64_t i = 0; i < rs; ++i) {
      Poly x = zlimb(av, i);
      if (unary) { if (i < av.size()) ring::model<i128>(which == 7 ? ring::ROT : ring::AUT, n, p, out[i].data(), x.data()); }
      else { Poly y = zlimb(bv, i); for (uint64_t q = 0; q < n; ++q) out[i][q] = sub ? x[q] - y[q] : x[q] + y[q]; }
    }
    VEC_ZNX_BIG* R = (VEC_ZNX_BIG*)B[ri].p;
    static const char* nm[] = {"vec_znx_big_add", "vec_znx_big_add_small", "vec_znx_big_add_small2", "vec_znx_big_sub", "vec_znx_big_sub_small_a", "vec_znx_big_sub_small_b",
                               "vec_znx_big_sub_small2", "vec_znx_big_rotate", "vec_znx_big_automorphism"};
    switch (which) {
      case 0: vec_znx_big_add(mod, R, rs, (VEC_ZNX_BIG*)B[a].p, B[a].size, (VEC_ZNX_BIG*)B[b].p, B[b].size); break;
      case 1: vec_znx_big_add_small(mod, R, rs, (VEC_ZNX_BIG*)B[a].p, B[a].size, Z[b].p, Z[b].size, Z[b].sl); break;
      case 2: vec_znx_big_add_small2(mod, R, rs, Z[a].p, Z[a].size, Z[a].sl, Z[b].p, Z[b].size, Z[b].sl); break;
      case 3: vec_znx_big_sub(mod, R, rs, (VEC_ZNX_BIG*)B[a].p, B[a].size, (VEC_ZNX_BIG*)B[b].p, B[b].size); break;
      case 4: vec_znx_big_sub_small_a(mod, R, rs, Z[a].p, Z[a].size, Z[a].sl, (VEC_ZNX_BIG*)B[b].p, B[b].size); break;
      case 5: vec_znx_big_sub_small_b(mod, R, rs, (VEC_ZNX_BIG*)B[a].p, B[a].size, Z[b].p, Z[b].size, Z[b].sl); break;
      case 6: vec_znx_big_sub_small2(mod, R, rs, Z[a].p, Z[a].size, Z[a].sl, Z[b].p, Z[b].size, Z[b].sl); break;
      case 7: vec_znx_big_rotate(mod, p, R, rs, (VEC_ZNX_BIG*)B[a].p, B[a].size); break;
      default: vec_znx_big_automorphism(mod, p, R, rs, (VEC_ZNX_BIG*)B[a].p, B[a].size);
    }
    if (inplace) { for (uint64_t i = 0; i < rs; ++i) B[ri].v[i] = out[i]; B[ri].flags |= fl; }
    else B[ri].v = out;
    note_flags(B[ri].flags);
    trace.push_back("B" + u(ri) + " = " + nm[which] + "(" + (a_big ? "B" : "Z") + u(a) + (unary ? ", p=" + std::to_string(p) : std::string(", ") + (b_big ? "B" : "Z") + u(b)) +
                    ", res_size=" + u(rs) + (inplace ? ", in place" : "") + ")");
    return check_b(ri, nm[which]);
  }

  // ------------------------------------------------------------------ program generation: one step
  template <class V>
  int pick_recent(const V& v) {  // bias towards the most recently produced slot (advances pipelines)
    if (v.empty()) return -1;
    if (ch.below(3) != 0) return (int)v.size() - 1;
    return (int)ch.below(v.size());
  }
  void step() {
    ++nops;
    for (int attempt = 0; attempt < 6; ++attempt) {
      if (!fail.empty()) return;
      int z = pick_recent(Z), b = pick_recent(B), d = pick_recent(D), p = pick_recent(P), m = pick_recent(M);
      int z2 = Z.empty() ? -1 : (int)ch.below(Z.size());
      uint64_t c = ch.below(mt == FFT64 ? 22 : 9);
      bool done = false;
      if (mt == NTT120) {
        switch (c) {
          case 0: op_input(ch.below(2)); done = true; break;
          case 1: case 2: if (z >= 0) done = op_znx((int)ch.below(6), z, z2); break;
          case 3: if (z >= 0) done = op_normalize(0, z); break;
          case 4: case 5: if (z >= 0) done = op_dft(z); break;
          default: if (d >= 0) done = op_idft(d, ch.below(2)); break;
        }
      } else {
        switch (c) {
          case 0: op_input(true); done = true; break;
          case 1: op_input(false); done = true; break;
          case 2: case 3: if (z >= 0) done = op_znx((int)ch.below(6), z, z2); break;
          case 4: if (z >= 0) done = op_normalize(0, z); break;
          case 5: if (z >= 0) done = op_dft(z); break;
          case 6: if (z >= 0) done = op_svp_prepare(z); break;
          case 7: case 8: if (p >= 0 && z >= 0) done = op_svp_apply(p, z2 >= 0 && ch.below(2) ? z2 : z); break;
          case 9: op_vmp_prepare(); done = true; break;
          case 10: case 11: if (m >= 0 && z >= 0) done = op_vmp_apply(0, z, m); break;
          case 12: if (m >= 0 && d >= 0) done = op_vmp_apply(1, d, m); break;
          case 13: case 14: if (d >= 0) done = op_idft(d, ch.below(2)); break;
          case 15: case 16: {
            if (b < 0) break;
            int which = (int)ch.below(9);
            const bool need_z = which == 1 || which == 2 || which == 4 || which == 5 || which == 6;
            if (need_z && z < 0) break;
            int a_i, b_i;
            switch (which) {
              case 0: case 3: a_i = b; b_i = (int)ch.below(B.size()); break;
              case 1: case 5: a_i = b; b_i = z; break;
              case 2: case 6: a_i = z; b_i = z2; break;
              case 4: a_i = z; b_i = b; break;
              default: a_i = b; b_i = -1;
            }
            done = op_big(which, a_i, b_i);
            break;
          }
          case 17: case 18: if (b >= 0) done = op_normalize(1 + (int)ch.below(2), b); break;
          case 19: if (z >= 0 && z2 >= 0) done = op_small_product(z, z2); break;
          default: if (z >= 0) done = op_vmp_loop(z); break;
        }
      }
      if (done || !fail.empty()) return;
    }
    op_input(true);  // nothing applicable: start a new chain
  }
  // flush: every still-valid DFT slot is inverted and compared, so no opaque value escapes the oracle
  void flush() {
    for (size_t d = 0; d < D.size() && fail.empty(); ++d)
      if (D[d].valid && D[d].size) { ++nops; op_idft((int)d, false); }
    if (fail.empty() && ar.check_canaries() >= 0) failf("a call of the program wrote outside a declared extent / *_tmp_bytes");
  }
  std::string program() const {
    std::string s;
    for (size_t i = 0; i < trace.size(); ++i) s += (i ? "; " : "") + trace[i];
    return s;
  }
};

struct RngChooser {
  Rng r;
  explicit RngChooser(uint64_t seed) : r(seed) {}
  uint64_t below(uint64_t n) { return r.below(n); }
};

}  // namespace pipeline
