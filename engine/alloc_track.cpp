#include "alloc_track.hpp"

#include <cstdlib>
#include <cstring>

extern "C" {
void* __real_malloc(size_t);
void* __real_calloc(size_t, size_t);
void* __real_realloc(void*, size_t);
void* __real_aligned_alloc(size_t, size_t);
int __real_posix_memalign(void**, size_t, size_t);
void __real_free(void*);
}

namespace {
const size_t CAP = 1 << 16;
at::Block g_tab[CAP];
size_t g_n = 0;
bool g_on = false;
int g_fill = -1;
void fill(void* p, size_t n) {
  if (g_fill >= 0 && p) memset(p, g_fill, n);
}
void rec(void* p, size_t n) {
  if (!g_on || !p) return;
  if (g_n < CAP) g_tab[g_n++] = {p, n};
}
void unrec(void* p) {
  if (!g_on || !p) return;
  for (size_t i = g_n; i-- > 0;)
    if (g_tab[i].p == p) {
      g_tab[i] = g_tab[--g_n];
      return;
    }
}
}  // namespace

extern "C" {
void* __wrap_malloc(size_t n) {
  void* p = __real_malloc(n);
  fill(p, n);
  rec(p, n);
  return p;
}
void* __wrap_calloc(size_t a, size_t b) {
  void* p = __real_calloc(a, b);
  rec(p, a * b);
  return p;
}
void* __wrap_realloc(void* q, size_t n) {
  unrec(q);
  void* p = __real_realloc(q, n);
  rec(p, n);
  return p;
}
void* __wrap_aligned_alloc(size_t al, size_t n) {
  void* p = __real_aligned_alloc(al, n);
  fill(p, n);
  rec(p, n);
  return p;
}
int __wrap_posix_memalign(void** out, size_t al, size_t n) {
  int r = __real_posix_memalign(out, al, n);
  if (r == 0) fill(*out, n);
  if (r == 0) rec(*out, n);
  return r;
}
void __wrap_free(void* p) {
  unrec(p);
  __real_free(p);
}
}

namespace at {
void begin() {
  g_n = 0;
  g_on = true;
}
std::vector<Block> end() {
  g_on = false;
  std::vector<Block> r(g_tab, g_tab + g_n);
  return r;
}
size_t live() { return g_n; }
void set_fill(int byte) { g_fill = byte; }
uint64_t hash_blocks(const std::vector<Block>& b) {
  uint64_t h = 0xcbf29ce484222325ull;
  for (auto& x : b) {
    const unsigned char* c = (const unsigned char*)x.p;
    for (size_t i = 0; i < x.n; ++i) {
      h ^= c[i];
      h *= 0x100000001b3ull;
    }
  }
  return h;
}
}  // namespace at
