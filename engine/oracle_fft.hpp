// Long double reference for the complex FFT / iFFT of spqlios (reim and cplx layouts), DESIGN C06.
//
// Mathematical definition (spqlios/cplx/README.md, reim_fft_internal.h):  m = 2^k,  P(X) = sum_n c_n X^n,
//     forward:  out[j] = P(x_j),   x_j = exp(2 i pi (t + bitrev_k(j)) / m),       t = "entry power" (1/4 for a full
//                                                                                   transform: x_j = omega^(1+4 bitrev_k(j)),
//                                                                                   omega = exp(i pi / 2m))
//     inverse:  in[j] = y_j  ->  z = m * F^-1(y)   (the coefficients of the interpolating polynomial times m)
// t = tnum / 2^tlog is kept as an exact dyadic rational: every root of unity is computed from an exactly reduced
// integer angle (octant symmetry, argument of cosl/sinl in [0, pi/4]) and never by repeated multiplication.
//
// Algorithm (deliberately not the library's twiddle-merged recursion):
//     d_n = c_n * exp(2 i pi t n / m)                  (twist)
//     Y[r] = sum_n d_n exp(+2 i pi r n / m)            (textbook radix-2 decimation-in-time DFT, natural order)
//     out[j] = Y[bitrev_k(j)]                          (documented order)
// plus an independent evaluation of a single output by Horner's rule with a running error bound.
#pragma once
#include <cmath>
#include <cstdint>
#include <map>
#include <vector>

namespace fo {

typedef long double ld;
struct C {
  ld re, im;
};
static inline C cmul(C a, C b) { return {a.re * b.re - a.im * b.im, a.re * b.im + a.im * b.re}; }
static inline C cadd(C a, C b) { return {a.re + b.re, a.im + b.im}; }
static inline C csub(C a, C b) { return {a.re - b.re, a.im - b.im}; }
static inline C cconj(C a) { return {a.re, -a.im}; }
static inline ld cabsl_(C a) { return hypotl(a.re, a.im); }

static const ld TWO_PI = 6.283185307179586476925286766559005768L;
static const ld U64 = 5.42101086242752217003726400434970855712890625e-20L;  // 2^-64: unit roundoff of long double

static inline uint64_t bitrev(uint64_t j, unsigned k) {
  uint64_t r = 0;
  for (unsigned i = 0; i < k; ++i) r |= ((j >> i) & 1) << (k - 1 - i);
  return r;
}

// exp(2 i pi num / 2^L), L <= 60.  |error| <= ~3 * 2^-64.
static inline C root(uint64_t num, unsigned L) {
  if (L < 3) {
    num <<= (3 - L);
    L = 3;
  }
  const uint64_t N = 1ull << L, E = N >> 3;
  num &= N - 1;
  const unsigned o = (unsigned)(num / E);
  const uint64_t r = num % E;
  // theta = 2 pi r/N in [0, pi/4);  phi = pi/4 - theta = 2 pi (E-r)/N in (0, pi/4]
  const bool use_phi = o & 1;
  const ld ang = TWO_PI * ((ld)(use_phi ? E - r : r) / (ld)N);  // r/N is exact
  const ld c = cosl(ang), s = sinl(ang);
  switch (o) {
    case 0: return {c, s};
    case 1: return {s, c};
    case 2: return {-s, c};
    case 3: return {-c, s};
    case 4: return {-c, -s};
    case 5: return {-s, -c};
    case 6: return {s, -c};
    default: return {c, -s};
  }
}

// evaluation point of output j:  exp(2 i pi (tnum/2^tlog + bitrev_k(j)) / 2^k)
static inline C point(unsigned k, uint64_t j, uint64_t tnum = 1, unsigned tlog = 2) {
  return root(tnum + (bitrev(j, k) << tlog), k + tlog);
}

struct Tables {
  std::vector<C> tw;     // exp(2 i pi t / m), t < m/2
  std::vector<C> twist;  // exp(2 i pi n / 4m), n < m   (standard entry power 1/4)
};
static inline const Tables& tables(unsigned k) {
  static std::map<unsigned, Tables> cache;
  auto it = cache.find(k);
  if (it != cache.end()) return it->second;
  Tables& T = cache[k];
  const uint64_t m = 1ull << k;
  T.tw.resize(m / 2);
  for (uint64_t t = 0; t < m / 2; ++t) T.tw[t] = root(t, k);
  T.twist.resize(m);
  for (uint64_t n = 0; n < m; ++n) T.twist[n] = root(n, k + 2);
  return T;
}

// Y[r] = sum_n a[n] exp(sign 2 i pi r n / m), in place, natural order in and out
static inline void dft(unsigned k, std::vector<C>& a, int sign) {
  const uint64_t m = 1ull << k;
  const Tables& T = tables(k);
  for (uint64_t i = 0; i < m; ++i) {
    uint64_t r = bitrev(i, k);
    if (r > i) std::swap(a[i], a[r]);
  }
  for (uint64_t len = 2; len <= m; len <<= 1) {
    const uint64_t h = len >> 1, step = m / len;
    for (uint64_t i = 0; i < m; i += len)
      for (uint64_t j = 0; j < h; ++j) {
        C w = T.tw[j * step];
        if (sign < 0) w.im = -w.im;
        C u = a[i + j], v = cmul(a[i + j + h], w);
        a[i + j] = cadd(u, v);
        a[i + j + h] = csub(u, v);
      }
  }
}

static inline C twist_root(unsigned k, uint64_t n, uint64_t tnum, unsigned tlog) {
  if (tnum == 1 && tlog == 2) return tables(k).twist[n];
  // tnum*n < 2^(tlog+k) * 2^k: fits easily in 64 bits for k <= 16, tlog <= 20
  return root(tnum * n, k + tlog);
}

// forward transform of c (m complex values) -> out (m values, documented order)
static inline void forward(unsigned k, const std::vector<C>& c, std::vector<C>& out, uint64_t tnum = 1, unsigned tlog = 2) {
  const uint64_t m = 1ull << k;
  std::vector<C> a(m);
  for (uint64_t n = 0; n < m; ++n) a[n] = cmul(c[n], twist_root(k, n, tnum, tlog));
  dft(k, a, +1);
  out.resize(m);
  for (uint64_t j = 0; j < m; ++j) out[j] = a[bitrev(j, k)];
}

// inverse transform: z = m * F^-1(y)
static inline void inverse(unsigned k, const std::vector<C>& y, std::vector<C>& z, uint64_t tnum = 1, unsigned tlog = 2) {
  const uint64_t m = 1ull << k;
  std::vector<C> a(m);
  for (uint64_t r = 0; r < m; ++r) a[r] = y[bitrev(r, k)];
  dft(k, a, -1);
  z.resize(m);
  for (uint64_t n = 0; n < m; ++n) z[n] = cmul(a[n], cconj(twist_root(k, n, tnum, tlog)));
}

// Horner evaluation of sum_n a[n] x^n with a running (rigorous, first-order + margin) error bound.
// |x| = 1 up to rounding; x itself carries an error <= ~3.1u which is folded into the per-step constant.
static inline C horner(const C* a, uint64_t m, C x, ld* errbound, uint64_t stride = 1) {
  C y = a[(m - 1) * stride];
  ld E = 0;
  for (uint64_t n = m - 1; n-- > 0;) {
    const ld ay = cabsl_(y);
    y = cadd(cmul(x, y), a[n * stride]);
    E = E * (1.0L + 4 * U64) + U64 * (6.0L * ay + 1.5L * cabsl_(y));
  }
  if (errbound) *errbound = E * 1.01L;
  return y;
}

// exact value (up to *errbound) of forward output j
static inline C forward_at(unsigned k, const std::vector<C>& c, uint64_t j, ld* errbound, uint64_t tnum = 1, unsigned tlog = 2) {
  return horner(c.data(), 1ull << k, point(k, j, tnum, tlog), errbound);
}

// exact value (up to *errbound) of inverse output n:  z_n = conj(twist_n) * sum_r Y[r] w^r,  Y[r] = y[bitrev(r)],
// w = exp(-2 i pi n / m)
static inline C inverse_at(unsigned k, const std::vector<C>& y, uint64_t n, ld* errbound, uint64_t tnum = 1, unsigned tlog = 2) {
  const uint64_t m = 1ull << k;
  std::vector<C> Y(m);
  for (uint64_t r = 0; r < m; ++r) Y[r] = y[bitrev(r, k)];
  C w = cconj(root(n, k));
  ld E = 0;
  C s = horner(Y.data(), m, w, &E);
  C tw = cconj(root(tnum * n, k + tlog));
  C z = cmul(s, tw);
  if (errbound) *errbound = (E + 6.0L * U64 * cabsl_(s)) * 1.01L;
  return z;
}

// 2-norm with compensated (Kahan) summation: relative error a few 2^-64 whatever the length
static inline ld norm2(const std::vector<C>& v) {
  ld s = 0, comp = 0;
  for (auto& x : v) {
    const ld t = x.re * x.re + x.im * x.im - comp;
    const ld ns = s + t;
    comp = (ns - s) - t;
    s = ns;
  }
  return sqrtl(s);
}

// self-test: transform == Horner at every output for k <= kmax on a fixed pseudo-random vector, both directions,
// standard and one non-standard entry power; inverse(forward(c)) == m c.  Returns 0 when fine, else a code.
static inline int self_test(unsigned kmax = 6) {
  uint64_t s = 0x1234567;
  auto nx = [&]() {
    s = s * 6364136223846793005ull + 1442695040888963407ull;
    return (ld)((int64_t)(s >> 11) - (1ll << 52)) / (ld)(1ll << 52);
  };
  for (unsigned k = 0; k <= kmax; ++k) {
    const uint64_t m = 1ull << k;
    for (int var = 0; var < 2; ++var) {
      const uint64_t tnum = var ? 5 : 1;
      const unsigned tlog = var ? 4 : 2;
      std::vector<C> c(m), f, g;
      for (auto& x : c) x = {nx(), nx()};
      forward(k, c, f, tnum, tlog);
      const ld nf = norm2(f) + 1e-300L;
      for (uint64_t j = 0; j < m; ++j) {
        ld e;
        C h = forward_at(k, c, j, &e, tnum, tlog);
        if (cabsl_(csub(h, f[j])) > 64 * U64 * nf + e) return 100 + (int)k;
      }
      inverse(k, f, g, tnum, tlog);
      for (uint64_t n = 0; n < m; ++n) {
        C want = {c[n].re * (ld)m, c[n].im * (ld)m};
        if (cabsl_(csub(g[n], want)) > 256 * U64 * nf * sqrtl((ld)m)) return 200 + (int)k;
        ld e;
        C h = inverse_at(k, f, n, &e, tnum, tlog);
        if (cabsl_(csub(h, g[n])) > 64 * U64 * nf * sqrtl((ld)m) + e) return 300 + (int)k;
      }
    }
  }
  return 0;
}

}  // namespace fo
