#!/usr/bin/env python3
"""Build libspqlios flavours straight from the working tree of $VERIF_REPO (default /repo).

Same source groups and per-group ISA flags as spqlios/CMakeLists.txt (X86 branch); always
-DNDEBUG (the shipped behaviour) and -DSPQLIOS_VERIF (hooks on).  A flavour directory carries a
stamp = sha256(content of every file under $VERIF_REPO/spqlios, flag string); equal stamp => reuse,
otherwise wipe and rebuild under an flock.  mtimes are never trusted.
"""
import fcntl
import hashlib
import os
import shutil
import subprocess
import sys
from concurrent.futures import ThreadPoolExecutor

VERIF = os.path.dirname(os.path.dirname(os.path.abspath(__file__)))
REPO = os.environ.get("VERIF_REPO", "/repo")
BUILD = os.environ.get("VERIF_BUILD", os.path.join(VERIF, "build"))

SRCS_GENERIC = """commons.c commons_private.c coeffs/coeffs_arithmetic.c arithmetic/vec_znx.c
arithmetic/vec_znx_dft.c arithmetic/vector_matrix_product.c cplx/cplx_common.c cplx/cplx_conversions.c
cplx/cplx_fft_asserts.c cplx/cplx_fft_ref.c cplx/cplx_fftvec_ref.c cplx/cplx_ifft_ref.c cplx/spqlios_cplx_fft.c
reim4/reim4_arithmetic_ref.c reim4/reim4_fftvec_addmul_ref.c reim4/reim4_fftvec_conv_ref.c reim/reim_conversions.c
reim/reim_fft_ifft.c reim/reim_fft_ref.c reim/reim_fftvec_addmul_ref.c reim/reim_ifft_ref.c reim/reim_to_tnx_ref.c
q120/q120_ntt.c q120/q120_arithmetic_ref.c q120/q120_arithmetic_simple.c arithmetic/scalar_vector_product.c
arithmetic/vec_znx_big.c arithmetic/znx_small.c arithmetic/module_api.c reim/reim_execute.c cplx/cplx_execute.c
reim4/reim4_execute.c""".split()
SRCS_FMA_C = """arithmetic/vector_matrix_product_avx.c cplx/cplx_conversions_avx2_fma.c cplx/cplx_fft_avx2_fma.c
cplx/cplx_fft_sse.c cplx/cplx_fftvec_avx2_fma.c cplx/cplx_ifft_avx2_fma.c reim4/reim4_arithmetic_avx2.c
reim4/reim4_fftvec_conv_fma.c reim4/reim4_fftvec_addmul_fma.c reim/reim_conversions_avx.c reim/reim_fft4_avx_fma.c
reim/reim_fft8_avx_fma.c reim/reim_ifft4_avx_fma.c reim/reim_ifft8_avx_fma.c reim/reim_fft_avx2.c reim/reim_ifft_avx2.c
reim/reim_to_tnx_avx.c reim/reim_fftvec_addmul_fma.c""".split()
SRCS_FMA_ASM = """cplx/cplx_fft16_avx_fma.s cplx/cplx_ifft16_avx_fma.s reim/reim_fft16_avx_fma.s
reim/reim_ifft16_avx_fma.s""".split()
SRCS_AVX512 = ["cplx/cplx_fft_avx512.c"]
SRCS_AVX2 = """arithmetic/vec_znx_avx.c coeffs/coeffs_arithmetic_avx.c arithmetic/vec_znx_dft_avx2.c
q120/q120_arithmetic_avx2.c q120/q120_ntt_avx2.c""".split()

GROUPS = [
    (SRCS_GENERIC, []),
    (SRCS_FMA_C, ["-mfma", "-mavx", "-mavx2"]),
    (SRCS_FMA_ASM, ["-mfma", "-mavx", "-mavx2"]),
    (SRCS_AVX512, ["-mfma", "-mavx512f", "-mavx512vl", "-mavx512dq"]),
    (SRCS_AVX2, ["-mbmi2", "-mavx2"]),
]

# UBSan subset (DESIGN 2.1): classes no listed property talks about are deliberately not reported.
UBSAN = ("-fsanitize=bounds,object-size,null,pointer-overflow,shift-exponent,integer-divide-by-zero,"
         "float-cast-overflow,vla-bound,return,unreachable")
UBSAN_NR = "-fno-sanitize-recover=all"

COMMON = ["-DNDEBUG", "-DSPQLIOS_VERIF", "-fPIC", "-Wno-error", "-w"]
FLAVOURS = {
    # baseline /repo/_build flags (RelWithDebInfo: -O2 -g -DNDEBUG -fPIC), gcc
    "rel": dict(cc="gcc", cxx="g++", cflags=["-O2", "-g"], ldflags=[]),
    "asan": dict(cc="clang", cxx="clang++",
                 cflags=["-O1", "-g", "-fno-omit-frame-pointer", "-fsanitize=address", UBSAN, UBSAN_NR],
                 ldflags=["-fsanitize=address", UBSAN]),
    "tsan": dict(cc="clang", cxx="clang++", cflags=["-O1", "-g", "-fsanitize=thread"],
                 ldflags=["-fsanitize=thread"]),
    "fuzz": dict(cc="clang", cxx="clang++",
                 cflags=["-O1", "-g", "-fno-omit-frame-pointer", "-fsanitize=fuzzer-no-link,address", UBSAN, UBSAN_NR],
                 ldflags=["-fsanitize=fuzzer,address", UBSAN]),
}
if os.environ.get("VERIF_COVERAGE"):  # scripts/coverage.py: gcov-instrumented "rel" flavour in a scratch build directory
    FLAVOURS["rel"] = dict(cc="gcc", cxx="g++", cflags=["-O1", "-g", "--coverage", "-fprofile-update=atomic"], ldflags=["-lgcov"])
EXTRA_DEFS = os.environ.get("VERIF_LIB_DEFS", "").split()  # informational flavours (e.g. -DSPQLIOS_Q120_USE_31_BIT_PRIMES)


def tree_hash(root):
    h = hashlib.sha256()
    for d, dirs, files in sorted(os.walk(root)):
        dirs.sort()
        for f in sorted(files):
            p = os.path.join(d, f)
            h.update(os.path.relpath(p, root).encode())
            h.update(b"\0")
            try:
                with open(p, "rb") as fh:
                    h.update(fh.read())
            except OSError:
                pass
            h.update(b"\0")
    return h.hexdigest()


def stamp_for(flavour):
    fl = FLAVOURS[flavour]
    h = hashlib.sha256()
    h.update(tree_hash(os.path.join(REPO, "spqlios")).encode())
    h.update(repr((fl, COMMON, GROUPS, EXTRA_DEFS)).encode())
    return h.hexdigest()


def flavour_dir(flavour):
    return os.path.join(BUILD, "lib-" + flavour)


def build(flavour, quiet=True):
    """Returns (libpath, stamp). Rebuilds when the content hash changed."""
    fl = FLAVOURS[flavour]
    out = flavour_dir(flavour)
    os.makedirs(BUILD, exist_ok=True)
    lock = open(os.path.join(BUILD, ".lock-" + flavour), "w")
    fcntl.flock(lock, fcntl.LOCK_EX)
    try:
        stamp = stamp_for(flavour)
        sf = os.path.join(out, "STAMP")
        lib = os.path.join(out, "libspqlios.a")
        if os.path.exists(sf) and os.path.exists(lib) and open(sf).read().strip() == stamp:
            return lib, stamp
        shutil.rmtree(out, ignore_errors=True)
        os.makedirs(out)
        src_root = os.path.join(REPO, "spqlios")
        jobs = []
        for srcs, gflags in GROUPS:
            for s in srcs:
                o = os.path.join(out, s.replace("/", "__") + ".o")
                cmd = [fl["cc"]] + fl["cflags"] + COMMON + EXTRA_DEFS + gflags + ["-c", os.path.join(src_root, s), "-o", o]
                if s.endswith(".s"):
                    # assembly: no sanitizer instrumentation possible/needed
                    cmd = [fl["cc"]] + gflags + ["-c", os.path.join(src_root, s), "-o", o]
                jobs.append((cmd, o))

        def run(job):
            cmd, o = job
            r = subprocess.run(cmd, stdout=subprocess.PIPE, stderr=subprocess.STDOUT, text=True)
            return r.returncode, " ".join(cmd), r.stdout

        with ThreadPoolExecutor(max_workers=os.cpu_count() or 4) as ex:
            results = list(ex.map(run, jobs))
        bad = [r for r in results if r[0] != 0]
        if bad:
            for rc, cmd, outp in bad[:3]:
                sys.stderr.write("BUILD FAILED: %s\n%s\n" % (cmd, outp))
            raise SystemExit(2)
        objs = [o for _, o in jobs]
        subprocess.check_call(["ar", "rcs", lib] + objs)
        with open(sf, "w") as fh:
            fh.write(stamp)
        return lib, stamp
    finally:
        fcntl.flock(lock, fcntl.LOCK_UN)
        lock.close()


if __name__ == "__main__":
    for f in (sys.argv[1:] or ["rel", "asan"]):
        print(f, *build(f))
